"""C02 - expression text parses to the tree the precedence rules dictate."""

import itertools
import json
import os
import re
import unicodedata
from fractions import Fraction

import fw

ID = 'C02'
LEVEL = 'proof'
LEAN_TARGETS = ['BareProofs.C02', 'BareProofs.C02Print']
DRIVER = 'drv_c02'
DRIVER_ROOT = 'Drv.C02'
GEN = ['Reorder', 'Regex']
THEOREMS = [
    # token level (binary chain)
    'C02.reorder_is_prec', 'C02.chain_flat', 'C02.chain_wf', 'C02.rebuild', 'C02.wf_unique',
    'C02.chain_is_the_prec_tree', 'C02.unary_group_are_operands',
    # text level
    'C02.regex_sources_pinned', 'C02.parse_uses_chain', 'C02.parse_deep_wf', 'C02.unary_tighter', 'C02.group_overrides',
    'C02.fuel_sufficient', 'C02.reject_is_parser_error', 'C02.accept_faithful',
    # text level, print/parse round trip (BareProofs/C02Print.lean; printer and class in BareModel/Print.lean)
    'C02.parse_print', 'C02.parse_print_ws', 'C02.parse_printPad', 'C02.print_injective', 'C02.printL_head',
    'C02.parse_in_image', 'C02.image_of_printable', 'C02.printable_of_image', 'C02.printable_of_parse_partial', 'C02.parse_print_parse',
    'C02.render_ofString', 'C02.numOk_decVal',
    # the Unicode character classes of the token patterns against each other (finite table facts + interval reasoning)
    'C02.digit_word', 'C02.idStart_word', 'C02.word_not_space', 'C02.digit_not_idStart',
]
ASSUMPTIONS = [
    'CPython re engine: the hand-written scanners of the model (BareModel/ExprScan.lean) re-implement each anchored token pattern, '
    'including the two observable backtracking cases (string escapes, bracketed names); tied by Gen/Regex (pattern sources pinned by '
    'theorem regex_sources_pinned) + correspondence streams expr/tokens',
    'float(text) is the correctly rounded value of the decimal literal (the model keeps the exact rational; the harness rounds it)',
    r'\s, \d, \w are modelled exactly as the Unicode classes of a str pattern (29 / 680 / 137936 code points, tables frozen from CPython 3.12 / '
    'Unicode 15.0: ExprScan.isPySpace, Rx.digitRanges with the decimal value of every digit, Text.wordRanges; compared with re for every code '
    'point by the streams charclass of C10 and rx-classes of c06x and digit-values of this module): the identifier "a\u00e9" and the number '
    '"\u0663" are inside the model and compared like any other text',
    'number literals with an exponent of more than 3 digits are excluded from the model comparison (exact rational 10^n in the driver); '
    'lone surrogate code points are not generated (JSON transport)',
    'Python recursion limit: nesting is kept <= 50 (RecursionError for nesting > ~300 is outside the model, DESIGN section 6)',
    'catastrophic backtracking of _R_EXPR_STRING on an unterminated string with a long run of backslashes (time ~1.6^n) is outside the '
    'model (time is not modelled): generators keep <= 20 backslashes per text',
]
TRUSTED = ['reference recursive-descent/precedence-climbing parser and generators in harness/props/C02.py (the property oracle)']

OPS = ['**', '*', '/', '%', '+', '-', '<=', '<', '>=', '>', '==', '!=', '&&', '||']
PREC = {'**': 8, '*': 7, '/': 7, '%': 7, '+': 6, '-': 6, '<=': 5, '<': 5, '>=': 5, '>': 5, '==': 4, '!=': 4, '&&': 3, '||': 2}
MAX_BACKSLASHES = 20


# ---------------------------------------------------------------------------------------------------------------------
# canonical forms
# ---------------------------------------------------------------------------------------------------------------------

def canon_number(x):
    """float -> exact [num, den] (or a kind string for the non-finite results of float(text))."""
    if x != x:
        return 'nan'
    if x in (float('inf'), float('-inf')):
        return 'inf' if x > 0 else '-inf'
    fr = Fraction(x)
    return [fr.numerator, fr.denominator]


def canon_expr(e):
    """Implementation expression model -> protocol form (numbers as exact [num, den])."""
    (k, v), = e.items()
    if k == 'number':
        return {'number': canon_number(v)}
    if k in ('string', 'variable'):
        return {k: v}
    if k == 'group':
        return {'group': canon_expr(v)}
    if k == 'unary':
        return {'unary': {'expr': canon_expr(v['expr']), 'op': v['op']}}
    if k == 'binary':
        return {'binary': {'left': canon_expr(v['left']), 'op': v['op'], 'right': canon_expr(v['right'])}}
    if k == 'function':
        return {'function': {'args': [canon_expr(a) for a in v.get('args', [])], 'name': v['name']}}
    raise ValueError(k)


def round_fraction(num, den):
    """The double nearest to num/den (int / int is correctly rounded in CPython), as a canonical number."""
    try:
        return canon_number(num / den)
    except OverflowError:
        return 'inf' if (num > 0) == (den > 0) else '-inf'


def round_numbers(e):
    """Model expression (exact rationals) -> with each literal rounded to the double `float(text)` yields."""
    (k, v), = e.items()
    if k == 'number':
        return {'number': round_fraction(v[0], v[1])}
    if k in ('string', 'variable'):
        return e
    if k == 'group':
        return {'group': round_numbers(v)}
    if k == 'unary':
        return {'unary': {'expr': round_numbers(v['expr']), 'op': v['op']}}
    if k == 'binary':
        return {'binary': {'left': round_numbers(v['left']), 'op': v['op'], 'right': round_numbers(v['right'])}}
    return {'function': {'args': [round_numbers(a) for a in v['args']], 'name': v['name']}}


def expr_stats(e, depth=1):
    """(nesting depth, number of nodes, set of constructor kinds)"""
    (k, v), = e.items()
    if k in ('number', 'string', 'variable'):
        return depth, 1, {k}
    if k == 'group':
        subs = [v]
    elif k == 'unary':
        subs = [v['expr']]
    elif k == 'binary':
        subs = [v['left'], v['right']]
    else:
        subs = v['args']
    d, n, ks = depth, 1, {k}
    for s in subs:
        d1, n1, k1 = expr_stats(s, depth + 1)
        d = max(d, d1)
        n += n1
        ks |= k1
    return d, n, ks


def climb(first, rest):
    """Reference precedence-climbing parser over (operand, [(op, operand)...]) - the property's own oracle."""
    toks = list(rest)
    pos = [0]

    def parse(lhs, min_prec):
        while pos[0] < len(toks) and PREC[toks[pos[0]][0]] >= min_prec:
            op, rhs = toks[pos[0]]
            pos[0] += 1
            while pos[0] < len(toks) and PREC[toks[pos[0]][0]] > PREC[op]:
                rhs = parse(rhs, PREC[toks[pos[0]][0]])
            lhs = {'binary': {'left': lhs, 'op': op, 'right': rhs}}
        return lhs
    return parse(first, 0)


# ---------------------------------------------------------------------------------------------------------------------
# The implementation, observed
# ---------------------------------------------------------------------------------------------------------------------

def run_impl(text):
    """-> ('ok', canonical tree) | ('err', error text, column, line == text) | ('exc', class name)"""
    parser = fw.impl()['parser']
    try:
        return ('ok', canon_expr(parser.parse_expression(text)))
    except parser.BareScriptParserError as exc:
        return ('err', exc.error, exc.column_number, exc.line == text and exc.line_number is None)
    except Exception as exc:  # pylint: disable=broad-except
        return ('exc', type(exc).__name__)


def impl_out(res):
    """comparison form of run_impl's result (same shape as the driver's answer to op 'parse')"""
    if res[0] == 'ok':
        return {'expr': res[1]}
    if res[0] == 'err':
        return {'error': res[1], 'column': res[2]}
    return {'exception': res[1]}


def model_out(resp):
    if 'expr' in resp:
        return {'expr': round_numbers(resp['expr'])}
    return resp


# ---------------------------------------------------------------------------------------------------------------------
# Reference parser: scannerless recursive descent + precedence climbing, written from the language reference
# (independent of parser.py's spine re-ordering; full Unicode \s \w \d of the re module)
# ---------------------------------------------------------------------------------------------------------------------

class Reject(Exception):
    pass


_REF_WS = re.compile(r'\s*')
_REF_OP = re.compile(r'\*\*|<=|>=|==|!=|&&|\|\||[-+*/%<>]')
_REF_CALL = re.compile(r'([A-Za-z_]\w*)\s*\(')
_REF_NUM = re.compile(r'\+?\d+(?:\.\d*)?(?:e[+-]\d+)?')
_REF_SQ = re.compile(r"'((?:\\\\|\\'|[^'])*)'")
_REF_DQ = re.compile(r'"((?:\\\\|\\"|[^"])*)"')
_REF_ID = re.compile(r'[A-Za-z_]\w*')
_REF_BR = re.compile(r'\[\s*((?:\\\]|[^\]])+)\s*\]')


def _unescape(raw, q):
    out = []
    i = 0
    while i < len(raw):
        if raw[i] == '\\' and i + 1 < len(raw) and raw[i + 1] in ('\\', q):
            out.append(raw[i + 1])
            i += 2
        else:
            out.append(raw[i])
            i += 1
    return ''.join(out)


def ref_parse(text):
    """-> canonical tree (numbers rounded like float()) or raises Reject"""
    pos = [0]

    def ws():
        pos[0] = _REF_WS.match(text, pos[0]).end()

    def operand():
        ws()
        i = pos[0]
        if i >= len(text):
            raise Reject()
        c = text[i]
        if c == '(':
            pos[0] = i + 1
            e = expr(0)
            ws()
            if pos[0] >= len(text) or text[pos[0]] != ')':
                raise Reject()
            pos[0] += 1
            return {'group': e}
        if c in '!-':
            pos[0] = i + 1
            return {'unary': {'expr': operand(), 'op': c}}
        m = _REF_CALL.match(text, i)
        if m:
            pos[0] = m.end()
            args = []
            while True:
                ws()
                if pos[0] < len(text) and text[pos[0]] == ')':
                    pos[0] += 1
                    break
                if args:
                    if pos[0] >= len(text) or text[pos[0]] != ',':
                        raise Reject()
                    pos[0] += 1
                args.append(expr(0))
            return {'function': {'args': args, 'name': m.group(1)}}
        m = _REF_NUM.match(text, i)
        if m:
            pos[0] = m.end()
            return {'number': canon_number(float(m.group(0)))}
        m = _REF_SQ.match(text, i)
        if m:
            pos[0] = m.end()
            return {'string': _unescape(m.group(1), "'")}
        m = _REF_DQ.match(text, i)
        if m:
            pos[0] = m.end()
            return {'string': _unescape(m.group(1), '"')}
        m = _REF_ID.match(text, i)
        if m:
            pos[0] = m.end()
            return {'variable': m.group(0)}
        m = _REF_BR.match(text, i)
        if m:
            pos[0] = m.end()
            return {'variable': _unescape(m.group(1), ']')}
        raise Reject()

    def expr(min_prec):
        lhs = operand()
        while True:
            save = pos[0]
            ws()
            m = _REF_OP.match(text, pos[0])
            if m is None or PREC[m.group(0)] < min_prec:
                pos[0] = save
                return lhs
            pos[0] = m.end()
            rhs = expr(PREC[m.group(0)] + 1)
            lhs = {'binary': {'left': lhs, 'op': m.group(0), 'right': rhs}}

    e = expr(0)
    ws()
    if pos[0] != len(text):
        raise Reject()
    return e


def ref_out(text):
    try:
        return {'expr': ref_parse(text)}
    except Reject:
        return {'reject': True}


def impl_oracles(text, res=None, expected=None):
    """The property's oracles run on the implementation alone. -> [(oracle, expected, actual)] of the failing ones."""
    res = res if res is not None else run_impl(text)
    bad = []
    if res[0] == 'exc':
        bad.append(('only-parser-error-escapes', 'expression model or BareScriptParserError', res[1]))
        return bad
    ref = ref_out(text)
    if res[0] == 'ok':
        if ref != {'expr': res[1]}:
            bad.append(('reference-parse', ref, {'expr': res[1]}))
    else:
        _, err, col, same_line = res
        if 'expr' in ref:
            bad.append(('reference-parse', ref, {'error': err, 'column': col}))
        if err not in ('Syntax error', 'Unmatched parenthesis') or not isinstance(col, int) or not 1 <= col <= len(text) + 1 or not same_line:
            bad.append(('error-shape', 'Syntax error|Unmatched parenthesis, 1 <= column <= len+1, line == text',
                        {'error': err, 'column': col, 'line_is_text': same_line}))
    if expected is not None and impl_out(res) != {'expr': expected}:
        bad.append(('tree-by-construction', {'expr': expected}, impl_out(res)))
    return bad


_NONASCII_WORD = re.compile(r'[^\x00-\x7f]')


def in_model(text):
    """No surrogates (JSON transport), short exponents, few backslashes.  (Non-ASCII word characters / digits ARE in the model.)"""
    for m in _NONASCII_WORD.finditer(text):
        c = m.group(0)
        if 0xd800 <= ord(c) <= 0xdfff:
            return False
    if re.search(r'e[+-]\d{4}', text):
        return False
    return text.count('\\') <= MAX_BACKSLASHES


# ---------------------------------------------------------------------------------------------------------------------
# Generators
# ---------------------------------------------------------------------------------------------------------------------

WS_COMMON = ['', '', '', '', '', ' ', ' ', ' ', '  ', '\t', ' \t ']
WS_RARE = ['\n', '\r\n', '\x0b', '\x0c', '\x1c', '\x1d', '\x1e', '\x1f', '\x85', '\xa0', '\u1680', '\u2000', '\u2003', '\u200a',
           '\u2028', '\u2029', '\u202f', '\u205f', '\u3000', ' \n\t ']
IDENTS = ['a', 'b', 'x', 'y', 'e', 'e5', '_', '__', '_x1', 'abc', 'fooBar', 'x_1', 'if', 'true', 'false', 'null', 'while', 'endif',
          'A', 'Z9', 'jump', 'function', 'e1', 'E',
          # Unicode \w behind an ASCII first character (the patterns are compiled without re.ASCII)
          'a\u00e9', 'x\u0663', '_\u4e2d\u6587', 'e\u0665', 'caf\u00e9', 'x\u00b2', 'n\uff11', 'k\U0001d7d8', 'A\u0416\u03a9', 'i\u2167']
FUNCS = ['ff', 'if', 'mathMax', 'arrayNew', '__', '_1', 'a1', 'fn', 'objectGet', 'ab_', 'E5', 'caf\u00e9', 'f\u0663', 'g\u4e2d', 'h\U0001d7d8']
# the zero digit of every run of ten Unicode decimal digits (category Nd), ASCII excluded
UNI_ZEROS = [c for c in range(0x80, 0x110000) if unicodedata.decimal(chr(c), None) == 0]


def uni_digits(rng, text):
    """The same number text with (some of) its ASCII digits written in other Unicode decimal-digit blocks: re \\d matches them and
    float() reads them with the same value."""
    mode = rng.random()
    z = rng.choice(UNI_ZEROS)
    out = []
    for ch in text:
        if '0' <= ch <= '9' and (mode < 0.5 or rng.random() < 0.5):
            out.append(chr((z if mode < 0.8 else rng.choice(UNI_ZEROS)) + ord(ch) - 48))
        else:
            out.append(ch)
    return ''.join(out)
STR_CHARS = list('abc xyz019+-*/()[],.!<>=&|#:;') + ['\t', '\u00e9', '\u20ac', '\u0663', '\u4e2d', '\U0001f600', '\xa0', '\n']
BR_CHARS = list('abc xyz019+-*/()[,.!<>=&|\'"') + ['\t', '\u00e9', '\u20ac', '\u0663', '\U0001f600']


class Gen:
    """Grammar-directed generator.  Every generated piece is (token list, exact tree, impl-rounded tree is derived)."""

    def __init__(self, rng, rare_ws=0.06, unicode_letters=True):
        self.rng = rng
        self.rare_ws = rare_ws
        self.unicode_letters = unicode_letters
        # non-ASCII letters/digits inside string literals and bracketed names, Unicode digits in numbers
        self.str_chars = STR_CHARS if unicode_letters else [c for c in STR_CHARS if c.isascii() or not re.match(r'\w', c)]
        self.br_chars = BR_CHARS if unicode_letters else [c for c in BR_CHARS if c.isascii() or not re.match(r'\w', c)]

    def ws(self):
        r = self.rng
        if r.random() < self.rare_ws:
            return r.choice(WS_RARE)
        return r.choice(WS_COMMON)

    def number(self):
        r = self.rng
        k = r.random()
        if k < 0.35:
            ip = str(r.randint(0, 9))
        elif k < 0.7:
            ip = str(r.randint(0, 10 ** r.randint(1, 6)))
        elif k < 0.85:
            ip = r.choice(['007', '00', '9007199254740993', '9007199254740992', '18446744073709551616', '123456789012345678901234567890'])
        else:
            ip = ''.join(r.choice('0123456789') for _ in range(r.randint(1, 25)))
        text = ip
        fp = ''
        if r.random() < 0.4:
            fp = ''.join(r.choice('0123456789') for _ in range(r.choice([0, 0, 1, 1, 2, 3, 6, 17])))
            text += '.' + fp
        ex = 0
        if r.random() < 0.3:
            sign = r.choice('+-')
            ed = r.choice([str(r.randint(0, 30)), '0' * r.randint(1, 2) + str(r.randint(0, 9)), r.choice(['308', '309', '323', '324', '400', '999'])])
            ex = int(sign + ed)
            text += 'e' + sign + ed
        if r.random() < 0.15:
            text = '+' + text
        if self.unicode_letters and r.random() < 0.08:
            text = uni_digits(r, text)
        val = Fraction(int(ip + fp)) * Fraction(10) ** (ex - len(fp))
        return [text], {'number': [val.numerator, val.denominator]}

    def string(self):
        r = self.rng
        q = r.choice('\'"')
        out = []
        val = []
        n = r.choice([0, 1, 1, 2, 3, 5, 8])
        i = 0
        budget = 4
        while i < n:
            i += 1
            k = r.random()
            if k < 0.12:
                out.append('\\' + q)
                val.append(q)
            elif k < 0.2 and budget:
                budget -= 1
                out.append('\\\\')
                val.append('\\')
            elif k < 0.26:
                o = '"' if q == "'" else "'"
                out.append(o)
                val.append(o)
            elif k < 0.31 and budget:
                budget -= 1
                # a lone backslash in front of an ordinary character stays
                c = r.choice('nrt0abx ')
                out.append('\\' + c)
                val.append('\\' + c)
            else:
                c = r.choice(self.str_chars)
                out.append(c)
                val.append(c)
        return [q + ''.join(out) + q], {'string': ''.join(val)}

    def ident(self):
        r = self.rng
        if r.random() < 0.7:
            name = r.choice(IDENTS)
        else:
            name = r.choice('abcxyzABC_') + ''.join(r.choice('abcxyz_0123456789ABC') for _ in range(r.randint(0, 8)))
        return [name], {'variable': name}

    def bracket(self):
        r = self.rng
        n = r.choice([1, 1, 2, 3, 5, 9])
        out = []
        val = []
        for i in range(n):
            k = r.random()
            if k < 0.12:
                out.append('\\]')
                val.append(']')
            elif k < 0.16 and i + 1 < n:
                out.append('\\x')
                val.append('\\x')
            else:
                c = r.choice(self.br_chars)
                if i == 0 and c.isspace():
                    c = 'v'
                out.append(c)
                val.append(c)
        lead = r.choice(['', '', '', ' ', '  ', '\t', '\u3000'])
        return ['[' + lead + ''.join(out) + ']'], {'variable': ''.join(val)}

    def call(self, depth, group_depth):
        r = self.rng
        name = r.choice(FUNCS)
        toks = [name + r.choice(['', '', '', ' ', '\t']) + '(']
        args = []
        nargs = r.choice([0, 1, 1, 2, 2, 3, 4])
        for i in range(nargs):
            if i:
                toks.append(',')
            t, e = self.binary(depth + 1, group_depth + 1)
            toks += t
            args.append(e)
        toks.append(')')
        return toks, {'function': {'args': args, 'name': name}}

    def operand(self, depth, group_depth, maxdepth=8):
        r = self.rng
        leaf = depth >= maxdepth or group_depth >= 45
        k = r.random()
        if not leaf and k < 0.16:
            t, e = self.binary(depth + 1, group_depth + 1, maxdepth)
            return ['('] + t + [')'], {'group': e}
        if not leaf and k < 0.30:
            return self.call(depth, group_depth)
        if not leaf and k < 0.42:
            op = r.choice('!-')
            t, e = self.operand(depth + 1, group_depth + 1, maxdepth)
            return [op] + t, {'unary': {'expr': e, 'op': op}}
        k = r.random()
        if k < 0.3:
            return self.number()
        if k < 0.5:
            return self.string()
        if k < 0.85:
            return self.ident()
        return self.bracket()

    def binary(self, depth, group_depth=0, maxdepth=8):
        r = self.rng
        n = r.choice([0, 0, 1, 1, 1, 2, 2, 3, 4, 6] if depth <= 2 else [0, 0, 0, 1, 1, 2, 3]) if depth < maxdepth else r.choice([0, 0, 1])
        t0, e0 = self.operand(depth, group_depth, maxdepth)
        toks = list(t0)
        rest = []
        for _ in range(n):
            op = r.choice(OPS)
            t, e = self.operand(depth, group_depth, maxdepth)
            toks.append(op)
            toks += t
            rest.append((op, e))
        return toks, climb(e0, rest)

    def render(self, toks):
        return self.ws() + ''.join(t + self.ws() for t in toks)


SOUP = (OPS + OPS + ['=', '&', '|', '!', '!', '<>', '***', '(', '(', ')', ')', ',', ',', '.', ':', '#', '\\', "'", '"', '[', ']',
                     'a', 'b', 'f', 'ff', 'if', 'x1', '_', 'f(', 'ff(', 'ff (', 'f(x)', 'ff(x)', 'ff()', 'ff(,)', 'ff(a,)', 'ff(,', 'ff(, x)',
                     '1', '0', '5', '+5', '-5', '1.', '1.5', '.5', '1..', '1.5.3', '1e5', '1e+5', '1.e+5', '1e+', '1e-', '1E+5', '1_0', '0x10',
                     '1.5e+3', '1.5e-3', '1e+05',
                     "'s'", "'a\\'b'", "'a\\\\'", "'abc\\'", "'abc", "'\\\\\\'", "'\\'", "''", '"d"', '"a\\"b"', '"a\'b"', '"abc', '""',
                     '[v]', '[ a b ]', '[a\\]b]', '[]', '[ ]', '[   ]', '[a', '[a]]', '[a\\\\]', '[a\\]', '[ \\]', '[\\]]',
                     ' ', ' ', '  ', '\t', '\n', '\x0b', '\x1c', '\x85', '\xa0', '\u2003', '\u3000',
                     '\u20ac', '\u2192', '\U0001f600', '\u200b', '\ufeff'])
# non-ASCII letters / digits / numerics (\w and \d of the token patterns are the Unicode classes; \u00b2 \u2167 are \w but not \d)
SOUP_UNI = ['\u0663\u0664', '\u0661.\u0665e+\u0662', '+\u0967', '-\uff15', '1\u0663x', 'a\U0001d7d8', '\U0001d7ce\U0001d7ff', '\U0001fbf9',
            '\u0663.', '.\u0663', '\u0663e+', '\u0663 \u0663', 'e\u0663', '_\u00e9(', 'ff\u0663 (', '\u00e9(', '\u0663(', 'a\u00e9\u0663_', '\u0345',
            'a\u0301', '\u00aa', 'x\u00aa', '\u00b5m', 'a\u200d', 'a\u00b7', '\u19da', '1\u19da',
            '\u00e9', 'a\u00e9', '\u0663', '1\u0663', '1.\u0663', '1e+\u0663', '\u00b2', 'x\u00b2', '\u2167', 'ff\u00e9(', '\u4e2d', 'a\u0663(', "'\u00e9'",
            '[\u0663]', '\uff11', '\U0001d7d8']


def soup_case(rng):
    n = rng.choice([1, 2, 2, 3, 3, 4, 5, 6, 8, 12])
    sep = rng.choice(['', ' ', ' ', 'mix'])
    toks = [rng.choice(SOUP) if rng.random() < 0.9 else rng.choice(SOUP_UNI) for _ in range(n)]
    if sep == 'mix':
        return ''.join(t + rng.choice(['', ' ']) for t in toks)
    return sep.join(toks)


def mutate_case(rng, gen):
    toks, _ = gen.binary(rng.choice([4, 5, 6, 7]))
    toks = list(toks)
    kind = rng.choice(['delete', 'insert', 'swap', 'dup', 'replace', 'unbalance', 'trail-op', 'lead-op', 'delchar', 'inschar', 'truncate',
                       'one-letter-call', 'bad-escape'])
    if kind == 'delete' and toks:
        del toks[rng.randrange(len(toks))]
    elif kind == 'insert':
        toks.insert(rng.randint(0, len(toks)), rng.choice(SOUP))
    elif kind == 'swap' and len(toks) >= 2:
        i = rng.randrange(len(toks) - 1)
        toks[i], toks[i + 1] = toks[i + 1], toks[i]
    elif kind == 'dup' and toks:
        i = rng.randrange(len(toks))
        toks.insert(i, toks[i])
    elif kind == 'replace' and toks:
        toks[rng.randrange(len(toks))] = rng.choice(SOUP)
    elif kind == 'unbalance':
        toks.insert(rng.randint(0, len(toks)), rng.choice('()'))
    elif kind == 'trail-op':
        toks.append(rng.choice(OPS + ['!', ',']))
    elif kind == 'lead-op':
        toks.insert(0, rng.choice(OPS))
    elif kind == 'one-letter-call':
        toks.insert(rng.randint(0, len(toks)), rng.choice(['f(x)', 'f()', 'g (1, 2)']))
    elif kind == 'bad-escape':
        toks.insert(rng.randint(0, len(toks)), rng.choice(["'a\\'", "'\\\\\\'", '"a\\"', '[a\\]', '[a\\\\]', "'a\\", "'\\x'"]))
    text = gen.render(toks)
    if kind == 'delchar' and text:
        i = rng.randrange(len(text))
        text = text[:i] + text[i + 1:]
    elif kind == 'inschar':
        i = rng.randint(0, len(text))
        text = text[:i] + rng.choice('()[]\'"\\,.!=<>&|+-*/% \tae1_#\u20ac\u3000' if rng.random() < 0.9 else '\u00e9\u0663') + text[i:]
    elif kind == 'truncate' and text:
        text = text[:rng.randrange(len(text))]
    return kind, text


def deep_cases():
    """nesting up to 50 (groups, unary chains, calls), balanced and not"""
    for n in (1, 2, 10, 49, 50):
        yield '(' * n + 'a' + ')' * n
        yield '(' * n + 'a' + ')' * (n - 1)
        yield '(' * n + 'a' + ')' * (n + 1)
        yield '-' * n + 'a'
        yield '!-' * (n // 2 + 1) + '1'
        yield 'ff(' * n + ')' * n
        yield 'ff(' * n + 'x' + ')' * n
        yield 'ff(a, ' * n + 'b' + ')' * n
        yield 'ff(a, ' * n + 'b' + ')' * (n - 1)
        yield '(1 + ' * n + '2' + ' * 3)' * n
        yield ' + '.join(['a'] * (n + 1))
        yield ' ** '.join(['a'] * (n + 1))
        yield ' || a && '.join(['b'] * (n + 1))


OPERANDS = [('a', {'variable': 'a'}), ('1', {'number': [1, 1]}), ("'s'", {'string': 's'}),
            ('(b + c)', {'group': {'binary': {'left': {'variable': 'b'}, 'op': '+', 'right': {'variable': 'c'}}}}),
            ('-d', {'unary': {'expr': {'variable': 'd'}, 'op': '-'}}), ('!e', {'unary': {'expr': {'variable': 'e'}, 'op': '!'}}),
            ('fn(x, y)', {'function': {'args': [{'variable': 'x'}, {'variable': 'y'}], 'name': 'fn'}})]
# operands of the exhaustive text-level enumeration: parenthesised and unary operands, a call, a signed number, a bracketed name
VARIANT_OPERANDS = [('(p || q)', {'group': {'binary': {'left': {'variable': 'p'}, 'op': '||', 'right': {'variable': 'q'}}}}),
                    ('-d', {'unary': {'expr': {'variable': 'd'}, 'op': '-'}}),
                    ('!(e ** f)', {'unary': {'expr': {'group': {'binary': {'left': {'variable': 'e'}, 'op': '**', 'right': {'variable': 'f'}}}}, 'op': '!'}}),
                    ('--2', {'unary': {'expr': {'unary': {'expr': {'number': [2, 1]}, 'op': '-'}}, 'op': '-'}}),
                    ('fn(x * y, z)', {'function': {'args': [{'binary': {'left': {'variable': 'x'}, 'op': '*', 'right': {'variable': 'y'}}},
                                                             {'variable': 'z'}], 'name': 'fn'}}),
                    ('+5', {'number': [5, 1]}), ('[n m]', {'variable': 'n m'}), ('(g)', {'group': {'variable': 'g'}})]


def chain_cases(ctx):
    """Exhaustive operator chains of length <= kmax (plain operands), plus random chains with mixed operands."""
    kmax = ctx.scale(3, 4)
    for k in range(1, kmax + 1):
        for ops in itertools.product(OPS, repeat=k):
            names = [chr(ord('a') + i) for i in range(k + 1)]
            yield names[0], {'variable': names[0]}, [(op, names[i + 1], {'variable': names[i + 1]}) for i, op in enumerate(ops)]
    rng = ctx.rng('chains')
    for _ in range(ctx.scale(2000, 40000)):
        k = rng.randint(1, 9)
        f = rng.choice(OPERANDS)
        yield f[0], f[1], [(rng.choice(OPS),) + rng.choice(OPERANDS) for _ in range(k)]


def load_corpus():
    path = os.path.join(fw.VERIF, 'harness', 'corpus', 'C02.jsonl')
    out = []
    if os.path.exists(path):
        with open(path, encoding='utf-8') as fh:
            for ln in fh:
                ln = ln.strip()
                if ln and not ln.startswith('#'):
                    out.append(json.loads(ln)['text'])
    return out


# ---------------------------------------------------------------------------------------------------------------------
# Streams
# ---------------------------------------------------------------------------------------------------------------------

def _witness(ctx, text, bad):
    for oracle, want, got in bad:
        ctx.witness(oracle, text, want, got)


def compare_text(ctx, stream, st, text, resp, tags, expected=None, nontrivial=True, modelled=True):
    """One text: implementation vs model (if the text is inside the model's domain) + the oracles on the implementation."""
    res = run_impl(text)
    out = impl_out(res)
    tag = 'accept' if res[0] == 'ok' else ('reject:' + res[1] if res[0] == 'err' else 'exception')
    st.case(text, nontrivial=nontrivial, tags=list(tags) + [tag, 'modelled' if modelled else 'impl-only'])
    if modelled:
        ctx.compare(stream, text, out, model_out(resp))
    _witness(ctx, text, impl_oracles(text, res, expected))
    return res


def stream_chain(ctx):
    st = ctx.stream('chain', 'token level: operator chains, all 14^k for k<=3 (quick) / k<=4 (thorough) over variables + random chains '
                             '(length<=9) over literal/group/unary/call operands; non-trivial = at least 2 operators')
    cases = list(chain_cases(ctx))
    reqs = [{'op': 'chain', 'first': f, 'rest': [[op, e] for op, _, e in rest]} for _, f, rest in cases]
    resps = ctx.driver.batch(reqs)
    for (ftxt, f, rest), resp in zip(cases, resps):
        text = ftxt + ''.join(f' {op} {t}' for op, t, _ in rest)
        st.case(text, nontrivial=len(rest) >= 2, tags=[f'len{len(rest)}'])
        res = run_impl(text)
        impl = res[1] if res[0] == 'ok' else impl_out(res)
        model = resp.get('expr', resp)
        ctx.compare('chain', text, impl, model)
        # the property's own oracle on the implementation
        want = climb(f, [(op, e) for op, _, e in rest])
        if impl != want:
            ctx.witness('precedence-climbing', text, want, impl)
    st.exhaustive = False


def stream_chaintext(ctx):
    kmax = ctx.scale(3, 4)
    st = ctx.stream('chaintext', f'text level, exhaustive: every operator sequence of length 1..{kmax} (14^k), once over plain variables and '
                                 'once over parenthesised / unary / call / signed-number / bracketed operands (rotating through 8 operand '
                                 'shapes), parsed from text by implementation and model, tree compared with the precedence-climbing '
                                 'reference; non-trivial = at least 2 operators')
    cases = []
    nv = len(VARIANT_OPERANDS)
    for k in range(1, kmax + 1):
        for idx, ops in enumerate(itertools.product(OPS, repeat=k)):
            names = [chr(ord('a') + i) for i in range(k + 1)]
            plain = [(n, {'variable': n}) for n in names]
            variant = [VARIANT_OPERANDS[(idx + 3 * i) % nv] for i in range(k + 1)]
            for label, operands, tight in (('plain', plain, False), ('variant', variant, idx % 2 == 1)):
                sep = '' if tight else ' '
                text = operands[0][0] + ''.join(sep + op + sep + o[0] for op, o in zip(ops, operands[1:]))
                want = climb(operands[0][1], [(op, o[1]) for op, o in zip(ops, operands[1:])])
                cases.append((text, want, k, label))
    resps = ctx.driver.batch([{'op': 'parse', 'text': c[0]} for c in cases])
    for (text, want, k, label), resp in zip(cases, resps):
        compare_text(ctx, 'chaintext', st, text, resp, [f'len{k}', label], expected=want, nontrivial=k >= 2)
        if resp.get('expr') != want:
            ctx.disagree('chaintext', text, {'expected-by-construction': want}, resp, 'model differs from the precedence-climbing reference')
    st.exhaustive = True


def stream_expr(ctx):
    st = ctx.stream('expr', 'grammar-directed random expressions to depth 8 (numbers incl. 1. / 1.5e+3 / +5 / 25-digit, strings with both '
                            'quotes and escapes, identifiers incl. keywords, [bracketed names], calls with 0-4 args, groups, unary chains, '
                            'all 14 binary operators, random whitespace incl. tabs/newlines/Unicode spaces) rendered to text; implementation '
                            'vs model vs the tree known by construction (operands combined by the precedence-climbing reference); '
                            'non-trivial = at least 3 nodes')
    rng = ctx.rng('expr')
    gen = Gen(rng)
    cases = []
    for i in range(ctx.scale(4000, 70000)):
        maxdepth = 8 if i % 4 else rng.randint(1, 4)
        toks, want = gen.binary(8 - maxdepth + 1, 0, 8)
        text = gen.render(toks)
        if text.count('\\') > MAX_BACKSLASHES or len(text) > 4000:
            continue
        cases.append((text, want))
    resps = ctx.driver.batch([{'op': 'parse', 'text': c[0]} for c in cases])
    for (text, want), resp in zip(cases, resps):
        depth, nodes, kinds = expr_stats(want)
        tags = [f'depth{min(depth, 12)}'] + sorted(kinds) + (['non-ascii'] if not text.isascii() else [])
        compare_text(ctx, 'expr', st, text, resp, tags, expected=round_numbers(want), nontrivial=nodes >= 3)
        if resp.get('expr') != want:
            ctx.disagree('expr', text, {'expected-by-construction': want}, resp, 'model differs from the tree known by construction')


def stream_tokens(ctx):
    st = ctx.stream('tokens', 'malformed / arbitrary texts: hand-picked corpus, nesting to depth 50, random token strings (operators, '
                              'near-operators, parens, commas, good and broken numbers/strings/brackets, one-letter calls, ASCII and Unicode '
                              'whitespace, non-ASCII symbols/letters/digits) and single mutations of valid expressions (delete/insert/swap/'
                              'duplicate/replace a token, unbalanced parens, trailing/leading operator, bad escapes, character edits, '
                              'truncation): accept/reject agreement, equal tree on accept, equal error text and column on reject; texts with '
                              'non-ASCII letters/digits (Unicode \\w / \\d: identifiers like a\u00e9, numbers like \u0663.\u0665) are compared with the model '
                              'like all others; non-trivial = at least 2 characters')
    rng = ctx.rng('tokens')
    gen = Gen(rng, rare_ws=0.03)
    cases = [('corpus', t) for t in load_corpus()] + [('deep', t) for t in deep_cases()]
    for _ in range(ctx.scale(5000, 120000)):
        cases.append(('soup', soup_case(rng)))
    for _ in range(ctx.scale(5000, 120000)):
        kind, text = mutate_case(rng, gen)
        cases.append(('mut-' + kind, text))
    cases = [(k, t) for k, t in cases if t.count('\\') <= MAX_BACKSLASHES and len(t) <= 4000]
    modelled = [in_model(t) for _, t in cases]
    resps = iter(ctx.driver.batch([{'op': 'parse', 'text': t} for (_, t), m in zip(cases, modelled) if m]))
    for (kind, text), m in zip(cases, modelled):
        resp = next(resps) if m else None
        compare_text(ctx, 'tokens', st, text, resp, [kind], nontrivial=len(text) >= 2, modelled=m)



# ---------------------------------------------------------------------------------------------------------------------
# print-parse: the canonical printer of the model (Print.printExpr, the text theorem C02.parse_print talks about) against
# the real parser
# ---------------------------------------------------------------------------------------------------------------------

PP_IDENTS = IDENTS + ['f', 'g', 'n', 'i', 'null', 'true', 'false', 'elif', 'return', '__bareScriptIf07', '__bareScriptIf7', '__bareScript',
                      '__bareScriptDone12', 'x__bareScriptIf7']
PP_ODD_NAMES = ['a b', 'x y]z', ' ', '\t', '　', '9lives', 'a-b', 'a.b', 'é', 'café', 'a\\b', '\\]', ']', '[', '[x]', 'a]', ']]', "it's",
                'a"b', 'π r²', '\U0001f600', 'a ', 'a \t', 'tab\there', 'new\nline', '\\\\x', '\\x', 'a\\]b', '(', ')', ',', '1', '1.5', '-',
                '!', 'a,b', '٣', 'a b', "'", '"', '#', ':', '=', 'x\\ ', '中文']
PP_BAD_NAMES = ['', ' a', '　a', '\ta b', 'a\\', '\\', 'a b\\', '  ', '\\\\', ']\\']
PP_FUNCS = FUNCS + ['f', 'g', 'x', '_', 'null', 'systemFetch', 'A', 'z\u00df\u0663']
PP_BAD_FUNCS = ['', 'a b', '1f', 'f-g', 'éa', '٣f', 'caf-é', 'f(', ' f', '[f]']
PP_PADS = ['', '', ' ', ' ', '  ', '\t', ' \t ', '\n', '\r\n', '\x0b\x0c', '\x1c\x1f', '\x85', '\xa0', ' ', '  ', ' ', ' ',
           '  ', '　']
_PP_IDENT = re.compile(r'[A-Za-z_]\w*\Z')       # Unicode \w, as the token patterns


def py_printable(e):
    """The printable class, re-stated in Python from the documented conditions (cross-check of Print.printable)."""
    (k, v), = e.items()
    if k == 'number':
        num, den = v
        while den % 2 == 0:
            den //= 2
        while den % 5 == 0:
            den //= 5
        return num >= 0 and den == 1
    if k == 'string':
        return True
    if k == 'variable':
        if _PP_IDENT.match(v):
            return True
        if len(v) == 1:
            return v != '\\'
        return len(v) > 1 and not v[0].isspace() and v[-1] != '\\'
    if k == 'function':
        return bool(_PP_IDENT.match(v['name'])) and all(py_printable(a) for a in v['args'])
    if k == 'group':
        return py_printable(v)
    if k == 'unary':
        return 'binary' not in v['expr'] and py_printable(v['expr'])
    left, right, op = v['left'], v['right'], v['op']
    if 'binary' in left and PREC[left['binary']['op']] < PREC[op]:
        return False
    if 'binary' in right and PREC[right['binary']['op']] <= PREC[op]:
        return False
    return py_printable(left) and py_printable(right)


class TreeGen:
    """Random expression TREES (not texts).  Mostly inside the printable class by construction (a child that would violate
    the precedence conditions is wrapped in a group node), with deliberate defects at a small rate: bare low-precedence
    children, unary of a binary, negative / non-decimal numbers, empty / blank-led / backslash-ended names, bad call names."""

    def __init__(self, rng, defect=0.02):
        self.rng = rng
        self.defect = defect
        self.backslashes = 0

    def bad(self):
        return self.rng.random() < self.defect

    def number(self):
        r = self.rng
        k = r.random()
        if k < 0.3:
            fr = Fraction(r.randint(0, 20))
        elif k < 0.5:
            fr = Fraction(r.randint(0, 10 ** r.randint(1, 30)))
        elif k < 0.8:
            fr = Fraction(r.randint(0, 10 ** r.randint(1, 9)), 10 ** r.randint(1, 8))
        elif k < 0.9:
            fr = Fraction(r.randint(0, 4000), 2 ** r.randint(1, 12))
        else:
            fr = Fraction(r.choice([1, 3, 7, 123456789, 2 ** 53 + 1, 10 ** 22 + 1, 5, 314159]), r.choice([1, 10, 1000, 5 ** 9, 10 ** 17, 2 ** 40, 10 ** 30]))
        if self.bad():
            fr = -fr - 1 if r.random() < 0.5 else fr + Fraction(1, r.choice([3, 7, 6, 11, 30, 9 * 10 ** 6]))
        return {'number': [fr.numerator, fr.denominator]}

    def string(self):
        r = self.rng
        out = []
        for _ in range(r.choice([0, 1, 1, 2, 3, 5, 8, 13])):
            k = r.random()
            if k < 0.12:
                out.append("'")
            elif k < 0.2:
                out.append('"')
            elif k < 0.3 and self.backslashes < 6:
                self.backslashes += 1
                out.append('\\')
            else:
                out.append(r.choice(STR_CHARS))
        return {'string': ''.join(out)}

    def variable(self):
        r = self.rng
        if self.bad():
            return {'variable': r.choice(PP_BAD_NAMES)}
        k = r.random()
        if k < 0.5:
            return {'variable': r.choice(PP_IDENTS)}
        if k < 0.6:
            return {'variable': r.choice('abcxyzABC_') + ''.join(r.choice('abcxyz_0123456789ABC') for _ in range(r.randint(0, 8)))}
        if k < 0.85:
            name = r.choice(PP_ODD_NAMES)
        else:
            name = ''.join(r.choice(BR_CHARS + [']', ']', '\\']) for _ in range(r.randint(1, 7)))
            if len(name) > 1 and r.random() < 0.9:     # mostly inside the class: no leading blank, no trailing backslash
                name = ('v' if name[0].isspace() else name[0]) + name[1:-1] + ('v' if name[-1] == '\\' else name[-1])
        if name.count('\\') + self.backslashes > 6:
            name = name.replace('\\', 'b') or 'b'
        self.backslashes += name.count('\\')
        return {'variable': name}

    def call(self, depth):
        r = self.rng
        name = r.choice(PP_BAD_FUNCS) if self.bad() else r.choice(PP_FUNCS)
        return {'function': {'args': [self.expr(depth - 1) for _ in range(r.choice([0, 1, 1, 2, 2, 3, 4]))], 'name': name}}

    def operand(self, depth):
        r = self.rng
        k = r.random()
        if depth > 1 and k < 0.2:
            return {'group': self.expr(depth - 1)}
        if depth > 1 and k < 0.38:
            return self.call(depth)
        if depth > 1 and k < 0.54:
            inner = self.expr(depth - 1) if self.bad() else self.operand(depth - 1)
            return {'unary': {'expr': inner, 'op': r.choice('!-')}}
        k = r.random()
        if k < 0.3:
            return self.number()
        if k < 0.5:
            return self.string()
        return self.variable()

    def expr(self, depth):
        r = self.rng
        if depth <= 1 or r.random() < 0.3:
            return self.operand(depth)
        op = r.choice(OPS)
        left = self.expr(depth - 1)
        right = self.expr(depth - 1)
        if 'binary' in left and PREC[left['binary']['op']] < PREC[op] and not self.bad():
            left = {'group': left}
        if 'binary' in right and PREC[right['binary']['op']] <= PREC[op] and not self.bad():
            right = {'group': right}
        return {'binary': {'left': left, 'op': op, 'right': right}}

    def tree(self, depth):
        self.backslashes = 0
        return self.expr(depth)


def stream_print_parse(ctx):
    st = ctx.stream('print-parse', 'random expression TREES to depth 6 (all 14 operators, groups, unary chains, calls with 0-4 arguments, identifiers '
                                   'incl. keywords and generated-name look-alikes, odd names that need the [bracketed] form incl. blanks, ], backslashes, '
                                   'non-ASCII, the one-blank name; integers to 30 digits and finite decimals; strings with both quotes, backslashes, '
                                   'newlines, non-ASCII) -> printed by the model (Print.printExpr: the texts theorem C02.parse_print is about) -> '
                                   'parsed by the real parse_expression: must be exactly the tree (numbers rounded like float()); the same token '
                                   'sequence with a random pad of blanks (29 code points, or nothing at all) before every token and at the end must '
                                   'give the same tree (C02.parse_print_ws); the model parser must give it too; Print.printable must agree with the '
                                   'class re-stated in Python; trees outside the class (about 1 in 5, deliberate defects) are only tagged with the '
                                   'reason and their text run through the implementation-only oracles; non-trivial = printable with at least 3 nodes')
    rng = ctx.rng('print-parse')
    gen = TreeGen(rng)
    cases = []
    for i in range(ctx.scale(2500, 60000)):
        depth = 6 if i % 3 else rng.randint(1, 5)
        cases.append((gen.tree(depth), rng.choice(PP_PADS)))
    resps = ctx.driver.batch([{'op': 'print', 'expr': t, 'pad': pad} for t, pad in cases])
    good = [(t, pad, r) for (t, pad), r in zip(cases, resps) if r.get('printable')]
    parsed = iter(ctx.driver.batch([{'op': 'parse', 'text': r['text']} for _, _, r in good]))
    for (tree, pad), resp in zip(cases, resps):
        if 'text' not in resp:
            ctx.disagree('print-parse', tree, 'a printed text', resp, 'driver could not decode the tree')
            continue
        text = resp['text']
        depth, nodes, kinds = expr_stats(tree)
        tags = [f'depth{depth}'] + sorted(kinds) + (['non-ascii'] if not text.isascii() else []) + (['bracketed'] if '[' in text else [])
        if py_printable(tree) != bool(resp.get('printable')):
            ctx.disagree('print-parse', tree, {'printable': py_printable(tree)}, resp, 'Print.printable differs from the class re-stated in Python')
        if not resp.get('printable'):
            st.case(tree, nontrivial=False, tags=tags + ['non-printable', 'why:' + resp.get('why', '?')])
            if text.count('\\') <= MAX_BACKSLASHES:
                _witness(ctx, text, impl_oracles(text))
            continue
        want = round_numbers(tree)
        st.case(tree, nontrivial=nodes >= 3, tags=tags + ['printable', 'pad:' + ('none' if pad == '' else 'ascii' if pad.isascii() else 'unicode')])
        mresp = next(parsed)
        if mresp.get('expr') != tree:
            ctx.disagree('print-parse', text, {'expr': tree}, mresp, 'model parser does not read the model printer back (contradicts C02.parse_print)')
        for txt in (text, resp['padded']):
            res = run_impl(txt)
            ctx.compare('print-parse', txt, impl_out(res), {'expr': want})
            _witness(ctx, txt, impl_oracles(txt, res, want))


def shrink(text, budget=600):
    """Delta debugging on the characters of a failing text: a shorter text on which some oracle still fails on the implementation."""
    def fails(t):
        return t.count('\\') <= MAX_BACKSLASHES and bool(impl_oracles(t))
    cur = text
    n = 2
    while len(cur) >= 2 and budget > 0:
        chunk = max(1, len(cur) // n)
        for i in range(0, len(cur), chunk):
            cand = cur[:i] + cur[i + chunk:]
            budget -= 1
            if fails(cand):
                cur = cand
                n = max(n - 1, 2)
                break
            if budget <= 0:
                break
        else:
            if chunk == 1:
                break
            n = min(n * 2, len(cur))
    return cur


def shrink_witnesses(ctx):
    """Put a minimised witness first (the replay file shows the first one)."""
    if not ctx.witnesses:
        return
    best = None
    for w in sorted(ctx.witnesses, key=lambda w: len(w['input']))[:3]:
        text = shrink(w['input'])
        bad = impl_oracles(text)
        if bad and (best is None or len(text) < len(best[0])):
            best = (text, bad[0], w['input'])
    if best is not None:
        text, (oracle, want, got), origin = best
        ctx.witnesses.insert(0, {'oracle': oracle, 'input': text, 'expected': want, 'actual': got, 'shrunk_from': origin})


def stream_digit_values(ctx):
    st = ctx.stream('digit-values', 'every code point of a Unicode numeric category (Nd: the 680 decimal digits that re \\d and float() accept; '
                                    'Nl / No: numerics that are \\w or nothing, never \\d) as a text of its own, behind an ASCII digit, behind a '
                                    'letter and as a fraction digit: implementation vs model (digit class AND digit value), and the value known '
                                    'from unicodedata.decimal; exhaustive; non-trivial = a decimal digit outside ASCII')
    cases = []
    for cp in range(0x110000):
        ch = chr(cp)
        cat = unicodedata.category(ch)
        if not cat.startswith('N'):
            continue
        d = unicodedata.decimal(ch, None)
        for text, want in ((ch, None if d is None else {'number': round_fraction(d, 1)}),
                           ('1' + ch, None if d is None else {'number': round_fraction(10 + d, 1)}),
                           ('a' + ch, {'variable': 'a' + ch} if re.match(r'\w', ch) else None),
                           ('0.' + ch + '5', None if d is None else {'number': round_fraction(10 * d + 5, 100)})):
            cases.append((text, want, cat, d is not None and cp > 127))
    resps = ctx.driver.batch([{'op': 'parse', 'text': c[0]} for c in cases])
    for (text, want, cat, nontrivial), resp in zip(cases, resps):
        res = compare_text(ctx, 'digit-values', st, text, resp, [cat], expected=want, nontrivial=nontrivial)
        if want is not None and model_out(resp) != {'expr': want}:
            ctx.disagree('digit-values', text, {'expected-from-unicodedata': want}, resp, 'model differs from the value unicodedata gives')
    st.exhaustive = True


def streams(ctx):
    stream_chain(ctx)
    stream_chaintext(ctx)
    stream_expr(ctx)
    stream_tokens(ctx)
    stream_digit_values(ctx)
    stream_print_parse(ctx)
    shrink_witnesses(ctx)


def search(ctx):
    try:
        _search(ctx)
    finally:
        shrink_witnesses(ctx)


def _search(ctx):
    """Directed search on the implementation alone: every ordered operator triple (a changed table entry or a changed spine
    walk shows up there), the corpus, deep nesting, and a larger budget of generated / mutated texts through all oracles."""
    for a, b, c in itertools.product(OPS, repeat=3):
        text = f'w {a} x {b} y {c} z'
        rest = [(a, {'variable': 'x'}), (b, {'variable': 'y'}), (c, {'variable': 'z'})]
        want = climb({'variable': 'w'}, rest)
        res = run_impl(text)
        impl = res[1] if res[0] == 'ok' else impl_out(res)
        if impl != want:
            ctx.witness('precedence-climbing', text, want, impl)
            return
    for text in load_corpus() + list(deep_cases()):
        bad = impl_oracles(text)
        if bad:
            _witness(ctx, text, bad)
            return
    rng = ctx.rng('search')
    gen = Gen(rng)
    for i in range(ctx.scale(30000, 300000)):
        if i % 3 == 0:
            toks, want = gen.binary(rng.randint(1, 6))
            text, expected = gen.render(toks), round_numbers(want)
        elif i % 3 == 1:
            text, expected = mutate_case(rng, gen)[1], None
        else:
            text, expected = soup_case(rng), None
        if text.count('\\') > MAX_BACKSLASHES:
            continue
        bad = impl_oracles(text, expected=expected)
        if bad:
            _witness(ctx, text, bad)
            return


def replay(witness):
    text = witness['input']
    oracle = witness.get('oracle')
    res = run_impl(text)
    if oracle in ('precedence-climbing', 'tree-by-construction'):
        want = witness['expected']
        want = want.get('expr', want) if oracle == 'tree-by-construction' else want
        return not (res[0] == 'ok' and res[1] == want)
    return any(name == oracle for name, _, _ in impl_oracles(text, res))


LEVEL_TEXT = ('Theorems, for texts of any length and nesting: the generated BINARY_REORDER table is exactly the 8-level precedence relation; '
              'the chain parser keeps the token sequence, yields a precedence/left-associativity respecting tree, and that tree is unique '
              '(completeness by reconstruction); the text-level parser (mirror of parse_expression) builds every binary chain with exactly '
              'that chain parser over the operands it scanned, so every accepted tree is hereditarily precedence-respecting with unary '
              'operands and groups as leaves; accepted text is a whitespace-separated spelling of exactly the token sequence of the returned '
              'tree (nothing dropped or re-interpreted); the only failure is a parser error with 1 <= column <= length+1; fuel = text length '
              'never runs out. Print/parse round trip at text level: for every tree of the (decidable) printable class, of any size, the '
              'canonical text Print.printExpr parses back to exactly that tree, also with arbitrary blanks before every token and at the end; '
              'the printer is injective on the class; every tree the parser returns on any text is in the class up to one corner (a '
              'bracketed variable name ending in a backslash, which has no context-independent spelling). The table and the regex sources are regenerated from parser.py on every run; the scanners and the parser are '
              'tied to parse_expression by differential correspondence (exhaustive 14^k chains as text, random expressions to depth 8, '
              'malformed token strings; random trees printed by the model printer and parsed by the real parser) and by an independent '
              'precedence-climbing reference parser run against the implementation.')
LEVEL_NOTE = ('Trusted: Lean kernel; extract.py; correspondence harness and its reference parser. Modelled not verified: CPython re (each '
              'token pattern re-implemented by hand, backtracking included; \\s \\d \\w from frozen Unicode tables compared with re for every code '
              'point), float(text). Theorems are about the Lean model of parse_expression.')
