"""C02 - expression text parses to the tree the precedence rules dictate."""

import itertools
from fractions import Fraction

import fw

ID = 'C02'
LEVEL = 'proof'
LEAN_TARGETS = ['BareProofs.C02']
DRIVER = 'drv_c02'
DRIVER_ROOT = 'Drv.C02'
GEN = ['Reorder', 'Regex']
THEOREMS = [
    'C02.reorder_is_prec', 'C02.chain_flat', 'C02.chain_wf', 'C02.rebuild', 'C02.wf_unique',
    'C02.chain_is_the_prec_tree', 'C02.unary_group_are_operands',
]
ASSUMPTIONS = [
    'CPython re engine: the hand-written scanners of the model re-implement each anchored token pattern; tied by Gen/Regex + correspondence',
    'float(text) is the correctly rounded value of the decimal literal',
]

OPS = ['**', '*', '/', '%', '+', '-', '<=', '<', '>=', '>', '==', '!=', '&&', '||']
PREC = {'**': 8, '*': 7, '/': 7, '%': 7, '+': 6, '-': 6, '<=': 5, '<': 5, '>=': 5, '>': 5, '==': 4, '!=': 4, '&&': 3, '||': 2}


def canon_expr(e):
    """Implementation expression model -> protocol form (numbers as exact [num, den])."""
    (k, v), = e.items()
    if k == 'number':
        fr = Fraction(v)
        return {'number': [fr.numerator, fr.denominator]}
    if k in ('string', 'variable'):
        return {k: v}
    if k == 'group':
        return {'group': canon_expr(v)}
    if k == 'unary':
        return {'unary': {'expr': canon_expr(v['expr']), 'op': v['op']}}
    if k == 'binary':
        return {'binary': {'left': canon_expr(v['left']), 'op': v['op'], 'right': canon_expr(v['right'])}}
    if k == 'function':
        return {'function': {'args': [canon_expr(a) for a in v.get('args', [])], 'name': v['name']}}
    raise ValueError(k)


def round_numbers(e):
    """Model expression (exact rationals) -> with each literal rounded to the double `float(text)` yields."""
    (k, v), = e.items()
    if k == 'number':
        fr = Fraction(v[0] / v[1]) if v[1] != 1 else Fraction(float(v[0]))
        return {'number': [fr.numerator, fr.denominator]}
    if k in ('string', 'variable'):
        return e
    if k == 'group':
        return {'group': round_numbers(v)}
    if k == 'unary':
        return {'unary': {'expr': round_numbers(v['expr']), 'op': v['op']}}
    if k == 'binary':
        return {'binary': {'left': round_numbers(v['left']), 'op': v['op'], 'right': round_numbers(v['right'])}}
    return {'function': {'args': [round_numbers(a) for a in v['args']], 'name': v['name']}}


def climb(first, rest):
    """Reference precedence-climbing parser over (operand, [(op, operand)...]) - the property's own oracle."""
    toks = list(rest)
    pos = [0]

    def parse(lhs, min_prec):
        while pos[0] < len(toks) and PREC[toks[pos[0]][0]] >= min_prec:
            op, rhs = toks[pos[0]]
            pos[0] += 1
            while pos[0] < len(toks) and PREC[toks[pos[0]][0]] > PREC[op]:
                rhs = parse(rhs, PREC[toks[pos[0]][0]])
            lhs = {'binary': {'left': lhs, 'op': op, 'right': rhs}}
        return lhs
    return parse(first, 0)


OPERANDS = [('a', {'variable': 'a'}), ('1', {'number': [1, 1]}), ("'s'", {'string': 's'}),
            ('(b + c)', {'group': {'binary': {'left': {'variable': 'b'}, 'op': '+', 'right': {'variable': 'c'}}}}),
            ('-d', {'unary': {'expr': {'variable': 'd'}, 'op': '-'}}), ('!e', {'unary': {'expr': {'variable': 'e'}, 'op': '!'}}),
            ('fn(x, y)', {'function': {'args': [{'variable': 'x'}, {'variable': 'y'}], 'name': 'fn'}})]


def chain_cases(ctx):
    """Exhaustive operator chains of length <= kmax (plain operands), plus random chains with mixed operands."""
    kmax = ctx.scale(3, 4)
    for k in range(1, kmax + 1):
        for ops in itertools.product(OPS, repeat=k):
            names = [chr(ord('a') + i) for i in range(k + 1)]
            yield names[0], {'variable': names[0]}, [(op, names[i + 1], {'variable': names[i + 1]}) for i, op in enumerate(ops)]
    rng = ctx.rng('chains')
    for _ in range(ctx.scale(2000, 40000)):
        k = rng.randint(1, 9)
        f = rng.choice(OPERANDS)
        yield f[0], f[1], [(rng.choice(OPS),) + rng.choice(OPERANDS) for _ in range(k)]


def streams(ctx):
    parser = fw.impl()['parser']
    st = ctx.stream('chain', 'operator chains: all 14^k for k<=3 (quick) / k<=4 (thorough) over variables + random chains '
                             '(length<=9) over literal/group/unary/call operands; non-trivial = at least 2 operators')
    cases = list(chain_cases(ctx))
    reqs = [{'op': 'chain', 'first': f, 'rest': [[op, e] for op, _, e in rest]} for _, f, rest in cases]
    resps = ctx.driver.batch(reqs)
    for (ftxt, f, rest), resp in zip(cases, resps):
        text = ftxt + ''.join(f' {op} {t}' for op, t, _ in rest)
        st.case(text, nontrivial=len(rest) >= 2, tags=[f'len{len(rest)}'])
        try:
            impl = canon_expr(parser.parse_expression(text))
        except Exception as exc:  # pylint: disable=broad-except
            impl = {'error': type(exc).__name__}
        model = resp.get('expr', resp)
        ctx.compare('chain', text, impl, model)
        # the property's own oracle on the implementation
        want = climb(f, [(op, e) for op, _, e in rest])
        if impl != want:
            ctx.witness('precedence-climbing', text, want, impl)
    st.exhaustive = False


def search(ctx):
    """Directed search: chains containing each ordered operator pair (a changed table entry shows up there)."""
    parser = fw.impl()['parser']
    for a, b, c in itertools.product(OPS, repeat=3):
        text = f'w {a} x {b} y {c} z'
        rest = [(a, {'variable': 'x'}), (b, {'variable': 'y'}), (c, {'variable': 'z'})]
        want = climb({'variable': 'w'}, rest)
        try:
            impl = canon_expr(parser.parse_expression(text))
        except Exception as exc:  # pylint: disable=broad-except
            impl = {'error': type(exc).__name__}
        if impl != want:
            ctx.witness('precedence-climbing', text, want, impl)
            return


def replay(witness):
    parser = fw.impl()['parser']
    try:
        impl = canon_expr(parser.parse_expression(witness['input']))
    except Exception as exc:  # pylint: disable=broad-except
        impl = {'error': type(exc).__name__}
    return impl != witness['expected']

LEVEL_TEXT = ('Theorems for chains of any length over any operands: the generated BINARY_REORDER table is exactly the 8-level precedence '
              'relation; the chain parser keeps the token sequence, yields a precedence/left-associativity respecting tree, and that tree is '
              'unique (completeness by reconstruction). The table is regenerated from parser.py on every run; the chain algorithm and the '
              'token scanners are tied to parse_expression by differential correspondence and a precedence-climbing oracle.')
LEVEL_NOTE = ('Trusted: Lean kernel; extract.py; correspondence harness. Modelled not verified: CPython re (scanners re-implemented by hand), '
              'float(text). Theorems are about the Lean model of _parse_binary_expression; the scanner layer is correspondence-strength.')
