"""C16 - datetime construction, arithmetic and ISO text are correct in any time zone."""

import concurrent.futures
import datetime
import enum
import json
import os
import re
import subprocess
import sys

import fw

ID = 'C16'
LEVEL = 'proof'
LEAN_TARGETS = ['BareProofs.C16', 'BareProofs.C16Round']
DRIVER = 'drv_c16'
DRIVER_ROOT = 'Drv.C16'
GEN = ['Args', 'Regex']
THEOREMS = [
    'C16.args_table', 'C16.regex_table',
    'C16.ord2ymd_sound', 'C16.ord2ymd_ymd2ord', 'C16.ymd2ord_inj', 'C16.year_range_iff',
    'C16.dayUp_spec', 'C16.dayDown_spec', 'C16.dayAdjust_spec',
    'C16.datetimeNewCore_is_ordinal_arithmetic', 'C16.datetimeNew_is_ordinal_arithmetic',
    'C16.getters_roundtrip', 'C16.add_sub_ms', 'C16.add_none_iff', 'C16.add_add',
    'C16.iso_roundtrip_partial', 'C16.iso_roundtrip_format_partial', 'C16.iso_offset_seconds_lost', 'C16.iso_reject', 'C16.iso_reject_fields',
    'C16.round_ms_exact_partial',
]
ASSUMPTIONS = [
    'float arithmetic of _datetime_new (//, -, *, +, comparisons, int()) is exact on integral floats below 2^53 (model works on unbounded integers; '
    'the correspondence sends every case as floats, as ints and through evaluate_expression)',
    'calendar.monthrange, datetime.datetime(...) field checks and datetime +/- timedelta are CPython library behaviour: modelled (mirror) and '
    'sampled, cross-checked against date.toordinal / timedelta arithmetic as an independent oracle',
    'zone: astimezone() is abstracted as offL (offset chosen for a naive local time) and offU (offset in force at a UTC instant); '
    'iso_roundtrip_partial assumes offU(t - offL t) = offL t (the local time exists), a whole-minute offset below 24 h and a UTC instant inside years 1..9999',
    'the float path of datetime - datetime (timedelta.total_seconds() * 1000, value_round_number) is covered by round_ms_exact_partial under the '
    'standard relative-error model of IEEE-754 double arithmetic (|delta| <= 2^-53 per operation)',
    'CPython re: the two anchored ISO patterns are re-implemented by hand-written scanners over ASCII; tied by Gen/Regex + correspondence',
]
TRUSTED = ['harness/props/c16_tzworker.py (Python side per TZ in a subprocess); zoneinfo + libc as reference for UTC offsets and existence of local times; '
           'datetime.timezone(fixed offset) as reference zone for POSIX fixed-offset TZ strings; C localtime() (time.localtime) of the POSIX timestamp as reference for the '
           'normalised local value of host-supplied aware datetimes (dt-forms)']

ZONES = ['UTC', 'America/New_York', 'Europe/London', 'Asia/Kolkata', 'Asia/Kathmandu', 'Australia/Lord_Howe', 'Pacific/Chatham', 'Etc/GMT+12']
# "whatever that zone is": further host configurations, each run at a reduced budget.
#  * always: the zones whose offset is negative AND has a minute part (the sign and the minute part of the offset text interact), and a
#    negative offset of less than one hour given as a POSIX fixed-offset TZ string (no tz database entry has a whole-minute one today)
#  * a per-seed rotating choice from a pool of zones picked by class (southern-hemisphere DST, DST at midnight, negative DST, +14:00,
#    :45 offsets, a skipped calendar day, 2 h DST, historic half-hour changes, ...), random POSIX fixed offsets -23:59..+23:59, and random
#    names out of everything zoneinfo lists on this machine
ZONES_ALWAYS = ['America/St_Johns', 'Pacific/Marquesas', '<-0030>0:30']
ZONE_POOL = ['Australia/Sydney', 'America/Santiago', 'Europe/Dublin', 'Pacific/Kiritimati', 'Pacific/Pago_Pago', 'Africa/Casablanca', 'Asia/Tehran',
             'Australia/Eucla', 'Pacific/Apia', 'Antarctica/Troll', 'America/Caracas', 'Africa/Monrovia', 'Europe/Berlin', 'America/Havana',
             'Asia/Pyongyang', 'America/Sao_Paulo', 'Pacific/Norfolk', 'Asia/Kabul', 'Asia/Yangon', 'America/Los_Angeles', 'Africa/Cairo',
             'Europe/Lisbon', 'America/Nuuk', 'Asia/Gaza', 'America/Asuncion', 'Australia/Adelaide', 'Asia/Colombo', 'Pacific/Tongatapu']
ZONEINFO_DIR = '/usr/share/zoneinfo'
WORKER = os.path.join(os.path.dirname(os.path.abspath(__file__)), 'c16_tzworker.py')
CORPUS = os.path.join(fw.VERIF, 'harness', 'corpus', 'C16.jsonl')
PYTHON = '/venv/bin/python' if os.path.exists('/venv/bin/python') else sys.executable

MS_DAY = 86400000
EPOCH1 = datetime.datetime(1, 1, 1)


# ---------------------------------------------------------------------------------------------------------------------
# independent oracles (written from the property statement, no Lean, no implementation code)
# ---------------------------------------------------------------------------------------------------------------------

def parts(d):
    if d is None:
        return None
    if not isinstance(d, datetime.datetime) or d.tzinfo is not None:
        return {'error': 'not-a-naive-datetime:' + type(d).__name__}
    if d.microsecond % 1000:
        return {'error': 'sub-millisecond:%d' % d.microsecond}
    return [d.year, d.month, d.day, d.hour, d.minute, d.second, d.microsecond // 1000]


def oracle_new(args, validate=True):
    """Proleptic Gregorian calendar arithmetic via CPython's date.toordinal and timedelta: the instant
    (first day of the normalised month) + (day - 1) days + the total milliseconds; None outside years 1..9999."""
    y, mo, d, h, mi, s, ms = args
    if validate and not (y >= 100 and -10000 <= d <= 10000):
        return None
    total = ((h * 60 + mi) * 60 + s) * 1000 + ms
    yy = y + (mo - 1) // 12
    mm = (mo - 1) % 12 + 1
    k = (yy - 2000) // 400                      # shift the year into 2000..2399 by whole 400-year cycles (146097 days each)
    ordinal = datetime.date(yy - 400 * k, mm, 1).toordinal() + 146097 * k + (d - 1)
    try:
        return parts(EPOCH1 + datetime.timedelta(milliseconds=(ordinal - 1) * MS_DAY + total))
    except OverflowError:
        return None


def local_ms(p):
    y, mo, d, h, mi, s, ms = p
    return (datetime.date(y, mo, d).toordinal() - 1) * MS_DAY + ((h * 60 + mi) * 60 + s) * 1000 + ms


def oracle_add(p, n):
    try:
        return parts(EPOCH1 + datetime.timedelta(milliseconds=local_ms(p) + n))
    except OverflowError:
        return None


STRICT_DATE = re.compile(r'([0-9]{4})-([0-9]{2})-([0-9]{2})', re.ASCII)
STRICT_DT = re.compile(r'([0-9]{4})-([0-9]{2})-([0-9]{2})T([0-9]{2}):([0-9]{2}):([0-9]{2})(?:\.([0-9]{1,6}))?(Z|[+-][0-9]{2}:[0-9]{2})', re.ASCII)


def strict_iso(text):
    """Is the text a valid ISO date / datetime (of the two shapes BareScript documents)? -> None | ('date', parts) | ('dt', None)"""
    m = STRICT_DATE.fullmatch(text)
    if m:
        try:
            d = datetime.date(int(m.group(1)), int(m.group(2)), int(m.group(3)))
        except ValueError:
            return None
        return ('date', [d.year, d.month, d.day, 0, 0, 0, 0])
    m = STRICT_DT.fullmatch(text)
    if m:
        y, mo, d, h, mi, s = (int(m.group(i)) for i in range(1, 7))
        try:
            datetime.datetime(y, mo, d, h, mi, s)
        except ValueError:
            return None
        zone = m.group(8)
        if zone != 'Z' and (int(zone[1:3]) > 23 or int(zone[4:6]) > 59):
            return None
        return ('dt', None)
    return None


# ---------------------------------------------------------------------------------------------------------------------
# implementation access (in-process part)
# ---------------------------------------------------------------------------------------------------------------------

def call_lib(name, args):
    """A library call as the runtime's call wrapper sees it: any exception -> null (class kept for the histogram)."""
    impl = fw.impl()
    try:
        return impl['library'].SCRIPT_FUNCTIONS[name](args, None), None
    except impl['value'].ValueArgsError as exc:
        return exc.return_value, 'ValueArgsError'
    except Exception as exc:  # pylint: disable=broad-except
        return None, type(exc).__name__


def call_expr(name, args):
    impl = fw.impl()
    expr = {'function': {'name': name, 'args': [{'number': a} for a in args]}}
    try:
        return impl['runtime'].evaluate_expression(expr, {'globals': dict(impl['library'].SCRIPT_FUNCTIONS)}, None), None
    except Exception as exc:  # pylint: disable=broad-except
        return {'error': type(exc).__name__}, type(exc).__name__


GETTERS = ['datetimeYear', 'datetimeMonth', 'datetimeDay', 'datetimeHour', 'datetimeMinute', 'datetimeSecond', 'datetimeMillisecond']


class HostInt(int):
    """Host-boundary numbers: what an embedding application may pass where BareScript expects a number."""


class HostFloat(float):
    pass


def host_number(n, kind):
    if kind == 'int':
        return int(n)
    if kind == 'intsub':
        return HostInt(n)
    if kind == 'floatsub':
        return HostFloat(n)
    if kind == 'intenum':
        return enum.IntEnum('HostEnum', {'N': int(n)}).N        # pylint: disable=no-member
    return float(n)


NUMBER_KINDS = ['float', 'int', 'intsub', 'floatsub', 'intenum']
_NEW_SCRIPT = {}


def impl_new_host(args, idx):
    """datetimeNew on host-boundary numbers (int / float subclasses, IntEnum members, mixed with plain ones) -> parts"""
    vals = [host_number(a, NUMBER_KINDS[(idx + i) % len(NUMBER_KINDS)]) for i, a in enumerate(args)]
    return parts(call_lib('datetimeNew', vals)[0])


def impl_new_script(args):
    """datetimeNew + the getters inside execute_script (arguments are host globals) -> (parts, getters)"""
    impl = fw.impl()
    if 'script' not in _NEW_SCRIPT:
        _NEW_SCRIPT['script'] = impl['parser'].parse_script(
            'x = datetimeNew(a0, a1, a2, a3, a4, a5, a6)\nreturn arrayNew(x, ' + ', '.join(g + '(x)' for g in GETTERS) + ')\n')
    glob = {'a%d' % i: float(a) for i, a in enumerate(args)}
    try:
        res = impl['runtime'].execute_script(_NEW_SCRIPT['script'], {'globals': glob, 'maxStatements': 1000})
    except Exception as exc:  # pylint: disable=broad-except
        return {'error': type(exc).__name__}, None
    if not isinstance(res, list) or len(res) != 8:
        return {'error': 'script result ' + type(res).__name__}, None
    return parts(res[0]), [num_out(v) for v in res[1:]]


def impl_new(args):
    """datetimeNew in three spellings + the seven getters -> canonical dict"""
    d_f, err = call_lib('datetimeNew', [float(a) for a in args])
    d_i, _ = call_lib('datetimeNew', [int(a) for a in args])
    d_e, _ = call_expr('datetimeNew', [float(a) for a in args])
    out = {'float': parts(d_f), 'int': parts(d_i), 'expr': parts(d_e) if not isinstance(d_e, dict) else d_e, 'err': err}
    if isinstance(d_f, datetime.datetime):
        got = []
        for g in GETTERS:
            v, gerr = call_lib(g, [d_f])
            got.append(v if gerr is None and isinstance(v, (int, float)) and not isinstance(v, bool) and v == int(v) else {'error': str(gerr or v)})
        out['getters'] = [int(v) if not isinstance(v, dict) else v for v in got]
    return out


# ---------------------------------------------------------------------------------------------------------------------
# generators
# ---------------------------------------------------------------------------------------------------------------------

def corpus(stream):
    if not os.path.exists(CORPUS):
        return []
    out = []
    with open(CORPUS, encoding='utf-8') as fh:
        for line in fh:
            line = line.strip()
            if line and not line.startswith('#'):
                rec = json.loads(line)
                if rec.get('stream') == stream:
                    out.append(rec)
    return out


def rand_args(rng):
    """One 7-tuple in the quantifier's ranges, biased towards boundaries."""
    def pick(lo, hi, edges):
        r = rng.random()
        if r < 0.25:
            return rng.choice(edges)
        if r < 0.5 and lo <= 0:
            return rng.randint(max(lo, -70), min(hi, 70))
        return rng.randint(lo, hi)
    y = pick(100, 9000, [100, 101, 399, 400, 401, 1582, 1600, 1899, 1900, 1901, 1970, 1999, 2000, 2001, 2023, 2024, 2038, 2100, 2400, 8999, 9000])
    mo = pick(-30, 40, [-30, -24, -13, -12, -11, -1, 0, 1, 2, 3, 11, 12, 13, 14, 24, 25, 36, 37, 40])
    d = pick(-10000, 10000, [-10000, -9999, -366, -365, -31, -30, -1, 0, 1, 28, 29, 30, 31, 32, 59, 60, 61, 365, 366, 367, 9999, 10000])
    t = [pick(-5000, 5000, [-5000, -4999, -1441, -1440, -61, -60, -25, -24, -1, 0, 1, 23, 24, 25, 59, 60, 61, 999, 1000, 1001, 1440, 3600, 4999, 5000])
         for _ in range(4)]
    if rng.random() < 0.3:
        t = [x if rng.random() < 0.5 else 0 for x in t]
    return [y, mo, d] + t


def edge_args(rng):
    """Outside the quantifier on purpose: the year range failure, the argument model bounds."""
    kind = rng.randrange(6)
    a = rand_args(rng)
    if kind == 0:
        a[0] = rng.choice([9970, 9990, 9998, 9999, 10000, 12000])
    elif kind == 1:
        a[0] = rng.choice([99, 1, 0, -5])
    elif kind == 2:
        a[2] = rng.choice([-10001, 10001, 20000])
    elif kind == 3:
        a[0], a[1] = rng.choice([9999, 9998]), rng.choice([12, 13, 24])
    elif kind == 4:
        a[0], a[1], a[2] = 100, rng.choice([-30, -1200, 1]), rng.choice([-10000, 0, 1])
    else:
        a[0], a[1] = rng.choice([100, 9000]), rng.choice([-120000, 120000, -1188, 106800])
    return a


def boundary_grid():
    """A small exhaustive grid around the year/month/day edges (every month length, leap and non-leap, both loops)."""
    for y in (100, 1900, 2000, 2023, 2024, 9000):
        for mo in (-11, 0, 1, 2, 3, 12, 13):
            for d in (-366, -31, -1, 0, 1, 28, 29, 30, 31, 32, 60, 366):
                for h in (-25, 0, 24):
                    yield [y, mo, d, h, 0, 0, 0]
    for y in (2023, 2024):
        for mo in range(1, 13):
            for d in (0, 29, 30, 31, 32):
                yield [y, mo, d, 0, 0, 0, 0]
    for ms in (-1001, -1000, -1, 0, 999, 1000, 1001):
        for s in (-61, -1, 0, 59, 60):
            for mi in (-60, -1, 0, 59, 60):
                yield [2024, 2, 29, 23, mi, s, ms]


def is_normal(a):
    y, mo, d, h, mi, s, ms = a
    return 1 <= mo <= 12 and 1 <= d <= 28 and 0 <= h < 24 and 0 <= mi < 60 and 0 <= s < 60 and 0 <= ms < 1000


def new_tags(a, res):
    y, mo, d, h, mi, s, ms = a
    tags = []
    if res is None:
        tags.append('null')
    if not 1 <= mo <= 12:
        tags.append('month-norm')
    total = ((h * 60 + mi) * 60 + s) * 1000 + ms
    dd = d + total // MS_DAY
    tags.append('day-up' if dd < 1 else 'day-down' if dd > 28 else 'day-plain')
    if not (0 <= h < 24 and 0 <= mi < 60 and 0 <= s < 60 and 0 <= ms < 1000):
        tags.append('carry')
    if not 100 <= y <= 9000:
        tags.append('outside-quantifier')
    return tags


# ---------------------------------------------------------------------------------------------------------------------
# streams
# ---------------------------------------------------------------------------------------------------------------------

def stream_new(ctx, n_random, n_edge, seed_name='dt-new'):
    st = ctx.stream('dt-new', 'datetimeNew on 7 integer components (years 100-9000, months -30..40, days +-10000, time parts +-5000; plus tagged '
                              'out-of-quantifier edge cases: year range failure, argument-model bounds), each as floats, ints and through '
                              'evaluate_expression, plus the 7 getters; every 4th (thorough: 8th) case also with host-boundary numbers (int/float subclasses, IntEnum '
                              'members - the model sees the same integers) and as many inside execute_script with the components as host '
                              'globals; non-trivial = some component needs normalising')
    rng = ctx.rng(seed_name)
    cases = [rec['args'] for rec in corpus('dt-new')]
    cases += list(boundary_grid())
    cases += [rand_args(rng) for _ in range(n_random)]
    cases += [edge_args(rng) for _ in range(n_edge)]
    resps = ctx.driver.batch([{'op': 'new', 'args': a} for a in cases])
    step = ctx.scale(4, 8)
    for idx, (a, resp) in enumerate(zip(cases, resps)):
        got = impl_new(a)
        want = oracle_new(a)
        st.case(a, nontrivial=not is_normal(a), tags=new_tags(a, want))
        # host boundary (every 4th case each; every 8th in the thorough tier): components given as int/float subclasses and IntEnum members; the same call inside
        # execute_script with the components as host globals. Same oracle; the model sees the same integers.
        if idx % step == 0:
            got_h = impl_new_host(a, idx // 4)
            if got_h != want:
                ctx.witness('ordinal-arithmetic', {'args': a, 'spelling': 'hostnum', 'idx': idx // 4}, want, got_h)
        elif idx % step == 2:
            got_s, getters_s = impl_new_script(a)
            if got_s != want:
                ctx.witness('ordinal-arithmetic', {'args': a, 'spelling': 'script'}, want, got_s)
            elif want is not None and getters_s != want:
                ctx.witness('getters', {'args': a, 'spelling': 'script'}, want, getters_s)
        model = resp.get('dt', resp)
        ctx.compare('dt-new', a, got['float'], model)
        if resp.get('spec', 'missing') != model:
            ctx.disagree('dt-new', a, {'model-mirror': model}, {'model-spec': resp.get('spec')}, note='mirror and spec layer of the model differ')
        # property oracles on the real code
        for spelling in ('float', 'int', 'expr'):
            if got[spelling] != want:
                ctx.witness('ordinal-arithmetic', {'args': a, 'spelling': spelling}, want, got[spelling])
                break
        if got['float'] is not None and not isinstance(got['float'], dict) and got.get('getters') != got['float']:
            ctx.witness('getters', {'args': a}, got['float'], got.get('getters'))


def arith_cases(rng, n):
    edges = [0, 1, -1, 999, 1000, 86399999, 86400000, -86400000, 10 ** 12, -10 ** 12, 10 ** 12 - 1, 1 - 10 ** 12, 31536000000, 2 ** 31, -2 ** 31, 2 ** 32 + 1]
    out = []
    for _ in range(n):
        a = rand_args(rng)
        r = rng.random()
        if r < 0.25:
            k = rng.choice(edges)
        elif r < 0.5:
            k = rng.randint(-10 ** 6, 10 ** 6)
        elif r < 0.75:
            k = rng.randint(-10 ** 12, 10 ** 12)
        else:
            k = rng.randint(-10 ** 9, 10 ** 9) * 1000 + rng.choice([0, 1, 500, 999])
            k = max(-10 ** 12, min(10 ** 12, k))
        # a third of the datetimes carry extra microseconds (what datetimeNow() or a host global holds): whole-millisecond n must still come back
        us = rng.choice([1, 499, 500, 501, 999, rng.randint(1, 999)]) if rng.random() < 0.33 else 0
        out.append((a, k, rng.random() < 0.4, us))
    # a few that overflow the year range (the sum is null)
    for y, k in ((9000, 10 ** 12), (9000, 4 * 10 ** 13), (100, -10 ** 12), (100, -4 * 10 ** 12), (9999, 10 ** 11)):
        out.append(([y, 6, 15, 0, 0, 0, 0], k, False, 0))
    return out


TRANSITION_STEPS = [1800000, 3600000, 7200000, 86400000, 7 * 86400000, 3600000 - 1, 3600000 + 1, 43200000, 182 * 86400000]


def zone_arith_cases(rng, zone, n):
    """Arithmetic that starts next to one of the zone's own offset transitions and steps over it (d + n is wall-clock arithmetic, so
    (d + n) - d must be n whether or not the UTC offset changes in between)."""
    out = []
    for _ in range(n):
        a = zone_args(rng, zone)
        k = rng.choice(TRANSITION_STEPS) * rng.choice([1, -1]) if rng.random() < 0.8 else rng.randint(-10 ** 8, 10 ** 8)
        us = rng.choice([1, 499, 500, 501, 999, rng.randint(1, 999)]) if rng.random() < 0.33 else 0
        out.append((a, k, rng.random() < 0.4, us))
    return out


def case4(case):
    return tuple(case) + (0,) * (4 - len(case))


def parts_floor(d):
    """parts cut to the millisecond: for results that legitimately carry microseconds (arithmetic on a sub-millisecond host datetime)"""
    if isinstance(d, datetime.datetime) and d.tzinfo is None:
        return [d.year, d.month, d.day, d.hour, d.minute, d.second, d.microsecond // 1000]
    return parts(d)


EXPR_LR = {'binary': {'op': '-', 'left': {'group': {'binary': {'op': '+', 'left': {'variable': 'd'}, 'right': {'variable': 'n'}}}},
                      'right': {'variable': 'd'}}}
EXPR_RL = {'binary': {'op': '-', 'left': {'group': {'binary': {'op': '+', 'left': {'variable': 'n'}, 'right': {'variable': 'd'}}}},
                      'right': {'variable': 'd'}}}
EXPR_SUM = {'binary': {'op': '+', 'left': {'variable': 'd'}, 'right': {'variable': 'n'}}}


def num_out(x):
    if x is None:
        return None
    if isinstance(x, bool) or not isinstance(x, (int, float)):
        return {'error': 'not-a-number:' + type(x).__name__}
    if x != x or x in (float('inf'), float('-inf')):
        return {'error': 'non-finite'}
    return int(x) if x == int(x) else {'inexact': repr(x)}


def impl_arith(args, n, as_int, us=0):
    impl = fw.impl()
    d, _ = call_lib('datetimeNew', [float(a) for a in args])
    if d is None:
        return {'d': None}
    nv = int(n) if as_int else float(n)
    out = {'d': parts(d)}
    if us:
        d = d.replace(microsecond=d.microsecond + us)       # a host-supplied datetime with sub-millisecond precision
    for key, expr in (('lr', EXPR_LR), ('rl', EXPR_RL)):
        try:
            out[key] = num_out(impl['runtime'].evaluate_expression(expr, None, {'d': d, 'n': nv}))
        except Exception as exc:  # pylint: disable=broad-except
            out[key] = {'error': type(exc).__name__}
    try:
        out['sum'] = parts_floor(impl['runtime'].evaluate_expression(EXPR_SUM, None, {'d': d, 'n': nv}))
    except Exception as exc:  # pylint: disable=broad-except
        out['sum'] = {'error': type(exc).__name__}
    return out


def check_arith(ctx, st, case, got, resp, zone=None):
    """Compare one arithmetic case (implementation output `got`) with the model and with the property."""
    a, n, as_int, us = case4(case)
    key = {'args': a, 'n': n, 'int': as_int}
    if us:
        key['us'] = us
    if zone:
        key['zone'] = zone
    d = oracle_new(a)
    want_sum = oracle_add(d, n) if d is not None else None
    st.case(key, nontrivial=n != 0 and d is not None, tags=['sum-null' if want_sum is None else 'ok', 'n-int' if as_int else 'n-float',
                                                            'big' if abs(n) >= 10 ** 9 else 'small'] + ([zone] if zone else [])
            + (['sub-ms>=500' if us >= 500 else 'sub-ms<500'] if us else []))
    if d is None:
        return
    model = {'d': d, 'sum': resp.get('dt'), 'lr': resp.get('diff'), 'rl': resp.get('diff')}
    ctx.compare('dt-arith', key, {k: got.get(k) for k in ('d', 'sum', 'lr', 'rl')}, model)
    want = n if want_sum is not None else None
    if got.get('sum') != want_sum:
        ctx.witness('add-ms', key, want_sum, got.get('sum'))
    elif got.get('lr') != want or got.get('rl') != want:
        ctx.witness('add-sub', key, want, {'(d+n)-d': got.get('lr'), '(n+d)-d': got.get('rl')})


ARITH_RULE = ('(d + n) - d and (n + d) - d through evaluate_expression for integral n up to +-1e12 (float and int spellings), d from '
              'datetimeNew on the quantifier ranges, a third of them with 1..999 extra microseconds (sub-millisecond host datetimes; the model '
              'sees the value cut to the millisecond); in-process and again inside every TZ worker, there also starting next to the zone\'s own '
              'offset transitions with steps that cross them; non-trivial = n != 0')


def stream_arith(ctx, n_cases, seed_name='dt-arith'):
    st = ctx.stream('dt-arith', ARITH_RULE)
    rng = ctx.rng(seed_name)
    cases = [(rec['args'], rec['n'], rec.get('int', False), rec.get('us', 0)) for rec in corpus('dt-arith')] + arith_cases(rng, n_cases)
    reqs = []
    for a, n, _, _ in cases:
        d = oracle_new(a)
        reqs.append({'op': 'add', 'dt': d if d is not None else [1, 1, 1, 0, 0, 0, 0], 'n': n})
    resps = ctx.driver.batch(reqs)
    for case, resp in zip(cases, resps):
        check_arith(ctx, st, case, impl_arith(*case), resp)


# --- ISO text ---------------------------------------------------------------------------------------------------------

def run_worker(zone, reqs, timeout=1500):
    env = dict(os.environ)
    env['TZ'] = zone
    proc = subprocess.run([PYTHON, WORKER, fw.REPO_SRC], input='\n'.join(json.dumps(r, ensure_ascii=True) for r in reqs) + '\n',
                          stdout=subprocess.PIPE, stderr=subprocess.PIPE, text=True, env=env, timeout=timeout, check=False)
    lines = proc.stdout.splitlines()
    if proc.returncode != 0 or len(lines) != len(reqs):
        raise fw.Infra(f'c16_tzworker TZ={zone} rc={proc.returncode} answered {len(lines)}/{len(reqs)}: {proc.stderr[-400:]}')
    return [json.loads(ln) for ln in lines]


_TRANSITION_DAYS = {}


def transition_days(zone):
    """Local dates on which the zone's UTC offset changes (found by scanning zoneinfo day by day over sample years)."""
    if zone.startswith('<'):
        return []                   # POSIX fixed offset
    if zone not in _TRANSITION_DAYS:
        import zoneinfo  # pylint: disable=import-outside-toplevel
        z = zoneinfo.ZoneInfo(zone)
        days = []
        years = list(range(1915, 1921)) + [1941, 1945, 1947, 1968, 1971, 1974, 1981, 1985, 1986, 2006, 2007, 2011, 2024, 2025, 2037, 2038, 2500, 8999]
        for y in years:
            day = datetime.datetime(y, 1, 1, 12, tzinfo=datetime.timezone.utc)
            prev = day.astimezone(z).utcoffset()
            for _ in range(366):
                day += datetime.timedelta(days=1)
                cur = day.astimezone(z).utcoffset()
                if cur != prev:
                    loc = day.astimezone(z)
                    days.append((loc.year, loc.month, loc.day))
                    prev = cur
        _TRANSITION_DAYS[zone] = days
    return _TRANSITION_DAYS[zone]


def zone_args(rng, zone):
    """datetimeNew arguments, biased towards the zone's own offset transitions (DST gaps and folds, historic changes)."""
    a = rand_args(rng)
    r = rng.random()
    days = transition_days(zone)
    if r < 0.4 and days:
        y, mo, d = rng.choice(days)
        d += rng.choice([0, 0, 0, -1])
        a = [y, mo, d, rng.choice([0, 1, 1, 2, 2, 3, 3, 4, 23]), rng.choice([0, 1, 14, 15, 29, 30, 31, 44, 45, 59, rng.randint(0, 59)]),
             rng.choice([0, 59, rng.randint(0, 59)]), rng.choice([0, 1, 500, 999])]
        if rng.random() < 0.3:      # the same instant spelled with out-of-range components
            a[3] += 24
            a[2] -= 1
    elif r < 0.5:
        a[0] = rng.choice([100, 150, 1800, 1847, 1868, 1883, 1895, 1905, 1906, 1919, 1920, 1941, 1945, 1985, 1986])
    return a


def iso_text_cases(rng, n):
    """Valid ISO texts of the two shapes + systematic malformations of them."""
    out = []
    for _ in range(n):
        y = rng.choice([rng.randint(100, 9000), rng.randint(1900, 2100), rng.choice([1, 99, 100, 9000, 9999])])
        mo = rng.randint(1, 12)
        d = rng.randint(1, 28) if rng.random() < 0.7 else rng.choice([29, 30, 31])
        date = f'{y:04d}-{mo:02d}-{d:02d}'
        if rng.random() < 0.25:
            out.append(date)
            continue
        frac = ''
        if rng.random() < 0.6:
            frac = '.' + ''.join(rng.choice('0123456789') for _ in range(rng.randint(1, 6)))
        zone = rng.choice(['Z', 'Z', '+00:00', '-00:00', '+05:30', '+05:45', '-05:00', '-04:00', '+10:30', '+11:00', '+12:45', '+13:45', '-12:00', '+14:00',
                           '-23:59', '+23:59', f'{rng.choice("+-")}{rng.randint(0, 23):02d}:{rng.randint(0, 59):02d}'])
        out.append(f'{date}T{rng.randint(0, 23):02d}:{rng.randint(0, 59):02d}:{rng.randint(0, 59):02d}{frac}{zone}')
    return out


MALFORMED_FIXED = [
    '', ' ', 'null', 'today', '2024', '2024-01', '2024-1-1', '24-01-01', '20240101', '2024/01/01', '2024-01-01 ', ' 2024-01-01', '2024-01-01\n', '\n2024-01-01',
    '2024-02-30', '2023-02-29', '1900-02-29', '2024-04-31', '2024-00-10', '2024-13-01', '2024-01-00', '2024-01-32', '0000-01-01', '0000-01-01T00:00:00Z',
    '2024-13-01T00:00:00Z', '2024-02-30T00:00:00Z', '2024-01-01T24:00:00Z', '2024-01-01T23:60:00Z', '2024-01-01T23:59:60Z', '2024-01-01T00:00:00+24:00',
    '2024-01-01T00:00:00-24:00', '2024-01-01T00:00:00+00:60', '2024-01-01T00:00:00+00:99', '2024-01-01T00:00:00+23:60', '2024-01-01T00:00:00+99:99',
    '2024-01-01T00:00:00', '2024-01-01T00:00', '2024-01-01T00:00Z', '2024-01-01T00:00:00.Z', '2024-01-01T00:00:00.1234567Z', '2024-01-01T00:00:00,5Z',
    '2024-01-01 00:00:00Z', '2024-01-01t00:00:00Z', '2024-01-01T00:00:00z', '2024-01-01T00:00:00 Z', '2024-01-01T00:00:00Z ', '2024-01-01T00:00:00Z\n',
    '2024-01-01T00:00:00+05:30\n', '2024-01-01T00:00:00+0530', '2024-01-01T00:00:00+05', '2024-01-01T00:00:00+5:30', '2024-01-01T00:00:00+05:3',
    '2024-01-01T00:00:00UTC', '2024-01-01T00:00:00ZZ', '2024-01-01T00:00:00Zx', 'x2024-01-01T00:00:00Z', '2024-01-01T00-00-00Z', '2024:01:01T00:00:00Z',
    '2024-01-01T0:00:00Z', '2024-01-01T000:00:00Z', '+2024-01-01', '-2024-01-01', '02024-01-01', '2024-01-01T00:00:00.5', '2024-01-01T00:00:00.+05:00',
    '٢٠٢٤-01-01', '２０２４-01-01', '2024-01-0١', '٢٠٢٤-01-01T00:00:00Z', '2024-01-01T00:00:0٠Z',
    '2024-01-01T00:00:00+0٥:30', '2024–01–01', '2024-01-01T00:00:00−05:00', '2024-W01-1', '2024-001', '--01-01', '2024-01-01T',
    '0001-01-01T00:00:00+00:01', '9999-12-31T23:59:59-00:01', '9999-12-31T23:59:59.999999-23:59', '0001-01-01T00:00:00+23:59',
]


def mutate(rng, text):
    r = rng.randrange(7)
    if not text:
        return 'x'
    i = rng.randrange(len(text))
    if r == 0:
        return text[:i] + text[i + 1:]
    if r == 1:
        return text[:i] + rng.choice('0123456789-:TZ+. x/tz\n') + text[i:]
    if r == 2:
        return text[:i] + rng.choice('0123456789-:TZ+. x9') + text[i + 1:]
    if r == 3:
        return text + rng.choice(['Z', ' ', '\n', '0', 'x', '+00:00', ':00'])
    if r == 4:
        return rng.choice([' ', '0', 'x', '\n', '-']) + text
    if r == 5:
        return text[:i] + text[i:].replace(rng.choice('-:T'), rng.choice(' /.:-'), 1)
    return text[:i] + text[i].swapcase() + text[i + 1:]


def fixed_zone(minutes):
    """POSIX TZ string of a fixed whole-minute offset, e.g. -210 -> '<-0330>3:30' (POSIX counts west of Greenwich positive)."""
    sign, a = ('-' if minutes < 0 else '+'), abs(minutes)
    return '<%s%02d%02d>%s%d:%02d' % (sign, a // 60, a % 60, '' if minutes < 0 else '-', a // 60, a % 60)


def zone_available(zone):
    return zone.startswith('<') or os.path.exists(os.path.join(ZONEINFO_DIR, zone))


def extra_zones(ctx, name='zones'):
    """The reduced-budget zones of this run (see ZONES_ALWAYS / ZONE_POOL)."""
    rng = ctx.rng(name)
    n_pool, n_fixed, n_any = ctx.scale(2, len(ZONE_POOL)), ctx.scale(2, 8), ctx.scale(1, 12)
    out = list(ZONES_ALWAYS) + rng.sample(ZONE_POOL, n_pool)
    # one negative offset with a minute part, the rest anywhere in -23:59..+23:59 (biased to the inhabited range)
    out.append(fixed_zone(-(rng.randint(0, 13) * 60 + rng.choice([1, 15, 30, 45, 59, rng.randint(1, 59)]))))
    for _ in range(n_fixed - 1):
        out.append(fixed_zone(rng.choice([rng.randint(-1439, 1439), rng.randint(-720, 840), rng.choice([-1439, -1, 1, 59, -59, 1439, 840, -720])])))
    try:
        import zoneinfo  # pylint: disable=import-outside-toplevel
        names = sorted(z for z in zoneinfo.available_timezones() if '/' in z and not z.startswith(('posix/', 'right/', 'Etc/')))
    except Exception:  # pylint: disable=broad-except
        names = []
    if names:
        out += rng.sample(names, min(n_any, len(names)))
    seen, res = set(ZONES), []
    for z in out:
        if z not in seen:
            seen.add(z)
            res.append(z)
    return res


AWARE_ZONES = ['Asia/Tokyo', 'America/Los_Angeles', 'Europe/Paris', 'Australia/Lord_Howe', 'America/St_Johns']
HOST_RULE = ('per TZ: HOST-supplied datetimes the library itself never creates - naive with 1..999 extra microseconds, fold=1, timezone-aware (UTC, fixed '
             'offsets -23:59..+23:59, ZoneInfo zones), subclasses of datetime, plain date objects and subclasses - biased to the zone\'s own offset '
             'transitions, with host numbers n (float, int, int/float subclasses, IntEnum members) in steps that cross the transitions: '
             '(d + n) - d = n, (n + d) - d = n, the same again for e = d + n, the sum cut to the millisecond = reference local time + n, through '
             'evaluate_expression or execute_script (host globals); ISO round trip of the host datetime. Model: add / isoFormat / isoParse on the '
             'local value cut to the millisecond (the driver has no notion of tzinfo, fold or subclasses - those are implementation-side oracles '
             'against zoneinfo); non-trivial = not a plain millisecond-aligned naive datetime with a float n')


def host_cases(rng, zone, n):
    out = []
    avail = [z for z in AWARE_ZONES if zone_available(z)]
    while len(out) < n:
        p = oracle_new(zone_args(rng, zone))
        if p is None:
            continue
        req = {'kind': 'host', 'p': p}
        r = rng.random()
        if r < 0.30:
            pass                                    # naive
        elif r < 0.42:
            req['fold'] = 1                         # naive, second pass of a repeated local time (or a no-op elsewhere)
        elif r < 0.52:
            req['tz'] = 'utc'
        elif r < 0.70:
            req['tz'] = rng.choice([0, -570, -210, -30, 30, 345, 525, 765, 840, -720, -1439, 1439, rng.randint(-1439, 1439)])
        elif r < 0.80 and avail:
            req['tz'] = rng.choice(avail + ([zone] if not zone.startswith('<') else []))
            if rng.random() < 0.3:
                req['fold'] = 1
        elif r < 0.93:
            req['cls'] = 'date'
        else:
            req['cls'] = 'datesub'
        if 'cls' not in req and rng.random() < 0.25:
            req['cls'] = 'sub'
        if rng.random() < 0.7:
            req['us'] = rng.choice([1, 499, 500, 501, 999, rng.randint(1, 999)])
        r = rng.random()
        if r < 0.55:
            req['n'] = rng.choice(TRANSITION_STEPS) * rng.choice([1, -1])
        elif r < 0.7:
            req['n'] = rng.choice([0, 1, -1, 999, -999, 1000])
        elif r < 0.85:
            req['n'] = rng.randint(-10 ** 8, 10 ** 8)
        else:
            req['n'] = rng.randint(-10 ** 12, 10 ** 12)
        req['m'] = rng.choice([0, 1, -1, 500, 3600000, -3600000, rng.randint(-10 ** 7, 10 ** 7)])
        req['nkind'] = rng.choice(NUMBER_KINDS)
        req['via'] = rng.choice(['expr', 'script'])
        out.append(req)
    return out


def host_verdicts(req, r):
    """The property oracles of one host case -> [(oracle, expected, actual)] (empty = holds). Shared by the stream and replay."""
    out = []
    loc = r.get('local')
    if loc is None:
        return out                  # the aware datetime has no local value inside years 1..9999
    n, m = req['n'], req.get('m', 0)
    aware = req.get('tz') is not None and req.get('cls') not in ('date', 'datesub')
    want_sum = oracle_add(loc, n)
    want = n if want_sum is not None else None
    if (not aware or r.get('agree')) and r.get('sum') != want_sum:
        out.append(('host-add-ms', want_sum, r.get('sum')))
    if r.get('lr') != want or r.get('rl') != want:
        out.append(('host-add-sub', want, {'(d+n)-d': r.get('lr'), '(n+d)-d': r.get('rl')}))
    if want_sum is not None and r.get('sum') == want_sum:
        want_e = m if oracle_add(want_sum, m) is not None else None
        if r.get('e_lr') != want_e or r.get('e_rl') != want_e:
            out.append(('host-add-sub-again', want_e, {'(e+m)-e': r.get('e_lr'), '(m+e)-e': r.get('e_rl'), 'e=d+n': r.get('sum')}))
    exists = bool(r.get('zi_exists')) and bool(r.get('libc_exists'))
    agree = (not aware or r.get('agree')) and r.get('zi_off') == r.get('os_off') and r.get('zi_exists') == r.get('libc_exists')
    off = r.get('zi_off')
    if exists and agree and off is not None and off % 60 == 0 and r.get('p') != loc:
        out.append(('host-iso-roundtrip', loc, {'text': r.get('text'), 'parsed': r.get('p')}))
    if (not aware or r.get('agree')) and r.get('pd') != loc[:3] + [0, 0, 0, 0]:
        out.append(('host-iso-date-roundtrip', loc[:3] + [0, 0, 0, 0], {'text': r.get('datetext'), 'parsed': r.get('pd')}))
    if not isinstance(r.get('text'), str) or strict_iso(r['text']) is None:
        out.append(('host-iso-format-shape', 'a valid ISO datetime text', r.get('text')))
    return out


def host_tags(req, r):
    tags = ['date' if req.get('cls') in ('date', 'datesub') else 'aware' if req.get('tz') is not None else 'naive']
    if req.get('cls') in ('sub', 'datesub'):
        tags.append('subclass')
    if req.get('fold'):
        tags.append('fold=1')
    us = req.get('us', 0)
    if us and tags[0] != 'date':
        tags.append('sub-ms>=500' if us >= 500 else 'sub-ms<500')
    tags += ['n-' + req.get('nkind', 'float'), 'via-' + req.get('via', 'expr')]
    if r.get('local') is None:
        tags.append('no-local-value')
    elif r.get('fold'):
        tags.append('in-fold')
    elif not r.get('zi_exists'):
        tags.append('in-gap')
    return tags


def check_host(ctx, sh, zone, cases, resps):
    mreqs = []
    for req, r in zip(cases, resps):
        loc = r.get('local')
        if loc is not None:
            mreqs.append({'op': 'add', 'dt': loc, 'n': req['n']})
            mreqs.append({'op': 'isoFormat', 'dt': loc, 'off': r['zi_off'] if r.get('zi_off') is not None else 0, 'us': r.get('local_us') or 0})
            mreqs.append({'op': 'isoParse', 'text': r['text'] if isinstance(r.get('text'), str) else '', 'off': (r.get('ref') or {}).get('zi') or 0})
    mresps = iter(ctx.driver.batch(mreqs))
    for req, r in zip(cases, resps):
        key = dict(req, zone=zone)
        del key['kind']
        plain = not any(req.get(k) for k in ('fold', 'tz', 'cls', 'us')) and req.get('nkind') == 'float'
        sh.case(key, nontrivial=not plain and r.get('local') is not None, tags=[zone] + host_tags(req, r))
        if r.get('local') is None:
            continue
        m_add, m_fmt, m_parse = next(mresps), next(mresps), next(mresps)
        aware = req.get('tz') is not None and req.get('cls') not in ('date', 'datesub')
        if not aware or r.get('agree'):
            ctx.compare('dt-host', dict(key, what='add'), {k: r.get(k) for k in ('sum', 'lr', 'rl')},
                        {'sum': m_add.get('dt'), 'lr': m_add.get('diff'), 'rl': m_add.get('diff')})
        exists = bool(r.get('zi_exists')) and bool(r.get('libc_exists'))
        agree = (not aware or r.get('agree')) and r.get('zi_off') == r.get('os_off') and r.get('zi_exists') == r.get('libc_exists')
        # (an aware instant inside a repeated hour is normalised to the naive wall time, which names the first pass: the worker's reference
        # local value is that naive time, fold=0)
        if exists and agree:
            ctx.compare('dt-host', dict(key, what='format'), r.get('text'), m_fmt.get('text'))
        ref = r.get('ref')
        if isinstance(r.get('text'), str) and ref is not None and ref.get('libc') in (None, ref.get('zi')):
            ctx.compare('dt-host', dict(key, what='parse', text=r['text']), r.get('p'), m_parse.get('dt'))
        for oracle, expected, actual in host_verdicts(req, r):
            ctx.witness(oracle, key, expected, actual)


# --- host input FORMS for every datetime consumer ----------------------------------------------------------------------

FORMS_RULE = ('per TZ: every datetime CONSUMER (the seven getters, datetimeISOFormat with isDate absent / false / true, stringNew, jsonStringify flat and nested, '
              'd + n, n + d, d - e, the six comparisons, dataSort ascending / descending on a datetime field) on every HOST INPUT FORM: naive datetime '
              '(also fold=1, sub-millisecond), date, aware datetimes with their own offset (whole hours -12:00..+14:00, :30 / :45 / quarter-hour offsets, '
              'sub-minute and sub-second offsets, UTC, ZoneInfo zones incl. the process zone itself, a host-defined tzinfo class), datetime / date subclasses; '
              'instants placed at day / month / year boundaries and offset transitions of the PROCESS zone, of the value\'s OWN offset and of UTC, so that '
              'the value\'s own calendar day differs from the local one; 2-6 values per case (a third of them the same instant in another form), library '
              'calls and again inside execute_script with the values as host globals. Oracle (independent of bare_script): C localtime() of the POSIX '
              'timestamp, cross-checked with zoneinfo\'s astimezone() of it, for aware values; the wall time itself for naive ones / dates; every consumer '
              'must act on that normalised local value. The Lean model has no tzinfo / fold / subclass notion: it is tied in on the normalised value only '
              '(add, isoFormat); non-trivial = the case holds an aware value whose own calendar date differs from the local one')
EDGE_TIMES = [(0, 0, 0, 0), (0, 0, 0, 1), (0, 0, 1, 0), (0, 14, 59, 999), (0, 15, 0, 0), (0, 29, 59, 999), (0, 30, 0, 0), (0, 44, 59, 999), (0, 45, 0, 0),
              (0, 59, 59, 999), (1, 0, 0, 0), (1, 59, 59, 999), (2, 30, 0, 0), (5, 29, 59, 999), (5, 30, 0, 0), (5, 45, 0, 0), (9, 59, 59, 999), (10, 0, 0, 0),
              (11, 59, 59, 999), (12, 0, 0, 0), (13, 59, 59, 999), (14, 0, 0, 0), (18, 14, 59, 999), (18, 15, 0, 0), (18, 30, 0, 0), (22, 59, 59, 999),
              (23, 0, 0, 0), (23, 15, 0, 0), (23, 30, 0, 0), (23, 45, 0, 0), (23, 59, 59, 0), (23, 59, 59, 999)]
REAL_OFFSETS_MIN = [-690, -630, -570, -510, -270, -210, -150, 20, 90, 150, 210, 270, 330, 345, 390, 450, 525, 570, 630, 690, 765, 825]
SUBMIN_OFFSETS_S = [1, -1, 30, -30, 59, -59, 61, 1172, -1172, -17762, 21208, 20928, -35670, 86399, -86399, 50399, -43199]
MAX_US = 3652059 * 86400 * 10 ** 6
_ZONE_TZ = {}


def zone_tzinfo(zone):
    """tzinfo of a process zone name of this module (tz database name or POSIX '<+hhmm>..' fixed offset) - generator side only"""
    if zone not in _ZONE_TZ:
        m = re.fullmatch(r'<([+-])([0-9]{2})([0-9]{2})>.*', zone)
        if m:
            _ZONE_TZ[zone] = datetime.timezone(datetime.timedelta(minutes=(int(m.group(2)) * 60 + int(m.group(3))) * (-1 if m.group(1) == '-' else 1)))
        else:
            import zoneinfo  # pylint: disable=import-outside-toplevel
            _ZONE_TZ[zone] = zoneinfo.ZoneInfo(zone)
    return _ZONE_TZ[zone]


def us_of(d):
    return ((d.toordinal() - 1) * 86400 + d.hour * 3600 + d.minute * 60 + d.second) * 10 ** 6 + d.microsecond


def td_us(td):
    return (td.days * 86400 + td.seconds) * 10 ** 6 + td.microseconds


def forms_anchor(rng, zone):
    """A wall time on a day / month / year boundary (or next to an offset transition of the process zone)."""
    y = rng.choice([rng.randint(100, 9000), rng.randint(1900, 2100), rng.randint(1970, 2037), 2024, 2025, 1999, 2000, 2100, 100, 9000])
    r = rng.random()
    days = transition_days(zone)
    if r < 0.3:
        y, mo, d = rng.choice([(y, 12, 31), (y, 1, 1), (y - 1 if y > 100 else y, 12, 31)])
    elif r < 0.55:
        mo = rng.choice([rng.randint(1, 12), 2, 3])
        d = rng.choice([1, (datetime.date(y + mo // 12, mo % 12 + 1, 1) - datetime.timedelta(days=1)).day])
    elif r < 0.7 and days:
        y, mo, d = rng.choice(days)
        d = max(1, min(28, d + rng.choice([0, 0, -1, 1])))
    else:
        mo, d = rng.randint(1, 12), rng.randint(1, 28)
    if rng.random() < 0.65:
        h, mi, s, ms = rng.choice(EDGE_TIMES)
    else:
        h, mi, s, ms = rng.randint(0, 23), rng.randint(0, 59), rng.randint(0, 59), rng.choice([0, 1, 500, 999, rng.randint(0, 999)])
    sub = rng.choice([1, 499, 500, 501, 999]) if rng.random() < 0.3 else 0
    return datetime.datetime(y, mo, d, h, mi, s, ms * 1000 + sub)


def forms_offset(rng):
    r = rng.random()
    if r < 0.3:
        return {'s': rng.randint(-12, 14) * 3600}
    if r < 0.55:
        return {'s': rng.choice(REAL_OFFSETS_MIN) * 60}
    if r < 0.7:
        return {'s': rng.randint(-48, 56) * 900}
    if r < 0.8:
        return {'s': rng.randint(-720, 840) * 60}
    if r < 0.93:
        return {'s': rng.choice(SUBMIN_OFFSETS_S + [rng.randint(-43200, 50400)])}
    return {'s': rng.choice([0, 19800, -18000, 3599]), 'us': rng.choice([1, -1, 500000, 999999, -999999])}


def forms_value(rng, zone, avail, prev=None):
    anchor = forms_anchor(rng, zone)
    wall = [anchor.year, anchor.month, anchor.day, anchor.hour, anchor.minute, anchor.second, anchor.microsecond]
    r = rng.random()
    if r < 0.2:
        form = {'wall': wall}
        if rng.random() < 0.35:
            form['fold'] = 1
    elif r < 0.3:
        return {'cls': rng.choice(['date', 'datesub']), 'wall': wall}
    else:
        r = rng.random()
        if r < 0.1:
            tz = 'utc'
        elif r < 0.25 and (avail or not zone.startswith('<')):
            tz = rng.choice(avail + ([zone, zone] if not zone.startswith('<') else []))
        else:
            tz = forms_offset(rng)
            if rng.random() < 0.12:
                tz['custom'] = 1
        if prev is not None and 'utc_us' in prev and rng.random() < 0.5:
            utc_us = prev['utc_us']                 # the same instant in another form
        else:
            mode = rng.choice(['local', 'local', 'own', 'own', 'utc'])
            if mode == 'utc':
                off = 0
            elif mode == 'local':
                off = td_us(anchor.replace(tzinfo=zone_tzinfo(zone)).utcoffset())
            elif isinstance(tz, dict):
                off = tz['s'] * 10 ** 6 + tz.get('us', 0)
            elif tz == 'utc':
                off = 0
            else:
                off = td_us(anchor.replace(tzinfo=zone_tzinfo(tz)).utcoffset())
            utc_us = us_of(anchor) - off
        utc_us = max(3 * 86400 * 10 ** 6, min(MAX_US - 3 * 86400 * 10 ** 6, utc_us))
        form = {'tz': tz, 'utc_us': utc_us}
        if rng.random() < 0.15:
            form['fold'] = 1
    if rng.random() < 0.25:
        form['cls'] = 'sub'
    return form


def forms_cases(rng, zone, n):
    avail = [z for z in AWARE_ZONES if zone_available(z)]
    out = []
    for _ in range(n):
        vals = []
        for _ in range(rng.choice([2, 2, 3, 4, 6])):
            vals.append(forms_value(rng, zone, avail, prev=vals[-1] if vals and rng.random() < 0.6 else None))
        r = rng.random()
        if r < 0.5:
            nn = rng.choice(TRANSITION_STEPS) * rng.choice([1, -1])
        elif r < 0.7:
            nn = rng.choice([0, 1, -1, 999, -999, 1000, 59999, 60000, -60000])
        elif r < 0.9:
            nn = rng.randint(-10 ** 8, 10 ** 8)
        else:
            nn = rng.randint(-10 ** 12, 10 ** 12)
        out.append({'kind': 'forms', 'vals': vals, 'n': nn, 'nkind': rng.choice(NUMBER_KINDS)})
    return out


def iso_text_fields(text):
    """ISO datetime text -> ([y, mo, d, h, mi, s, ms], offset seconds) by the strict pattern of the property (not the implementation's), else None"""
    m = STRICT_DT.fullmatch(text) if isinstance(text, str) else None
    if not m:
        return None
    frac = m.group(7) or ''
    zone = m.group(8)
    off = 0 if zone == 'Z' else (int(zone[1:3]) * 3600 + int(zone[4:6]) * 60) * (-1 if zone[0] == '-' else 1)
    return [int(m.group(i)) for i in range(1, 7)] + [int((frac + '000')[:3]) if frac else 0], off


def forms_verdicts(req, r):
    """The property oracles of one forms case -> [(oracle, value index, expected, actual)] (empty = holds). Shared by the stream and replay."""
    out = []
    if r.get('skip'):
        return out
    n = req['n']
    outs = r['vals']
    refs = [o['ref'] for o in outs]
    for i, o in enumerate(outs):
        ref = refs[i]
        if not ref['agree']:
            continue                    # zoneinfo and the C library differ about this local time: no reference
        loc = ref['local']
        paths = [('lib', o)] + ([('script', o['script'])] if 'error' not in o['script'] else [])
        if 'error' in o['script']:
            out.append(('forms-script', i, 'no exception', o['script']))
        want_sum = oracle_add(loc, n)
        nxt = refs[(i + 1) % len(refs)]
        d_us = ref['full_us'] - nxt['full_us']
        sign = (d_us > 0) - (d_us < 0)
        want_cmp = [sign < 0, sign <= 0, sign == 0, sign != 0, sign >= 0, sign > 0]
        for path, p in paths:
            if p.get('get') != loc:
                out.append(('forms-getters', i, loc, {'path': path, 'got': p.get('get')}))
            want_date = '%04d-%02d-%02d' % tuple(loc[:3])
            if p.get('datetext') != want_date:
                out.append(('forms-iso-date', i, want_date, {'path': path, 'got': p.get('datetext')}))
            text = p.get('text')
            for key in ('text', 'text_f'):
                got = iso_text_fields(p.get(key))
                if got is None:
                    out.append(('forms-iso-text', i, 'a valid ISO datetime text', {'path': path, 'got': p.get(key)}))
                elif ref['exists'] and (got[0] != loc or (ref['off'] % 60 == 0 and got[1] != ref['off'])):
                    out.append(('forms-iso-text', i, {'local': loc, 'offset_s': ref['off']}, {'path': path, 'got': p.get(key)}))
            if isinstance(text, str):
                want_s = {'str': text, 'json': json.dumps(text), 'json_n': '{"a":[' + json.dumps(text) + ']}'}
                got_s = {k: p.get(k) for k in want_s}
                if got_s != want_s:
                    out.append(('forms-string', i, want_s, {'path': path, 'got': got_s}))
            if p.get('sum') != want_sum or p.get('sum_r') != want_sum:
                out.append(('forms-add-ms', i, want_sum, {'path': path, 'd+n': p.get('sum'), 'n+d': p.get('sum_r')}))
            if nxt['agree']:
                diff = p.get('diff')
                slack = 0 if d_us % 1000 == 0 else 500 + abs(d_us) // 2 ** 50 + 1
                if isinstance(diff, bool) or not isinstance(diff, int) or abs(diff * 1000 - d_us) > slack:
                    out.append(('forms-sub', i, d_us / 1000, {'path': path, 'got': diff}))
                if p.get('cmp') != want_cmp:
                    out.append(('forms-compare', i, want_cmp, {'path': path, 'got': p.get('cmp')}))
    if all(ref['agree'] for ref in refs):
        keys = [ref['full_us'] for ref in refs]
        for name, sgn in (('asc', 1), ('desc', -1)):
            order = r['sort'].get(name) if isinstance(r.get('sort'), dict) else None
            ok = isinstance(order, list) and sorted(order) == list(range(len(keys)))
            ok = ok and all(sgn * keys[a] <= sgn * keys[b] for a, b in zip(order, order[1:]))
            if not ok:
                out.append(('forms-sort', None, {'order': name, 'keys': keys}, order))
    return out


def forms_tags(form, ref):
    cls = form.get('cls', 'datetime')
    tz = form.get('tz')
    tags = ['date' if cls in ('date', 'datesub') else 'naive' if tz is None else 'aware']
    if cls in ('sub', 'datesub'):
        tags.append('subclass')
    if form.get('fold'):
        tags.append('fold=1')
    if isinstance(tz, dict):
        s = tz['s']
        tags.append('off-subsecond' if tz.get('us') else 'off-subminute' if s % 60 else 'off-hour' if s % 3600 == 0 else
                    'off-:30' if s % 3600 == 1800 else 'off-:45/:15' if s % 900 == 0 else 'off-minutes')
        if tz.get('custom'):
            tags.append('host-tzinfo')
    elif tz is not None:
        tags.append('off-utc' if tz == 'utc' else 'off-zoneinfo')
    if ref is not None:
        if ref.get('own') is not None and ref['own'] != ref['local'][:3]:
            tags.append('own-day!=local-day')
            if ref['own'][:2] != ref['local'][:2]:
                tags.append('own-year!=local-year' if ref['own'][0] != ref['local'][0] else 'own-month!=local-month')
        if ref.get('ambiguous'):
            tags.append('in-fold')
        if not ref.get('exists'):
            tags.append('in-gap')
        if not ref.get('agree'):
            tags.append('zoneinfo-vs-libc-differ')
        if ref.get('us'):
            tags.append('sub-ms')
    return tags


def check_forms(ctx, sf, zone, cases, resps):
    mreqs = []
    for req, r in zip(cases, resps):
        if r.get('skip'):
            continue
        for o in r['vals']:
            ref = o['ref']
            mreqs.append({'op': 'add', 'dt': ref['local'], 'n': req['n']})
            mreqs.append({'op': 'isoFormat', 'dt': ref['local'], 'off': ref['off'], 'us': ref['us']})
    mresps = iter(ctx.driver.batch(mreqs))
    for req, r in zip(cases, resps):
        key = {'zone': zone, 'vals': req['vals'], 'n': req['n'], 'nkind': req['nkind']}
        if r.get('skip'):
            sf.case(key, nontrivial=False, tags=[zone, 'no-value-in-range'])
            continue
        tags = set()
        for form, o in zip(req['vals'], r['vals']):
            tags.update(forms_tags(form, o['ref']))
        sf.case(key, nontrivial='own-day!=local-day' in tags, tags=[zone, 'k=%d' % len(req['vals'])] + sorted(tags))
        for i, o in enumerate(r['vals']):
            m_add, m_fmt = next(mresps), next(mresps)
            ref = o['ref']
            if not ref['agree']:
                continue
            ctx.compare('dt-forms', dict(key, i=i, what='add'), o.get('sum'), m_add.get('dt'))
            if ref['exists']:
                ctx.compare('dt-forms', dict(key, i=i, what='format'), [o.get('text'), o.get('datetext')], [m_fmt.get('text'), m_fmt.get('date')])
        for oracle, i, expected, actual in forms_verdicts(req, r):
            ctx.witness(oracle, dict(key, i=i), expected, actual)


def stream_iso(ctx, n_rt, n_text, n_arith, zones=None, n_host=0, n_forms=0):
    st = ctx.stream('dt-iso', 'per TZ (Python side in a subprocess with TZ=<zone>; 8 full-budget zones + always-on negative-offset-with-minutes zones + a '
                              'per-seed rotation of classed tz database zones, POSIX fixed offsets -23:59..+23:59 and random tz database names at a '
                              'reduced budget): datetimeNew (a third with extra microseconds, some marked fold=1) -> datetimeISOFormat -> datetimeISOParse round trip, '
                              'model formatter/parser given the offsets zoneinfo reports, ISO date form; non-trivial = the local time exists, has a '
                              'whole-minute offset and a non-zero offset or millisecond part')
    sp = ctx.stream('dt-iso-text', 'per TZ: datetimeISOParse on valid ISO texts (1-6 fraction digits, assorted offsets) and malformed ones (fixed list + '
                                   'random single-character mutations), a tenth of them as a str subclass, by value_parse_datetime, the library '
                                   'function and evaluate_expression: strict validity oracle (invalid -> null, never an exception), value oracle via '
                                   'zoneinfo, model parser; non-trivial = text within edit distance 1 of a valid text or valid')
    sa = ctx.stream('dt-arith', ARITH_RULE)
    sh = ctx.stream('dt-host', HOST_RULE)
    sf = ctx.stream('dt-forms', FORMS_RULE)
    missing = [z for z in (zones or ZONES) if not zone_available(z)]
    if missing:
        ctx.notes.append('zones skipped (no zoneinfo file): ' + ', '.join(missing))
    # generate every zone's requests first, run the zone workers concurrently (one subprocess per zone, answers keyed by zone: the result
    # does not depend on scheduling), then evaluate zone by zone
    plans = []
    for zone in (zones or ZONES):
        if zone in missing:
            continue
        rng = ctx.rng('dt-iso', zone)
        rt_cases = [rec['args'] for rec in corpus('dt-iso') if rec.get('zone') in (None, zone)] + [zone_args(rng, zone) for _ in range(n_rt)]
        valid = iso_text_cases(rng, n_text)
        texts = [rec['text'] for rec in corpus('dt-iso-text')] + MALFORMED_FIXED + valid + [mutate(rng, rng.choice(valid)) for _ in range(n_text)]
        ar_cases = arith_cases(rng, n_arith - n_arith // 2) + zone_arith_cases(rng, zone, n_arith // 2)
        ho_cases = [dict(rec['req'], kind='host') for rec in corpus('dt-host') if rec.get('zone') in (None, zone)] + host_cases(rng, zone, n_host)
        fo_cases = ([dict(rec['req'], kind='forms') for rec in corpus('dt-forms') if rec.get('zone') in (None, zone)]
                    + forms_cases(ctx.rng('dt-forms', zone), zone, n_forms))
        # a third of the round trips start from a datetime carrying extra microseconds (what datetimeNow() returns): ISO text is cut to the millisecond
        rt_us = [rng.choice([1, 499, 500, 501, 999, rng.randint(1, 999)]) if rng.random() < 0.33 else 0 for _ in rt_cases]
        # some are marked fold=1 by the host (PEP 495): the second pass of a repeated local time, no effect elsewhere
        rt_fold = [1 if rng.random() < 0.3 else 0 for _ in rt_cases]
        tx_sub = [rng.random() < 0.1 for _ in texts]
        reqs = ([{'kind': 'rt', 'args': a, 'us': us, 'fold': fo} for a, us, fo in zip(rt_cases, rt_us, rt_fold)]
                + [{'kind': 'parse', 'text': t, 'sub': sub} for t, sub in zip(texts, tx_sub)]
                + [{'kind': 'arith', 'args': a, 'n': n, 'as_int': i, 'us': us} for a, n, i, us in ar_cases] + ho_cases + fo_cases)
        plans.append((zone, rt_cases, rt_us, rt_fold, valid, texts, tx_sub, ar_cases, ho_cases, fo_cases, reqs))
    with concurrent.futures.ThreadPoolExecutor(max_workers=4) as pool:
        futures = [pool.submit(run_worker, plan[0], plan[-1]) for plan in plans]
    for (zone, rt_cases, rt_us, rt_fold, valid, texts, tx_sub, ar_cases, ho_cases, fo_cases, reqs), future in zip(plans, futures):
        resps = future.result()
        bad = [r for r in resps if 'worker_error' in r or 'bad' in r]
        if bad:
            raise fw.Infra(f'c16_tzworker TZ={zone}: {bad[0]}')
        rt_resps = resps[:len(rt_cases)]
        tx_resps = resps[len(rt_cases):len(rt_cases) + len(texts)]
        ar_resps = resps[len(rt_cases) + len(texts):len(rt_cases) + len(texts) + len(ar_cases)]
        ho_resps = resps[len(rt_cases) + len(texts) + len(ar_cases):len(rt_cases) + len(texts) + len(ar_cases) + len(ho_cases)]
        fo_resps = resps[len(rt_cases) + len(texts) + len(ar_cases) + len(ho_cases):]

        # ---- round trips ----
        mreqs = []
        for a, us, r in zip(rt_cases, rt_us, rt_resps):
            d = r.get('d')
            if d is None:
                continue
            mreqs.append({'op': 'isoFormat', 'dt': d, 'off': r['zi_off'] if r.get('zi_off') is not None else 0, 'us': us})
            ref = r.get('ref') or {}
            mreqs.append({'op': 'isoParse', 'text': r['text'] if isinstance(r.get('text'), str) else '', 'off': ref.get('zi') or 0})
            mreqs.append({'op': 'isoParse', 'text': r['datetext'] if isinstance(r.get('datetext'), str) else '', 'off': 0})
        mresps = iter(ctx.driver.batch(mreqs))
        for a, us, fo, r in zip(rt_cases, rt_us, rt_fold, rt_resps):
            d = r.get('d')
            key = {'zone': zone, 'args': a}
            if us:
                key['us'] = us
            if fo:
                key['fold'] = 1
            if d != oracle_new(a):
                ctx.witness('ordinal-arithmetic', {'args': a, 'spelling': 'float', 'zone': zone}, oracle_new(a), d)
            if d is None:
                st.case(key, nontrivial=False, tags=[zone, 'new-null'])
                continue
            m_fmt, m_parse, m_pdate = next(mresps), next(mresps), next(mresps)
            exists = bool(r.get('zi_exists')) and bool(r.get('libc_exists'))
            agree = r.get('zi_off') == r.get('os_off') and r.get('zi_exists') == r.get('libc_exists')
            off = r.get('zi_off')
            whole = off is not None and off % 60 == 0
            tags = ([zone, 'exists' if exists else 'gap', 'whole-minute' if whole else 'seconds-offset'] + (['fold'] if r.get('fold') else [])
                    + (['sub-ms'] if us else []) + (['fold=1'] if fo else []) + (['second-pass'] if fo and r.get('fold') else []))
            if whole and off < 0 and off % 3600:
                tags.append('negative-offset-with-minutes')
            if not agree:
                tags.append('zoneinfo-vs-libc-differ')
            st.case(key, nontrivial=exists and whole and (off != 0 or d[6] != 0), tags=tags)
            # model vs implementation: the formatter (only for local times that exist: a gap time is printed shifted by the C library)
            if exists and agree:
                ctx.compare('dt-iso', dict(key, what='format'), r.get('text'), m_fmt.get('text'))
            ctx.compare('dt-iso', dict(key, what='format-date'), r.get('datetext'), m_fmt.get('date'))
            ref = r.get('ref')
            if isinstance(r.get('text'), str) and ref is not None and ref.get('libc') in (None, ref.get('zi')):
                ctx.compare('dt-iso', dict(key, what='parse', text=r['text']), r.get('p'), m_parse.get('dt'))
            ctx.compare('dt-iso', dict(key, what='parse-date', text=r.get('datetext')), r.get('pd'), m_pdate.get('dt'))
            # the property on the real code
            if exists and agree and whole and r.get('p') != d:
                ctx.witness('iso-roundtrip', dict(key, text=r.get('text'), offset_s=off), d, r.get('p'))
            if r.get('pd') != d[:3] + [0, 0, 0, 0]:
                ctx.witness('iso-date-roundtrip', dict(key, text=r.get('datetext')), d[:3] + [0, 0, 0, 0], r.get('pd'))
            if isinstance(r.get('text'), str) and strict_iso(r['text']) is None:
                ctx.witness('iso-format-shape', key, 'a valid ISO datetime text', r.get('text'))

        # ---- texts ----
        valid_set = set(valid)
        mresps = ctx.driver.batch([{'op': 'isoParse', 'text': t, 'off': ((r.get('ref') or {}).get('zi') or 0)} for t, r in zip(texts, tx_resps)])
        for t, sub, r, m in zip(texts, tx_sub, tx_resps, mresps):
            key = {'zone': zone, 'text': t}
            if sub:
                key['sub'] = True
            kind = strict_iso(t)
            ref = r.get('ref')
            sp.case(key, nontrivial=True, tags=[zone, 'valid-' + kind[0] if kind else 'invalid',
                                                'null' if r.get('p') is None else 'parsed', 'from-valid-list' if t in valid_set else 'other'])
            if ref is None or ref.get('libc') in (None, ref.get('zi')):
                ctx.compare('dt-iso-text', key, r.get('p'), m.get('dt'))
            if r.get('lib') != r.get('p') or r.get('ex') != r.get('p'):
                ctx.witness('iso-parse-entry-points', key, r.get('p'), {'library': r.get('lib'), 'evaluate_expression': r.get('ex')})
            if kind is None:
                if r.get('p') is not None:
                    ctx.witness('iso-reject', key, None, r.get('p'))
            elif kind[0] == 'date':
                if r.get('p') != kind[1]:
                    ctx.witness('iso-parse-date', key, kind[1], r.get('p'))
            elif ref is not None and ref.get('libc') in (None, ref.get('zi')):
                if r.get('p') != ref['local']:
                    ctx.witness('iso-parse-value', key, ref['local'], r.get('p'))

        # ---- arithmetic inside the zone ----
        mresps = ctx.driver.batch([{'op': 'add', 'dt': oracle_new(a) or [1, 1, 1, 0, 0, 0, 0], 'n': n} for a, n, _, _ in ar_cases])
        for case, got, m in zip(ar_cases, ar_resps, mresps):
            check_arith(ctx, sa, case, got, m, zone=zone)

        # ---- host-supplied datetimes and numbers inside the zone ----
        check_host(ctx, sh, zone, ho_cases, ho_resps)

        # ---- every datetime consumer on every host input form inside the zone ----
        check_forms(ctx, sf, zone, fo_cases, fo_resps)


def streams(ctx):
    stream_new(ctx, ctx.scale(25000, 500000), ctx.scale(2500, 50000))
    stream_arith(ctx, ctx.scale(12000, 250000))
    stream_iso(ctx, ctx.scale(2000, 40000), ctx.scale(800, 15000), ctx.scale(400, 8000), n_host=ctx.scale(500, 6000),
               n_forms=ctx.scale(250, 3000))
    # the same four streams in further host time zones (fixed always-on ones + a per-seed rotation), at a reduced budget each
    stream_iso(ctx, ctx.scale(500, 1500), ctx.scale(150, 500), ctx.scale(100, 400), zones=extra_zones(ctx), n_host=ctx.scale(200, 800),
               n_forms=ctx.scale(80, 400))


def search(ctx):
    """Directed search with a larger budget: all oracles, fresh seeds."""
    stream_new(ctx, ctx.scale(40000, 150000), ctx.scale(4000, 15000), seed_name='search-new')
    if ctx.witnesses:
        return
    stream_arith(ctx, ctx.scale(20000, 80000), seed_name='search-arith')
    if ctx.witnesses:
        return
    stream_iso(ctx, ctx.scale(3000, 8000), ctx.scale(1500, 3000), ctx.scale(300, 1000), n_host=ctx.scale(600, 2000), n_forms=ctx.scale(400, 1500))
    if ctx.witnesses:
        return
    stream_iso(ctx, ctx.scale(600, 2000), ctx.scale(200, 600), ctx.scale(150, 500), zones=extra_zones(ctx, 'search-zones') + ZONE_POOL[:8],
               n_host=ctx.scale(300, 1000), n_forms=ctx.scale(150, 500))


def replay(witness):
    oracle = witness.get('oracle')
    inp = witness.get('input')
    zone = inp.get('zone') if isinstance(inp, dict) else None
    if oracle == 'ordinal-arithmetic':
        if zone:
            r = run_worker(zone, [{'kind': 'rt', 'args': inp['args']}])[0]
            return r.get('d') != oracle_new(inp['args'])
        if inp.get('spelling') == 'hostnum':
            return impl_new_host(inp['args'], inp.get('idx', 0)) != oracle_new(inp['args'])
        if inp.get('spelling') == 'script':
            return impl_new_script(inp['args'])[0] != oracle_new(inp['args'])
        return impl_new(inp['args'])[inp.get('spelling', 'float')] != oracle_new(inp['args'])
    if oracle == 'getters':
        if inp.get('spelling') == 'script':
            got_s, getters_s = impl_new_script(inp['args'])
            return getters_s != got_s
        got = impl_new(inp['args'])
        return got.get('getters') != got['float']
    if oracle.startswith('forms-'):
        req = {'kind': 'forms', 'vals': inp['vals'], 'n': inp['n'], 'nkind': inp.get('nkind', 'float')}
        r = run_worker(zone or 'UTC', [req])[0]
        return any(o == oracle and i == inp.get('i') for o, i, _, _ in forms_verdicts(req, r))
    if oracle.startswith('host-'):
        req = {k: v for k, v in inp.items() if k != 'zone'}
        req['kind'] = 'host'
        r = run_worker(zone or 'UTC', [req])[0]
        return any(o == oracle for o, _, _ in host_verdicts(req, r))
    if oracle in ('add-ms', 'add-sub'):
        case = (inp['args'], inp['n'], inp.get('int', False), inp.get('us', 0))
        got = (run_worker(zone, [{'kind': 'arith', 'args': case[0], 'n': case[1], 'as_int': case[2], 'us': case[3]}])[0] if zone
               else impl_arith(*case))
        d = oracle_new(case[0])
        want_sum = oracle_add(d, case[1]) if d is not None else None
        want = case[1] if want_sum is not None else None
        return got.get('sum') != want_sum or got.get('lr') != want or got.get('rl') != want
    if oracle in ('iso-roundtrip', 'iso-date-roundtrip', 'iso-format-shape'):
        r = run_worker(zone, [{'kind': 'rt', 'args': inp['args'], 'us': inp.get('us', 0), 'fold': inp.get('fold', 0)}])[0]
        d = r.get('d')
        if d is None:
            return True
        if oracle == 'iso-date-roundtrip':
            return r.get('pd') != d[:3] + [0, 0, 0, 0]
        if oracle == 'iso-format-shape':
            return not isinstance(r.get('text'), str) or strict_iso(r['text']) is None
        return r.get('p') != d
    if oracle in ('iso-reject', 'iso-parse-date', 'iso-parse-value', 'iso-parse-entry-points'):
        r = run_worker(zone or 'UTC', [{'kind': 'parse', 'text': inp['text'], 'sub': bool(inp.get('sub'))}])[0]
        if oracle == 'iso-parse-entry-points':
            return r.get('lib') != r.get('p') or r.get('ex') != r.get('p')
        return r.get('p') != witness.get('expected')
    return True


LEVEL_TEXT = ('Theorems for ALL integer arguments (no bound): the carry chain, month normalisation and the two day loops of datetimeNew equal '
              'proleptic-Gregorian ordinal arithmetic (loop invariant: ordinal of (year, month, 1) + day; measure |day|), null exactly when the '
              'instant leaves years 1..9999; CPython\'s _ord2ymd is proved to invert _ymd2ord on every integer ordinal; getters recompose to the '
              'instant and re-normalising is the identity; (d + n) - d = n on the integer-millisecond model; ISO text: parse(format t) = t under '
              'explicit zone hypotheses (_partial), and the parser returns null outside the two anchored shapes / for invalid fields. '
              'The Python side runs per TZ in a subprocess for the 8 zones of the quantifier plus further zones per run (negative offsets with a minute part, a per-seed '
              'rotation of tz database zones and POSIX fixed offsets); host-supplied datetimes/numbers (sub-millisecond, aware, fold=1, subclasses, dates) are '
              'checked on the implementation side, and every datetime consumer (getters, ISO text, stringNew, jsonStringify, + / -, comparisons, dataSort) is run on every host '
              'input form against C localtime() of the POSIX timestamp (dt-forms); independent oracles: date.toordinal/timedelta, zoneinfo, libc.')
LEVEL_NOTE = ('proof for normalisation / getters / integer arithmetic / rejection; _partial for the ISO round trip (zone abstracted by two offset '
              'functions with the existence assumption as hypothesis; LMT offsets with seconds are shown to break the round trip) and for the float '
              'rounding of datetime - datetime (relative-error model of IEEE doubles). Trusted: Lean kernel, extract.py, harness + tz worker, '
              'zoneinfo/libc as zone reference. Modelled not verified: calendar.monthrange, datetime constructor/arithmetic, astimezone(), re.')


# extension: further model code, theorems and streams (DESIGN 13.7)
from props import c16x as _ext  # noqa: E402  pylint: disable=wrong-import-position
_ext.EXTRA_ROOTS = ['Drv.C16X']
fw.attach_extension(globals(), _ext)
