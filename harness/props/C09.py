"""C09 - the statement budget is exact, complete and monotone."""

import collections
import copy
import decimal
import fractions
import functools
import json
import math
import os
import re
import sys

import fw
import progen
from props import C08 as c08

ID = 'C09'
LEVEL = 'proof'
LEAN_TARGETS = ['BareProofs.C09', 'BareProofs.C09Term']
DRIVER = 'drv_c01'
DRIVER_ROOT = 'Drv.C01'
GEN = ['Consts']
THEOREMS = [
    'C09.count_monotone', 'C09.count_monotone_call', 'C09.count_monotone_include', 'C09.started_statement_counts',
    'C09.count_le_limit', 'C09.count_le_limit_execute', 'C09.unlimited_never_exceeds',
    'C09.execute_sim', 'C09.limit_monotone', 'C09.limit_small_aborts', 'C09.exceeded_iff', 'C09.abort_exact',
    'C09.limit_prefix', 'C09.hostExt_log', 'C09.limit_prefix_log',
    'C09.fuel_mono', 'C09.fuel_mono_execM', 'C09.limited_needs_no_more_fuel', 'C09.no_infinite_run_partial',
    'C09.unknown_label_exact', 'C09.own_budget', 'C09.own_budget_states', 'C09.own_budget_session',
    'C09.goodM', 'C09.fuelMono', 'C09.simM',
    # BareProofs/C09Term.lean (+ C09TermLemmas, C09TermHosts): "no script can run forever" under an explicit host hypothesis
    'C09.presM', 'C09.termM',
    'C09.no_infinite_run', 'C09.no_infinite_run_execM', 'C09.no_infinite_run_call', 'C09.no_infinite_run_includes',
    'C09.no_infinite_run_result', 'C09.no_infinite_run_of_rank', 'C09.applyHost_rank',
    'C09.LibParam.lib_q', 'C09.implStateOk_sound', 'C09.libStateOk_sound',
    'C09.no_infinite_run_hostImpl', 'C09.no_infinite_run_hostLib',
    'C09.Counter.loopHost_runs_forever', 'C09.Counter.loopHost_not_wf',
    'C09.Counter.hostImpl_runs_forever', 'C09.Counter.hostImpl_not_wf',
    'C09.Counter.hostLib_runs_forever', 'C09.Counter.hostLib_not_wf',
]
ASSUMPTIONS = [
    'no_infinite_run ("for L > 0 some fuel suffices, and every larger one": C09Term.lean) is proved for every host that satisfies the '
    'explicit hypothesis HostWF (an invariant on values/worlds preserved by every host operation + a rank of host calls that strictly '
    'decreases along call-backs; RankWF is the invariant-free special case) from every admissible start state; it is FALSE without the '
    'hypothesis (Counter.loopHost_runs_forever) and it is FALSE for the two concrete hosts on all states: the 4-statement script '
    'a = arrayNew(); p = systemPartial(arrayIndexOf, a); arrayPush(a, p); arrayIndexOf(a, p) is out of fuel for every fuel '
    '(Counter.hostImpl_runs_forever / hostLib_runs_forever: arrayIndexOf calls p([p]) = arrayIndexOf(a, p) for ever, no statement '
    'starts) - CPython ends exactly this run with RecursionError, which the call wrapper turns into null (checked: r = null, '
    'statementCount 6); the recursion limit is not in the model.  For HostImpl.host / HostLib.hostLib the theorem is therefore proved '
    'from the start states that pass the decidable check implStateOk m / libStateOk m: m = true - no systemPartial function value and '
    'no partial application anywhere in globals/heap; m = false - no arrayIndexOf function value anywhere in globals/heap/partial table '
    'and every partial refers to earlier partials only (no dangling reference); one of the two restrictions is necessary '
    '(Counter.hostImpl_not_wf).  no_infinite_run_partial (statement STARTS bounded by L+1, every host, every state) stays as it was',
    'limit_prefix is stated for any preorder on the abstract world that the host only extends (HostExt) and instantiated for the log of '
    'the concrete driver host; that the GLOBALS at an abort are the unlimited run\'s globals at that point is checked on the '
    'implementation only (per-statement snapshots through logFn in fully-logged programs)',
    'Python recursion limit is not modelled (deep script recursion raises RecursionError inside the call wrapper, which turns it into '
    'null - DESIGN section 6): generated recursion depth stays below 60 in the streams that are compared with the model and infinite '
    'recursion is not generated; stream limit-values (recursion of 50..400 levels, whether it fits the host stack or not) is checked '
    'with implementation-side oracles only',
    'the data functions (dataFilter, dataCalculatedField, dataJoin) are not in the Lean host: programs that call back script '
    'functions through them are checked with the implementation-side oracles only',
    'numbers in generated programs are exactly representable (additions of small integers only in fully-logged programs, so that an '
    'endless loop cannot leave the exactly representable range); "-0" in log lines and in strings of the result / the globals is compared as "0" '
    '(the rational host has no negative zero)',
    'included files live in one flat virtual directory, so the URL an include resolves to is the URL it names (resolution is C17); in the '
    'family of repeated includes (rinc) the host sets systemPrefix (absent, empty, a directory, a file in a directory): system files '
    'live in the directory of the prefix, every file of a case has its own base name and only plain relative names are used; the '
    'reference interpreter resolves <x> to prefix-directory + x and every other name to the directory of the running file, the Lean '
    'machine is given the file map by base name (its default resolve is the written name)',
    'the script a = arrayNew(); p = systemPartial(arrayIndexOf, a); arrayPush(a, p); r = arrayIndexOf(a, p); return r (a library call-back '
    'recursion that starts no statement) is run on the implementation only, under limits 0, 4, 5, 100 and on options objects with a '
    'history: it must stop (CPU watchdog) and satisfy the budget oracles with N = 5; it is kept out of the model comparison (no '
    'recursion limit in the model: Counter.hostImpl_runs_forever)',
    'DEFAULT_MAX_STATEMENTS (1e9, used when the option is absent) is only checked to be positive; runs of that length are not executed '
    '(options without a maxStatements key are run for programs known to stop and must behave like maxStatements = 0)',
    'family tailcb (the budget expires inside a library / host call-back and nothing runs afterwards): arraySort with a compare '
    'function, arrayLastIndexOf, arrayIndexOf with a start index, the data functions and host functions that call script functions back '
    'are not in the Lean driver host - those programs are checked with the implementation-side oracles only (programs built from '
    'arrayIndexOf with 2 arguments, systemPartial, direct calls and includes are also compared with the model); arrays sorted with a '
    'compare function are never reachable from the globals (CPython empties a list while it sorts it in place and leaves a partly '
    'sorted list when the compare function raises: the property says nothing about that intermediate state); the host functions are '
    'two Python callables of the harness (hostCall: a callable object applying its first argument, hostEach: a functools.partial '
    'calling its second argument for every element inside try/finally)',
    'a witness carries the limits of the runs the check process made on the same case before the failing run (before / before_prep); '
    'replay() repeats that history in its own fresh process and then the run alone - a run that fails only after such a history '
    '(library state that survives an aborted run) is a failure of the run',
    'runs on an options object with a history are compared with the Lean answer for count = 0 (the shared driver builds the start state '
    'with count := 0; that execute gives the same answer for every other start counter is C09.own_budget, proved by rfl); runs that start '
    'from globals an earlier run left behind (script function values) are checked with the implementation-side oracles only',
    'family datax (stream data-repeated: dataFilter / dataCalculatedField / dataJoin called repeatedly in one run with absent / fresh / '
    'shared variables objects, call-backs that include, make nested data calls or run library call-backs): the data functions are '
    'neither in the Lean host nor in the reference interpreter - implementation-side oracles only (started statements counted through '
    'the log: every statement logs first, function / include statements are announced by a log statement of their own); global writes '
    'of a script included inside a data call-back with a variables argument go to the merged copy of the globals and are lost when '
    'the call ends - the oracles compare limited with unlimited runs of the same program, so this does not matter to them',
    'stream limit-forms: maxStatements given as float, Fraction, Decimal, int subclass, bool, and an options object of a dict subclass / '
    'OrderedDict are host-only values the Lean model cannot express (its limit is a Nat): implementation-side oracles only; a form is read '
    'as the int floor(value) (the statement speaks about a positive limit L; for a non-integral x "at most x statements start" is at '
    'most floor(x)), the rendering of the value inside the parentheses of the budget error (50.0, 11/2, True) is not compared; '
    '0 < x < 1 must let no statement start; 0.0, -0.0, False, Fraction(0), Decimal(0) and infinity are run on terminating programs only '
    'and must give the unlimited outcome; None, strings, NaN and negative limits are not run (the statement says nothing about them)',
    'stream limit-values: the host stack is a host resource the Lean model does not have - implementation-side oracles only; a run '
    'whose recursion does not fit the host stack still completes (RecursionError becomes null inside the call wrapper) and its '
    'outcome then depends on the number of host frames available when execute_script is called: the runs that are compared (reference '
    'under 0, the default, every limit >= N) are therefore made from one call site at one stack depth under one recursion limit (as '
    'the process has it, or set by the harness to frames-in-use + 350 / 3000 / 6000 and restored), after one warm-up run; outcomes '
    'under different headrooms are never compared with each other; that the recursion limit of the process is unchanged by '
    'execute_script is read as part of "behaves identically" (a host that runs two scripts must not find the second one in a '
    'different configuration)',
]
TRUSTED = ['reference statement interpreter with its own statement counter (props/C08.py RefStatements + includes and their name resolution), '
           'the static statement count of straight-line programs, the fully-logged '
           'program generator (an include / function statement is announced by a log statement of its own in the rinc family), '
           'the tail call-back generator (class Tail: every statement logs first, function statements first, include / function statements '
           'announced in the premarks mode), '
           'the repeated-data-call generator (datax_case: every statement logs first, include / function statements announced), the host '
           'limit forms table (LIMIT_FORMS / UNLIMITED_FORMS / BELOW_ONE_FORMS: value of each form), '
           'the limit-value driver (value_runs / run_value: one call site, host stack headroom set and restored by the harness), '
           'the logFn snapshot probe and the options-history driver (run_impl with a prep: earlier runs, copied options, stale '
           'counter; the reference run on a brand-new options dict) in harness/props/C09.py (the property oracles)']

FULLY = ('fl', 'data', 'session', 'rinc', 'tailcb', 'datax')     # families of fully-logged programs (globals snapshot at every log line; started
                                              # statements are counted through the log where case['nfun'] is not None)
CAP = 3000                      # "unlimited-ish": a program that starts more than CAP statements counts as non-terminating
CORPUS = os.path.join(os.path.dirname(os.path.dirname(os.path.abspath(__file__))), 'corpus', 'C09.jsonl')
EXCEEDED = re.compile(r'^Exceeded maximum script statements \((\d+)\)$')


# ---------------------------------------------------------------------------------------------------------------------
# fully-logged programs: every statement that can run logs a unique tag as the FIRST thing it does
#   mark            systemLog('tN')
#   wrap(e)         if(systemLog('tN'), null, e)      -- systemLog returns null, so the value is e, evaluated after the log line
# labels are only ever reached by a jump (the statement before a label always jumps), function statements come first in
# the main script: started statements = log lines + function names bound.
# ---------------------------------------------------------------------------------------------------------------------

class FL:
    def __init__(self, rng, prefix='t', allow_nonterm=False, ivar='i'):
        self.rng = rng
        self.prefix = prefix
        self.ivar = ivar              # stem of the loop variables (files that run inside each other's loops use different stems)
        self.ntag = 0
        self.nlab = 0
        self.nvar = 0
        self.funcs = []          # (name, nparams)
        self.kinds = set()
        self.allow_nonterm = allow_nonterm
        self.nonterm = False

    def mark(self):
        self.ntag += 1
        return f"systemLog('{self.prefix}{self.ntag}')"

    def wrap(self, expr):
        return f'if({self.mark()}, null, {expr})'

    def label(self, stem):
        self.nlab += 1
        return f'{stem}{self.prefix}{self.nlab}'

    def value(self, names, depth=0):
        rng = self.rng
        r = rng.random()
        if r < 0.3 or depth > 1:
            return rng.choice(names) if names and rng.random() < 0.6 else str(rng.randint(0, 5))
        if r < 0.55:
            return f'{self.value(names, depth + 1)} {rng.choice(["+", "-"])} {rng.randint(1, 3)}'
        if r < 0.75 and self.funcs:
            name, nparams = rng.choice(self.funcs)
            self.kinds.add('call')
            return f'{name}({", ".join(self.value(names, depth + 1) for _ in range(nparams))})'
        if r < 0.85:
            return f'arrayLength(arrayNew({", ".join(str(rng.randint(0, 3)) for _ in range(rng.randint(0, 3)))}))'
        return rng.choice(names) if names else '1'

    def cond(self, names):
        v = self.rng.choice(names) if names else '1'
        return self.rng.choice([f'{v} < {self.rng.randint(0, 4)}', f'{v} != {self.rng.randint(0, 2)}', v, f'!{v}'])

    def block(self, out, pad, depth, names, in_func, n=None):
        rng = self.rng
        for _ in range(rng.randint(1, 4) if n is None else n):
            r = rng.random()
            if r < 0.30 or depth >= 3:
                v = rng.choice(['a', 'b', 'c'])
                out.append(f'{pad}{v} = {self.wrap(self.value(names))}')
                if v not in names:
                    names = names + [v]
            elif r < 0.42:
                out.append(pad + self.mark())
            elif r < 0.60:
                self.kinds.add('if')
                le, lx = self.label('LE'), self.label('LX')
                out.append(f'{pad}jumpif ({self.wrap("!(" + self.cond(names) + ")")}) {le}')
                self.block(out, pad + '    ', depth + 1, names, in_func)
                out.append(f'{pad}jumpif ({self.wrap("true")}) {lx}')
                out.append(f'{pad}{le}:')
                if rng.random() < 0.6:
                    self.block(out, pad + '    ', depth + 1, names, in_func)
                out.append(f'{pad}jumpif ({self.wrap("true")}) {lx}')
                out.append(f'{pad}{lx}:')
            elif r < 0.78:
                self.kinds.add('loop')
                self.nvar += 1
                i = f'{self.ivar}{self.nvar}'
                lt, ld = self.label('LT'), self.label('LD')
                endless = self.allow_nonterm and not in_func and rng.random() < 0.08
                if endless:
                    self.nonterm = True
                    self.kinds.add('endless')
                out.append(f'{pad}{i} = {self.wrap("0")}')
                out.append(f'{pad}jumpif ({self.wrap("true")}) {lt}')
                out.append(f'{pad}{lt}:')
                test = 'false' if endless else f'!({i} < {rng.randint(1, 4)})'
                out.append(f'{pad}jumpif ({self.wrap(test)}) {ld}')
                self.block(out, pad + '    ', depth + 1, names + [i], in_func)
                out.append(f'{pad}    {i} = {self.wrap(i + " + 1")}')
                out.append(f'{pad}jumpif ({self.wrap("true")}) {lt}')
                out.append(f'{pad}{ld}:')
            elif r < 0.88 and any(f[0] == 'pd' for f in self.funcs):
                self.kinds.add('callback')
                arr = f'arrayNew({", ".join(str(rng.randint(0, 3)) for _ in range(rng.randint(1, 4)))})'
                pred = rng.choice(['pd', f'systemPartial(pq, {rng.randint(0, 3)})'])
                if 'Partial' in pred:
                    self.kinds.add('partial')
                out.append(f'{pad}r = {self.wrap(f"arrayIndexOf({arr}, {pred})")}')
            elif r < 0.94 and any(f[0] == 'rc' for f in self.funcs):
                self.kinds.add('recursion')
                out.append(f'{pad}r = {self.wrap(f"rc({rng.randint(0, 12)})")}')
            elif in_func and r < 0.97:
                self.kinds.add('return')
                out.append(f'{pad}return {self.wrap(self.value(names))}')
            else:
                out.append(pad + self.mark())
        return names

    def function(self, out, name, params, body_fn):
        out.append(f'function {name}({", ".join(params)}):')
        body_fn(out, '    ', list(params))
        out.append('endfunction')
        self.funcs.append((name, len(params)))

    def program(self):
        """-> (text lines, number of function statements at the top)"""
        rng = self.rng
        out = []
        nfun = 0
        if rng.random() < 0.7:
            def pd_body(o, pad, names):
                o.append(pad + self.mark())
                o.append(f'{pad}return {self.wrap("v == " + str(rng.randint(0, 4)))}')
            self.function(out, 'pd', ['v'], pd_body)

            def pq_body(o, pad, names):
                o.append(f'{pad}return {self.wrap("v == t")}')
            self.function(out, 'pq', ['t', 'v'], pq_body)
            nfun += 2
        if rng.random() < 0.5:
            def rc_body(o, pad, names):
                o.append(pad + self.mark())
                lx = self.label('LX')
                o.append(f'{pad}jumpif ({self.wrap("!(n > 0)")}) {lx}')
                o.append(f'{pad}    m = {self.wrap("rc(n - 1)")}')
                o.append(f'{pad}jumpif ({self.wrap("true")}) {lx}')
                o.append(f'{pad}{lx}:')
                o.append(f'{pad}return {self.wrap("n")}')
            self.function(out, 'rc', ['n'], rc_body)
            nfun += 1
        for name in ['fa', 'fb'][:rng.randint(0, 2)]:
            params = ['p', 'q'][:rng.randint(0, 2)]
            self.function(out, name, params, lambda o, pad, names: self.block(o, pad, 1, names, True))
            nfun += 1
        self.block(out, '', 0, ['a', 'b'], False, rng.randint(2, 6))
        return out, nfun


def fl_case(rng):
    gen = FL(rng, allow_nonterm=True)
    lines, nfun = gen.program()
    return {'family': 'fl', 'text': '\n'.join(lines), 'files': None, 'globals': {'a': 0, 'b': 2}, 'nfun': nfun,
            'tags': sorted(gen.kinds) + (['nonterm'] if gen.nonterm else [])}


def include_case(rng):
    """main -> a.bare -> b.bare (nested), c.bare included twice; sometimes a missing or a broken file"""
    files = {}
    kinds = set()
    for name, prefix, child in [('b.bare', 'tb', None), ('a.bare', 'ta', 'b.bare'), ('c.bare', 'tc', None)]:
        gen = FL(rng, prefix=prefix)
        out = []
        gen.block(out, '', 1, ['a', 'b'], False, rng.randint(1, 3))
        if child is not None:
            out.insert(rng.randint(0, len(out)), f"include '{child}'")
        if rng.random() < 0.3:
            out.append(f'function f{prefix}():')
            out.append(f"    return {gen.wrap('1')}")
            out.append('endfunction')
            out.append(f'z = {gen.wrap(f"f{prefix}()")}')
        if rng.random() < 0.15:
            out.append(f'return {gen.wrap("1")}')          # return ends only the included script
            out.append(gen.mark())
            kinds.add('include-return')
        files[name] = '\n'.join(out)
        kinds |= gen.kinds
    gen = FL(rng, prefix='tm')
    out = []
    gen.block(out, '', 0, ['a', 'b'], False, rng.randint(1, 3))
    incs = ["include 'a.bare'", "include 'c.bare'"]
    r = rng.random()
    if r < 0.12:
        incs.append("include 'missing.bare'")
        kinds.add('missing')
    elif r < 0.24:
        files['broken.bare'] = 'a = 1 +\n'
        incs.append("include 'broken.bare'")
        kinds.add('broken')
    elif r < 0.5:
        incs.append("include 'c.bare'")
        kinds.add('twice')
    for inc in incs:
        out.insert(rng.randint(0, len(out)), inc)
    gen.block(out, '', 0, ['a', 'b'], False, rng.randint(0, 2))
    return {'family': 'include', 'text': '\n'.join(out), 'files': files, 'globals': {'a': 1, 'b': 0}, 'nfun': None,
            'tags': ['include'] + sorted(kinds | gen.kinds)}


def partial_case(rng):
    """Function values that outlive the include that created them: an included script runs on a private copy of the options, so a
    partial (or a plain function value, a partial of a partial, a partial used as a call-back) made INSIDE an included file and
    called LATER from the including script must still count its statements on the one live counter."""
    gi = FL(rng, prefix='ti')
    inc = ['function ff(t, v):', '    ' + gi.mark()]
    if rng.random() < 0.5:
        inc.append(f'    w = {gi.wrap("t + v")}')
    inc += [f'    return {gi.wrap("v == t")}', 'endfunction',
            f'pp = {gi.wrap("systemPartial(ff, " + str(rng.randint(0, 3)) + ")")}',
            f'gg = {gi.wrap("ff")}',
            f'qq = {gi.wrap("systemPartial(pp, " + str(rng.randint(0, 3)) + ")")}']
    if rng.random() < 0.5:
        inc.append(f'r0 = {gi.wrap("pp(1)")}')
    files = {'inc.bare': '\n'.join(inc)}
    tags = {'partial-after-include'}
    first = 'inc.bare'
    if rng.random() < 0.4:
        tags.add('nested')
        ga = FL(rng, prefix='ta')
        mid = []
        ga.block(mid, '', 1, ['a', 'b'], False, 1)
        mid.insert(rng.randint(0, len(mid)), "include 'inc.bare'")
        if rng.random() < 0.5:
            mid.append(f'r1 = {ga.wrap("qq()")}')
        files['mid.bare'] = '\n'.join(mid)
        first = 'mid.bare'
    gm = FL(rng, prefix='tm')
    out = []
    if rng.random() < 0.4:
        gm.block(out, '', 1, ['a', 'b'], False, 1)
    out.append(f"include '{first}'")
    calls = ['pp({n})', 'gg({n}, {m})', 'qq()', 'arrayIndexOf(arrayNew({n}, {m}, 1), pp)',
             'arrayIndexOf(arrayNew({n}, {m}), systemPartial(gg, {n}))', 'pp(qq())']
    for _ in range(rng.randint(2, 6)):
        text = rng.choice(calls).format(n=rng.randint(0, 3), m=rng.randint(0, 3))
        out.append(f'r = {gm.wrap(text)}')
        if rng.random() < 0.3:
            gm.block(out, '', 1, ['a', 'b', 'r'], False, 1)
    return {'family': 'partial', 'text': '\n'.join(out), 'files': files, 'globals': {'a': 0, 'b': 1}, 'nfun': None,
            'tags': sorted(tags | gm.kinds)}


# ---------------------------------------------------------------------------------------------------------------------
# the SAME include executed several times in one run (family 'rinc')
#   host:   systemPrefix absent / '' / a directory / a file in a directory (system files live in that directory, plain files
#           in the root; every file has its own base name, so the model's flat file map is the map by base name)
#   files:  1-3 library scripts u1..u3 (system <uN.bare> or plain 'uN.bare'; empty, comment-only, fully-logged statements, a
#           function + call, an early return; a library may include an earlier one = diamond), wrappers wa/wb that include them
#   main:   1-2 shapes, each executing the hot include 2+ times with statements in between
#   every statement logs first (FL); an include statement and a function statement cannot, so each is preceded by the statement
#   systemLog('>'): started statements = log lines + lines '>' (case['premarks']; not with while/for, whose loop statements do not log)
# ---------------------------------------------------------------------------------------------------------------------

RINC_PREFIXES = [None, '', '', 'sys/', 'sys/', 'sys/', 'lib/x/', 'sys/index.bare']
RINC_SHAPES = ['straight', 'wrappers', 'diamond', 'jump-loop', 'while', 'for', 'function', 'callback', 'recursion', 'same-statement',
               'tail-empty']
PRE = "systemLog('>')"            # logged right before every statement that cannot log by itself (include, function)
RINC_EMPTY = ['', '\n', '# nothing here yet\n\n# (placeholder for site-specific overrides)\n', '    \n# one comment']


def sys_dir(prefix):
    return '' if not prefix else prefix[:prefix.rfind('/') + 1]


def rinc_case(rng, shapes=None, prefix='?'):
    if prefix == '?':
        prefix = rng.choice(RINC_PREFIXES)
    sysdir = sys_dir(prefix)
    files, kinds = {}, set()
    libs = []                    # (include line, system?, 'empty' | 'code')

    def inc(*which, pad=''):
        """one include statement (consecutive include lines are ONE statement) with its log line"""
        return [pad + PRE] + [pad + lib[0] for lib in which]

    def add_lib(name, system, empty):
        ix = len(libs) + 1
        gen = FL(rng, prefix=f'u{ix}x', ivar=f'j{ix}x')
        out = []
        if empty:
            text = rng.choice(RINC_EMPTY)
            kinds.add('empty-include' if not text.strip() else 'comment-only-include')
        else:
            gen.block(out, '', 2, ['a', 'b'], False, rng.randint(1, 3))
            if rng.random() < 0.5:
                out.insert(rng.randint(0, len(out)), f'uc = {gen.wrap("uc + 1")}')
            if rng.random() < 0.2:
                out += [PRE, f'function fu{ix}(v):', f"    return {gen.wrap('v + 1')}", 'endfunction', f'z = {gen.wrap(f"fu{ix}(uc)")}']
                kinds.add('function-in-include')
            if rng.random() < 0.12:
                out += [f'return {gen.wrap("1")}', gen.mark()]            # return ends only the included script
                kinds.add('include-return')
            # a library that includes an earlier one (diamond); a system file names its neighbours, a root file names root files
            cands = [lib for lib in libs if lib[1] or not system or sysdir == '']
            if cands and rng.random() < 0.4:
                pos = rng.randint(0, len(out))
                while pos > 0 and out[pos - 1] == PRE:
                    pos -= 1
                out[pos:pos] = inc(rng.choice(cands))
                kinds.add('lib-includes-lib')
            text = '\n'.join(out)
            kinds.update(gen.kinds)
        files[(sysdir if system else '') + name] = text
        lib = (f'include <{name}>' if system else f"include '{name}'", system, 'empty' if empty else 'code')
        libs.append(lib)
        return lib

    for ix in range(rng.choice([1, 1, 2, 2, 3])):
        add_lib(f'u{ix + 1}.bare', rng.random() < 0.7, rng.random() < 0.15)
    hot = rng.choice([lib for lib in libs if lib[1]] or libs)            # the include that is executed again and again
    kinds.add('hot-system' if hot[1] else 'hot-plain')
    if hot[1]:
        kinds.add('prefix:' + ('none' if prefix is None else 'flat' if sysdir == '' else 'dir'))
    gm = FL(rng, prefix='tm')
    head, out = [], []
    names = ['a', 'b', 'uc']

    def between(lo=1):
        nonlocal names
        r = rng.random()
        if r < 0.5:
            for _ in range(rng.randint(lo, 3)):
                out.append(gm.mark())
        elif r < 0.8:
            out.append(f'a = {gm.wrap(gm.value(names))}')
            out.append(gm.mark())
        else:
            names = gm.block(out, '', 2, names, False, rng.randint(max(lo, 1), 2))

    def wrapper(name, tag, incs, tail):
        gen = FL(rng, prefix=tag, ivar=tag + 'i')
        body = []
        if rng.random() < 0.6:
            body.append(gen.mark())
        for pos, lib in enumerate(incs):
            body += inc(lib)
            if pos + 1 < len(incs) or not tail:
                body.append(gen.mark())
        files[name] = '\n'.join(body)
        return (f"include '{name}'", False, 'code')

    def other():
        return rng.choice(libs)

    for shape in (shapes or rng.sample(RINC_SHAPES, rng.choice([1, 1, 2]))):
        kinds.add('shape:' + shape)
        if rng.random() < 0.6:
            between()
        if shape == 'straight':
            for _ in range(rng.choice([2, 2, 3])):
                out += inc(hot)
                between()
        elif shape == 'wrappers':                    # the same include from two different included scripts
            wa = wrapper('wa.bare', 'wa', [hot], rng.random() < 0.3)
            wb = wrapper('wb.bare', 'wb', [hot] if rng.random() < 0.7 else [other(), hot], rng.random() < 0.3)
            out += inc(wa)
            between()
            out += inc(wb)
            if rng.random() < 0.3:
                between()
                out += inc(wa)
        elif shape == 'diamond':                     # directly and through an included script
            wd = wrapper('wd.bare', 'wd', [hot], rng.random() < 0.3)
            order = [hot, wd] if rng.random() < 0.6 else [wd, hot]
            out += inc(order[0])
            between()
            out += inc(order[1])
        elif shape == 'jump-loop':
            gm.nvar += 1
            i, lt, ld = f'i{gm.nvar}', gm.label('LT'), gm.label('LD')
            out += [f'{i} = {gm.wrap("0")}', f'jumpif ({gm.wrap("true")}) {lt}', f'{lt}:',
                    f'jumpif ({gm.wrap(f"!({i} < {rng.randint(2, 4)})")}) {ld}']
            if rng.random() < 0.5:
                out.append('    ' + gm.mark())
            out += inc(hot, pad='    ')
            if rng.random() < 0.5:
                out.append('    ' + gm.mark())
            out += [f'    {i} = {gm.wrap(i + " + 1")}', f'jumpif ({gm.wrap("true")}) {lt}', f'{ld}:']
        elif shape == 'while':
            gm.nvar += 1
            i = f'i{gm.nvar}'
            out += [f'{i} = {gm.wrap("0")}', f'while {gm.wrap(f"{i} < {rng.randint(2, 4)}")}:']
            if rng.random() < 0.5:
                out.append('    ' + gm.mark())
            out += inc(hot, pad='    ')
            if rng.random() < 0.3:
                out += [f'    if {gm.wrap(i + " == 1")}:'] + inc(other(), pad='        ') + ['    endif']
            out += [f'    {i} = {gm.wrap(i + " + 1")}', 'endwhile']
        elif shape == 'for':
            gm.nvar += 1
            arr = 'arrayNew(' + ', '.join(str(rng.randint(0, 3)) for _ in range(rng.randint(2, 4))) + ')'
            out.append(f'for v{gm.nvar} in {gm.wrap(arr)}:')
            out += inc(hot, pad='    ') if rng.random() < 0.7 else inc(hot, other(), pad='    ')
            out += ['    ' + gm.mark(), 'endfor']
        elif shape == 'function':                    # inside a function that is called repeatedly
            head += [PRE, 'function fi(n):']
            if rng.random() < 0.5:
                head.append('    ' + gm.mark())
            head += inc(hot, pad='    ') + [f'    return {gm.wrap("n + uc")}', 'endfunction']
            for _ in range(rng.choice([2, 2, 3])):
                out.append(f'r = {gm.wrap(f"fi({rng.randint(0, 3)})")}')
                if rng.random() < 0.7:
                    between()
        elif shape == 'callback':                    # inside a predicate a library function calls back
            head += [PRE, 'function fp(v):'] + inc(hot, pad='    ') + [f'    return {gm.wrap("v == " + str(rng.randint(0, 3)))}', 'endfunction']
            arr = 'arrayNew(' + ', '.join(str(rng.randint(0, 3)) for _ in range(rng.randint(2, 4))) + ')'
            pred = rng.choice(['fp', 'fp', 'systemPartial(fq, 1)'])
            if 'fq' in pred:
                head += [PRE, 'function fq(t, v):'] + inc(hot, pad='    ') + [f'    return {gm.wrap("v == t")}', 'endfunction']
            out.append(f'r = {gm.wrap(f"arrayIndexOf({arr}, {pred})")}')
            if rng.random() < 0.5:
                out += inc(hot)
        elif shape == 'recursion':
            lx = gm.label('LX')
            head += [PRE, 'function fr(n):'] + inc(hot, pad='    ') + [f'    jumpif ({gm.wrap("!(n > 0)")}) {lx}',
                     f'        m = {gm.wrap("fr(n - 1)")}', f'    jumpif ({gm.wrap("true")}) {lx}', f'    {lx}:',
                     f'    return {gm.wrap("n")}', 'endfunction']
            out.append(f'r = {gm.wrap(f"fr({rng.randint(1, 3)})")}')
        elif shape == 'same-statement':              # consecutive include lines are ONE include statement
            out += inc(hot, other(), hot) if rng.random() < 0.5 else inc(hot, hot)
            between()
            out += inc(hot)
        elif shape == 'tail-empty':                  # an include that starts no statement as the LAST thing the budget allows
            empty = add_lib(f'u{len(libs) + 1}.bare', rng.random() < 0.6, True)
            out += inc(hot)
            between()
            r = rng.random()
            if r < 0.3:
                out += inc(empty)
            elif r < 0.55:
                out += inc(hot, empty)                                    # the last script of a multi-script include statement
            elif r < 0.8:
                out += inc(wrapper('we.bare', 'we', [hot, empty] if rng.random() < 0.5 else [empty], True))
            else:
                out += inc(empty) + [gm.mark()]
            break
    if 'shape:tail-empty' not in kinds and rng.random() < 0.7:
        between()
    case = {'family': 'rinc', 'text': '\n'.join(head + out), 'files': files, 'globals': {'a': 0, 'b': 1, 'uc': 0}, 'nfun': None,
            'premarks': not kinds & {'shape:while', 'shape:for'}, 'tags': ['rinc'] + sorted(kinds | gm.kinds)}
    if prefix is not None:
        case['systemPrefix'] = prefix
    return case


def rinc_directed():
    """hand-built minimal members of the family (always run) + the call-back recursion a library function cannot leave by itself"""
    util = "systemLog('u1')\nuc = if(systemLog('u2'), null, uc + 1)"
    g = {'uc': 0}
    cases = []

    def add(tag, text, files, prefix='sys/'):
        cases.append({'family': 'rinc', 'text': text, 'files': files, 'globals': dict(g), 'nfun': None, 'tags': ['rinc', 'directed', tag],
                      'systemPrefix': prefix})
    for prefix, d in [('sys/', 'sys/'), ('', '')]:
        add('straight', "systemLog('m1')\ninclude <util.bare>\nsystemLog('m2')\nsystemLog('m3')\ninclude <util.bare>\nsystemLog('m4')",
            {d + 'util.bare': util}, prefix)
        add('diamond', "systemLog('m1')\ninclude <util.bare>\nsystemLog('m2')\ninclude 'a.bare'\nsystemLog('m3')\nsystemLog('m4')\nsystemLog('m5')",
            {d + 'util.bare': util, 'a.bare': "systemLog('a1')\ninclude <util.bare>\nsystemLog('a2')"}, prefix)
        add('wrappers', "systemLog('m1')\ninclude 'b.bare'\nsystemLog('m2')\nsystemLog('m3')\ninclude 'a.bare'\nsystemLog('m4')\nsystemLog('m5')",
            {d + 'util.bare': util, 'a.bare': "systemLog('a1')\ninclude <util.bare>\nsystemLog('a2')",
             'b.bare': "include <util.bare>\nsystemLog('b1')"}, prefix)
        add('while', "ix = 0\nwhile ix < 4:\n    include <tick.bare>\n    ix = ix + 1\nendwhile\nsystemLog('m1')",
            {d + 'tick.bare': "systemLog('tick')"}, prefix)
        add('function', "function ff(n):\n    include <util.bare>\n    return n + uc\nendfunction\nr = ff(1)\nsystemLog('m1')\nr = ff(2)\n"
            "r = arrayIndexOf(arrayNew(5, 6, 7), ff)\nsystemLog('m2')", {d + 'util.bare': util}, prefix)
        add('lib-includes-lib', "include <v.bare>\nsystemLog('m1')\nsystemLog('m2')\ninclude <util.bare>\ninclude <v.bare>\nsystemLog('m3')",
            {d + 'util.bare': util, d + 'v.bare': "systemLog('v1')\ninclude <util.bare>\nsystemLog('v2')"}, prefix)
    add('plain-twice', "systemLog('m1')\ninclude 'tick.bare'\nsystemLog('m2')\ninclude 'tick.bare'\nsystemLog('m3')", {'tick.bare': "systemLog('tick')"}, None)
    cases[-1].pop('systemPrefix')
    notes = '# Nothing here yet\n\n# (placeholder for site-specific overrides)\n'
    lib = "systemLog('lib 1')\nlibValue = 7\n"
    for tag, text, files in [
            ('comment-only-last', "systemLog('start')\ninclude 'lib.bare'\nsystemLog('mid')\ninclude 'notes.bare'\n", {'lib.bare': lib, 'notes.bare': notes}),
            ('empty-middle', "systemLog('start')\ninclude 'empty.bare'\nsystemLog('end')\n", {'empty.bare': ''}),
            ('nested-comment-only-last', "systemLog('start')\ninclude 'outer.bare'\n",
             {'outer.bare': "systemLog('outer 1')\ninclude 'notes.bare'\n", 'notes.bare': notes}),
            ('multi-include-last-empty', "systemLog('start')\ninclude 'lib.bare'\ninclude 'empty.bare'\n", {'lib.bare': lib, 'empty.bare': ''}),
            ('system-empty-last-twice', "include <empty.bare>\nsystemLog('start')\ninclude <empty.bare>\n", {'sys/empty.bare': ''}),
            ('only-empty-includes', "include <empty.bare>\ninclude 'notes.bare'\n", {'sys/empty.bare': '', 'notes.bare': notes})]:
        add(tag, text, files)
    cases.append({'family': 'hostrec', 'nomodel': True, 'limits': [0, 4, 5, 100], 'files': None, 'globals': {}, 'nfun': None,
                  'text': "a = arrayNew()\np = systemPartial(arrayIndexOf, a)\narrayPush(a, p)\nr = arrayIndexOf(a, p)\nreturn r",
                  'tags': ['directed', 'library-call-back-recursion-ended-by-the-host']})
    return cases


def gen_case(rng):
    gen = progen.Gen(rng, max_depth=rng.choice([2, 3, 4]))
    prog = gen.program()
    return {'family': 'gen', 'text': '\n'.join(progen.render(prog)), 'files': None, 'globals': progen.random_globals(rng), 'nfun': None,
            'tags': sorted(k for k in gen.stats if k in ('while', 'for', 'if', 'funcdef', 'call-script', 'break', 'continue', 'return'))}


DATA_TEMPLATES = [
    "r = {w}dataFilter(d, 'ff(x)', objectNew('k', 1)){e}",
    "r = {w}dataCalculatedField(d, 'y', 'ff(x)', objectNew('k', 1)){e}",
    "r = {w}dataJoin(d, d, 'ff(x)', null, false, objectNew('k', 1)){e}",
    "r = {w}dataJoin(d, d, 'x', 'ff(x)', true, objectNew('k', 1)){e}",
    "r = {w}dataFilter(d, 'ff(x)'){e}",
    "r = {w}dataCalculatedField(d, 'y', 'ff(x) + k', objectNew('k', 1)){e}",
]


def data_case(rng):
    """script functions called back from the data functions through an expression string (implementation only)"""
    gen = FL(rng)
    out = ['function ff(v):', '    ' + gen.mark(), f'    return {gen.wrap("v > " + str(rng.randint(0, 3)))}', 'endfunction']
    rows = ', '.join(f"objectNew('x', {rng.randint(0, 4)})" for _ in range(rng.randint(1, 4)))
    out.append(f'd = {gen.wrap(f"arrayNew({rows})")}')
    for _ in range(rng.randint(1, 3)):
        tmpl = rng.choice(DATA_TEMPLATES)
        out.append(tmpl.format(w=f'if({gen.mark()}, null, ', e=')'))
        out.append(gen.mark())
    return {'family': 'data', 'text': '\n'.join(out), 'files': None, 'globals': {}, 'nfun': 1, 'tags': ['data']}


def session_case(rng):
    """Two scripts of one host session that share the globals: the first (case['warm']) defines fully-logged script functions,
    function values and partials and leaves them in the globals; the second (case['text']) has no function statement and only
    calls them - directly, recursively, as call-backs of library functions, through partials.  Every statement of the second run
    logs first, so its started statements = its log lines, whatever options object (the first run's, a copy, a new one) it uses."""
    g1 = FL(rng, prefix='u')
    first = []
    g1.function(first, 'pd', ['v'], lambda o, pad, names: o.extend([pad + g1.mark(), f'{pad}return {g1.wrap("v == " + str(rng.randint(0, 4)))}']))
    g1.function(first, 'pq', ['t', 'v'], lambda o, pad, names: o.append(f'{pad}return {g1.wrap("v == t")}'))

    def rc_body(o, pad, names):
        o.append(pad + g1.mark())
        o.append(f'{pad}jumpif ({g1.wrap("!(n > 0)")}) LXu')
        o.append(f'{pad}    m = {g1.wrap("rc(n - 1)")}')
        o.append(f'{pad}jumpif ({g1.wrap("true")}) LXu')
        o.append(f'{pad}LXu:')
        o.append(f'{pad}return {g1.wrap("n")}')
    g1.function(first, 'rc', ['n'], rc_body)
    g1.function(first, 'fa', ['p', 'q'], lambda o, pad, names: g1.block(o, pad, 1, names, True))
    first.append(f'pp = {g1.wrap("systemPartial(pq, " + str(rng.randint(0, 3)) + ")")}')
    first.append(f'gg = {g1.wrap("fa")}')
    if rng.random() < 0.5:
        g1.block(first, '', 1, ['a', 'b'], False, rng.randint(1, 2))
    g2 = FL(rng, prefix='t', allow_nonterm=True)
    g2.funcs = [('pd', 1), ('pq', 2), ('rc', 1), ('fa', 2)]
    out = []
    calls = ['pp({n})', 'gg({n}, {m})', 'rc({n})', 'arrayIndexOf(arrayNew({n}, {m}, 1), pp)', 'arrayIndexOf(arrayNew({n}, {m}), pd)',
             'arrayIndexOf(arrayNew({n}, {m}), systemPartial(gg, {n}))']
    for _ in range(rng.randint(1, 4)):
        text = rng.choice(calls).format(n=rng.randint(0, 3), m=rng.randint(0, 3))
        out.append(f'r = {g2.wrap(text)}')
        if rng.random() < 0.5:
            g2.block(out, '', 1, ['a', 'b', 'r'], False, rng.randint(1, 2))
    warm = [['case', CAP]]
    if rng.random() < 0.3:
        warm.append(['self', rng.choice([2, 6, CAP])])
    prep = {'warm': warm, 'globals': 'keep', 'debug': rng.random() < 0.1, 'stale': rng.choice(STALE) if rng.random() < 0.2 else None,
            'copy': rng.random() < 0.2}
    return {'family': 'session', 'text': '\n'.join(out), 'warm': '\n'.join(first), 'files': None, 'globals': {'a': 0, 'b': 2}, 'nfun': 0,
            'preps': [prep], 'tags': ['session'] + sorted(g2.kinds) + (['nonterm'] if g2.nonterm else [])}


# ---------------------------------------------------------------------------------------------------------------------
# data functions called REPEATEDLY in one run, crossed with what their call-backs do (family 'datax', implementation only)
#   A data function that gets a variables argument evaluates its expression on a COPY of the options (merged globals); the
#   statements its call-backs start are counted on the copy and carried back when the call ends.  Whatever that copy holds -
#   a counter, a reference to the caller's options - must never outlive the call, and an include statement / a nested data call
#   / a library call-back executed INSIDE the call-back must count on the live counter of the copy.  The family crosses
#     vars   - none / a fresh objectNew(...) per call / ONE variables object passed to every call (aliasing: the same object
#              twice) / two shared objects in random order (A B A, A A B ...) / one shared EMPTY object / a mix
#     body   - what the script function named in the expression does: plain / an include statement / a call of a function whose
#              body has an include statement / a nested data call (same or other variables object) / a library call-back
#              (arrayIndexOf with a script predicate that may include) / an include of a script that calls a data function
#     expr   - ff(x) / ff(x + k) / no call at all (x > k) / a library call-back inside the expression
#     shape  - how the call is repeated: straight-line with 0-2 statements between the calls / in a jump-level loop (also an
#              endless one) / inside a function called repeatedly / inside a match function / in a recursive function
#     scale  - rows 0,1,2,3,9,10,11,16,17 (thorough: 64,65), calls 1,2,3,9,10,11,16,17,64,65,100,101,128,129 (256, 1000 thorough)
#              as far as the run stays below the cap
#   Every statement logs first; function and include statements are announced by systemLog('>') (premarks): started statements
#   are counted through the log.  dataFilter / dataCalculatedField / dataJoin are not in the Lean host and not in the reference
#   interpreter: implementation-side oracles only.
# ---------------------------------------------------------------------------------------------------------------------

DATAX_SHAPES = ['straight', 'straight', 'jump-loop', 'jump-loop', 'function', 'callback', 'recursion']
DATAX_BODIES = ['plain', 'include', 'include-via-call', 'nested-data', 'library-callback', 'include-nested-data']
DATAX_VARS = ['none', 'inline', 'shared', 'shared', 'shared-two', 'shared-empty', 'mixed']
DATAX_EXPRS = ['call', 'call', 'call-k', 'no-call', 'library']
DATAX_FUNCS = ['filter', 'calc', 'join-left', 'join-right']
SCALE = [0, 1, 2, 9, 10, 11, 16, 17, 64, 65, 100, 101, 128, 129, 256, 1000]


def data_call(rng, which, data, expr, var):
    tail = '' if var is None else ', ' + var
    if which == 'filter':
        return f"dataFilter({data}, '{expr}'{tail})"
    if which == 'calc':
        return f"dataCalculatedField({data}, 'y', '{expr}'{tail})"
    flag = rng.choice(['true', 'false'])
    if which == 'join-left':
        return f"dataJoin({data}, {data}, '{expr}'" + (rng.choice([')', f', null, {flag})']) if var is None else f', null, {flag}, {var})')
    return f"dataJoin({data}, {data}, 'x', '{expr}', {flag}{tail})"


def datax_case(rng, shape=None, body=None, vmode=None, expr=None, ncalls=None, nrows=None, endless=False, big=False):
    shape = shape or rng.choice(DATAX_SHAPES)
    body = body or rng.choice(DATAX_BODIES)
    vmode = vmode or rng.choice(DATAX_VARS)
    gen = FL(rng, prefix='t')
    head, files, kinds = [], {}, set()
    defined = set()
    if nrows is None:
        nrows = rng.choice([0, 1, 1, 2, 2, 3, 3, 9] if not big else [1, 2, 10, 11, 16, 17])
    if ncalls is None:
        ncalls = rng.choice([1, 2, 2, 2, 3, 3, 4])
    tags = ['datax', 'shape:' + shape, 'body:' + body, 'vars:' + vmode, f'rows:{nrows}', f'calls:{ncalls}']

    def define(name, params, lines):
        if name not in defined:
            defined.add(name)
            head.extend([PRE, f'function {name}({", ".join(params)}):'] + ['    ' + line for line in lines] + ['endfunction'])
        return name

    def rows(n):
        return 'arrayNew(' + ', '.join(f"objectNew('x', {rng.randint(0, 4)})" for _ in range(n)) + ')'

    def pick_var(mode=None):
        mode = mode or vmode
        if mode == 'mixed':
            mode = rng.choice(['none', 'inline', 'shared', 'shared', 'shared-empty'])
        if mode == 'none':
            return None
        if mode == 'inline':
            return f"objectNew('k', {rng.randint(0, 2)})"
        if mode == 'shared-two':
            return rng.choice(['vv', 'vw'])
        return 've' if mode == 'shared-empty' else 'vv'

    def simple(g, lo, hi):
        lines = []
        for _ in range(rng.randint(lo, hi)):
            lines.append(g.mark() if rng.random() < 0.6 else f'{rng.choice(["a", "b", "uc"])} = {g.wrap(g.value(["a", "b", "uc"], 1))}')
        return lines

    def include_lines(with_data=False):
        if 'u.bare' not in files:
            gu = FL(rng, prefix='u')
            text = simple(gu, 0 if with_data else 1, 2)
            if with_data:
                define('gg', ['v'], [gen.mark(), f'return {gen.wrap("v > 1")}'])
                text.insert(rng.randint(0, len(text)), f'w = {gu.wrap(data_call(rng, rng.choice(DATAX_FUNCS), "d2", "gg(x)", pick_var()))}')
                if rng.random() < 0.5:
                    text += simple(gu, 1, 1)
            files['u.bare'] = '\n'.join(text)
        return [PRE, "include 'u.bare'"]

    def callback(name, param, test, kind):
        """a script function for a data expression / a match function: logs, does `kind`, returns `test`"""
        lines = [gen.mark()] if rng.random() < 0.7 else []
        if kind == 'include':
            lines += include_lines()
        elif kind == 'include-nested-data':
            lines += include_lines(True)
        elif kind == 'include-via-call':
            define('fi', ['n'], ([gen.mark()] if rng.random() < 0.5 else []) + include_lines() + [f'return {gen.wrap("n")}'])
            lines.append(f'w = {gen.wrap(f"fi({param})")}')
        elif kind == 'nested-data':
            define('gg', ['v'], [gen.mark(), f'return {gen.wrap("v > 1")}'])
            lines.append(f'w = {gen.wrap(data_call(rng, rng.choice(DATAX_FUNCS), "d2", "gg(x)", pick_var()))}')
        elif kind == 'library-callback':
            inner = rng.choice(['plain', 'plain', 'include'])
            kinds.add('predicate:' + inner)
            callback('pd', 'v', 'v == 9', inner)
            lines.append(f'w = {gen.wrap(f"arrayIndexOf(arrayNew({param}, 1, 2), pd)")}')
        if rng.random() < 0.3:
            lines.append(gen.mark())
        lines.append(f'return {gen.wrap(test)}')
        return define(name, [param], lines)

    callback('ff', 'v', f'v > {rng.randint(0, 3)}', body)
    vv, vw = gen.wrap("objectNew('k', 1)"), gen.wrap("objectNew('k', 2)")
    setup = [f'd = {gen.wrap(rows(nrows))}', f'd2 = {gen.wrap(rows(rng.randint(1, 2)))}', f'vv = {vv}', f'vw = {vw}',
             f've = {gen.wrap("objectNew()")}']

    def site():
        kind = expr or rng.choice(DATAX_EXPRS)
        kinds.add('expr:' + kind)
        if kind == 'call':
            text = 'ff(x)'
        elif kind == 'call-k':
            text = 'ff(x + k)'
        elif kind == 'no-call':
            text = 'x > k'
        else:
            callback('pl', 'v', 'v == 9', 'plain')
            text = 'arrayIndexOf(arrayNew(x, 1), pl) >= 0 || ff(x)'
        which = rng.choice(DATAX_FUNCS)
        kinds.add('fn:' + which)
        return f'r = {gen.wrap(data_call(rng, which, "d", text, pick_var()))}'

    out = []
    if shape == 'straight':
        for _ in range(ncalls):
            out.append(site())
            out += simple(gen, 0 if rng.random() < 0.2 else 1, 2)
    elif shape == 'jump-loop':
        lt, ld = gen.label('LT'), gen.label('LD')
        test = 'false' if endless else f'!(i1 < {ncalls})'
        out += [f'i1 = {gen.wrap("0")}', f'jumpif ({gen.wrap("true")}) {lt}', f'{lt}:', f'jumpif ({gen.wrap(test)}) {ld}']
        if rng.random() < 0.4:
            out.append('    ' + gen.mark())
        out.append('    ' + site())
        if rng.random() < 0.3:
            out += ['    ' + line for line in simple(gen, 1, 1)] + ['    ' + site()]
        out += [f'    i1 = {gen.wrap("i1 + 1")}', f'jumpif ({gen.wrap("true")}) {lt}', f'{ld}:']
        if endless:
            tags.append('nonterm')
    elif shape == 'function':
        define('fr', ['n'], simple(gen, 0, 1) + [site()] + simple(gen, 0, 1) + [f'return {gen.wrap("n")}'])
        for _ in range(ncalls):
            out.append(f'r = {gen.wrap(f"fr({rng.randint(0, 3)})")}')
            out += simple(gen, 0, 2)
    elif shape == 'callback':
        define('fp', ['v'], simple(gen, 0, 1) + [site(), f'return {gen.wrap("v == 9")}'])
        out.append(f'r = {gen.wrap("arrayIndexOf(arrayNew(" + ", ".join(str(rng.randint(0, 4)) for _ in range(max(1, ncalls))) + "), fp)")}')
    else:
        lx = gen.label('LX')
        define('fq', ['n'], [site(), f'jumpif ({gen.wrap("!(n > 0)")}) {lx}', f'    m = {gen.wrap("fq(n - 1)")}',
                             f'jumpif ({gen.wrap("true")}) {lx}', f'{lx}:', f'return {gen.wrap("n")}'])
        out.append(f'r = {gen.wrap(f"fq({max(0, min(ncalls, 40) - 1)})")}')
    out += simple(gen, 0, 2)
    return {'family': 'datax', 'text': '\n'.join(head + setup + out), 'files': files or None, 'globals': {'a': 0, 'b': 1, 'uc': 0},
            'nfun': None, 'premarks': True, 'nomodel': True, 'noref': True, 'tags': tags + sorted(kinds)}


def datax_directed(rng):
    """every call-back body x {shared, fresh, no} variables object, every shape and every expression kind with ONE shared variables
    object; the fillings (rows, constants, statements between the calls) are random"""
    cases = []
    for body in DATAX_BODIES:
        for vmode in ('shared', 'inline', 'none'):
            cases.append(datax_case(rng, shape=rng.choice(['straight', 'jump-loop']), body=body, vmode=vmode, expr='call',
                                    ncalls=rng.choice([2, 3]), nrows=rng.choice([1, 2])))
    for shape in sorted(set(DATAX_SHAPES)):
        cases.append(datax_case(rng, shape=shape, body='plain', vmode='shared', ncalls=rng.choice([2, 3]), nrows=rng.choice([1, 2])))
    for kind in sorted(set(DATAX_EXPRS)):
        cases.append(datax_case(rng, shape='straight', body='plain', vmode=rng.choice(['shared', 'shared-two']), expr=kind, ncalls=3, nrows=2))
    cases.append(datax_case(rng, shape='jump-loop', body='plain', vmode='shared', expr='no-call', nrows=1, endless=True))
    cases.append(datax_case(rng, shape='jump-loop', body='include', vmode='inline', expr='call', nrows=1, endless=True))
    return cases


def datax_scaled(rng, quick):
    """one case on the SCALE axis: many data calls (a loop / a match function over a long array / recursion) or many rows"""
    cap = 1200 if quick else 2400
    if rng.random() < 0.7:
        ncalls = rng.choice([s for s in SCALE if 9 <= s <= (129 if quick else 1000)])
        shape = rng.choice(['jump-loop', 'jump-loop', 'callback', 'recursion', 'straight'] if ncalls <= 17 else ['jump-loop', 'jump-loop', 'callback'])
        nrows = rng.choice([n for n in (0, 1, 2, 3) if ncalls * (8 * n + 8) <= cap] or [0])
        body = rng.choice(DATAX_BODIES) if ncalls * (16 * nrows + 8) <= cap else 'plain'
    else:
        nrows = rng.choice([s for s in SCALE if 9 <= s <= (17 if quick else 65)])
        ncalls = rng.choice([1, 2, 3])
        shape = rng.choice(DATAX_SHAPES)
        body = rng.choice(DATAX_BODIES) if nrows <= 17 else 'plain'
    case = datax_case(rng, shape=shape, body=body, ncalls=ncalls, nrows=nrows)
    case['tags'].append('scaled')
    return case


# ---------------------------------------------------------------------------------------------------------------------
# the budget expires INSIDE a library call-back and nothing runs afterwards (family 'tailcb')
#   The budget error is raised by the statement loop of a script function that was not called by the script but by LIBRARY (or
#   host) code - the compare function of arraySort, the match function of arrayIndexOf / arrayLastIndexOf, the target of a
#   systemPartial value, a function named in the expression string of dataFilter / dataCalculatedField / dataJoin, a host
#   function that applies its argument - and has to travel through that code (loops, try/finally, cmp_to_key, copied options)
#   and through every enclosing level (function bodies, call-backs of call-backs, include statements, partials) to the host.
#   Code that loses it on the way (a `return` in a finally block, a broad except, a fall-back value) lets the run go on; when a
#   statement follows, that statement trips over the exhausted budget, so only a run whose LAST started statement sits inside
#   the call-back completes under a limit smaller than its statement count.  The family therefore puts the library call in TAIL
#   position on every enclosing level (70%; 30% have 1-2 trailing statements) and runs EVERY limit 1..N+2:
#     leaf   - the innermost library call with a script call-back (TAIL_LEAVES)
#     level  - 0-2 enclosing levels, each a script function whose last statement holds the inner call and that is itself called
#              directly / as a match or compare function / through a partial / from a data expression / by a host function, or
#              whose last statement is an include of a script that ends with the inner call (TAIL_LEVELS)
#     top    - the last top-level statement: expression statement, assignment, return, or an include of a script ending so
#   Every statement logs first (FL); function statements come first.  Without include statements started statements = log lines
#   + functions bound (nfun); with includes every function / include statement is announced by systemLog('>') (premarks).
#   Arrays sorted with a compare function are never reachable from the globals (CPython empties a list while it sorts it).
#   mode 'model': only library functions of the Lean driver host (arrayIndexOf with 2 arguments, systemPartial, includes) - compared
#   with the model; 'impl': + arraySort, arrayLastIndexOf, start indices, data functions; 'host': + host functions in the globals
#   (a callable object, a functools.partial with try/finally) that call script functions back - implementation-side oracles only.
# ---------------------------------------------------------------------------------------------------------------------

TAIL_LEAVES = {
    'model': ['index', 'index-partial-pred', 'partial-index', 'partial-script', 'partial-of-partial', 'direct'],
    'impl': ['sort', 'sort-partial-cmp', 'partial-sort', 'sort-failing-cmp', 'last-index', 'index-from', 'data-filter', 'data-filter-vars',
             'data-calc', 'data-join-left', 'data-join-right', 'data-library-callback'],
    'host': ['host-call', 'host-each', 'host-partial'],
}
TAIL_LEVELS = {
    'model': ['function', 'callback', 'partial-level', 'include-in-function'],
    'impl': ['compare-callback', 'last-callback', 'data-level'],
    'host': ['host-level'],
}
TAIL_MODES = ['model', 'impl', 'host']


class _HostApply:
    """hostCall(fn, args...) = fn(args...): a callable object, not a function"""

    def __call__(self, args, options):
        return args[0](list(args[1:]), options)

    def __repr__(self):
        return 'hostCall'


def _host_each(_bound, args, options):
    """hostEach(array, fn): fn(value) for every element (clean-up code on the way out, as library code has it) -> number of calls"""
    calls = 0
    try:
        for value in list(args[0]):
            args[1]([value], options)
            calls += 1
    finally:
        calls += 0
    return calls


HOST_FUNCTIONS = {'hostCall': _HostApply(), 'hostEach': functools.partial(_host_each, None)}


def start_globals(case):
    """the globals a run of the case starts from (+ the host functions of the 'host' cases: not JSON, so not part of the case)"""
    g = copy.deepcopy(case['globals'])
    if case.get('host'):
        g.update(HOST_FUNCTIONS)
    return g


class Tail:
    def __init__(self, rng, mode, premarks, leaf=None, level=None):
        self.rng, self.mode, self.premarks = rng, mode, premarks
        self.gen = FL(rng, prefix='t')
        self.force_leaf, self.force_level = leaf, level
        self.sure = leaf is not None or level is not None
        self.levels = [lv for m in TAIL_MODES[:TAIL_MODES.index(mode) + 1] for lv in TAIL_LEVELS[m]
                       if premarks or lv != 'include-in-function']
        self.head, self.setup, self.files = [], [], {}
        self.nfun = self.nname = 0
        self.kinds = set()
        self.nomodel = self.noref = self.host = False

    def name(self, stem):
        self.nname += 1
        return f'{stem}{self.nname}'

    def pre(self, params):
        """0-2 logged statements at the head of a function body / an included script"""
        rng, lines = self.rng, []
        for _ in range(rng.choice([0, 0, 1, 1, 2])):
            if params and rng.random() < 0.5:
                lines.append(f'w = {self.gen.wrap(rng.choice(params) + " + " + str(rng.randint(1, 3)))}')
            else:
                lines.append(self.gen.mark())
        return lines

    def define(self, stem, params, body):
        name = self.name(stem)
        if self.premarks:
            self.head.append(PRE)
        self.head += [f'function {name}({", ".join(params)}):'] + ['    ' + line for line in body] + ['endfunction']
        self.nfun += 1
        return name

    def global_value(self, stem, expr):
        name = self.name(stem)
        self.setup.append(f'{name} = {self.gen.wrap(expr)}')
        return name

    def array(self, lo, hi):
        return 'arrayNew(' + ', '.join(str(self.rng.randint(0, 6)) for _ in range(self.rng.randint(lo, hi))) + ')'

    def data(self, lo, hi):
        rows = ', '.join(f"objectNew('x', {self.rng.randint(0, 4)})" for _ in range(self.rng.randint(lo, hi)))
        self.nomodel = self.noref = True
        return self.global_value('dd', f'arrayNew({rows})')

    def last(self, expr, base=None):
        """the last statement(s) of a body; the last statement the run STARTS while they execute is inside the call-backs of expr"""
        gen, r = self.gen, self.rng.random()
        if base is None:
            if r < 0.4:
                return [gen.wrap(expr)]
            if r < 0.7:
                return [f'return {gen.wrap(expr)}']
            return [f'w = {gen.wrap(expr)}']
        if r < 0.85:
            return [f'return {gen.wrap(f"if({expr} == null, {base}, {base})")}']
        self.kinds.add('statement-after-inner-call')
        return [f'w = {gen.wrap(expr)}', f'return {gen.wrap(base)}']

    def function(self, stem, params, base, depth, allow_include=False):
        """a fully-logged script function that returns `base` (None: whatever); depth > 0: its last statement first runs another
        library call with call-backs, or is an include of a script that ends with one"""
        body = self.pre([p for p in params if not p.endswith('...')])
        if depth > 0 and (self.sure or self.rng.random() < 0.85):
            if allow_include and self.premarks and self.rng.random() < 0.3:
                body += self.include_stmt(depth - 1)
            else:
                body += self.last(self.expr(depth - 1), base)
        elif base is None:
            body.append(self.gen.mark() if self.rng.random() < 0.5 else f'return {self.gen.wrap(str(self.rng.randint(0, 3)))}')
        else:
            body.append(f'return {self.gen.wrap(base)}')
        return self.define(stem, params, body)

    def pred(self, depth=0):
        key = self.rng.choice([9, 9, self.rng.randint(0, 6)])                 # 9: no element matches, every element is visited
        return self.function('pd', ['v'], f'v == {key}', depth, True)

    def compare(self, depth=0):
        self.nomodel = True
        return self.function('cm', ['a', 'b'], self.rng.choice(['a - b', 'b - a', 'systemCompare(a, b)']), depth)

    def plain(self, depth=0, nparams=None):
        params = ['p', 'q'][:self.rng.randint(0, 2) if nparams is None else nparams]
        if params and self.rng.random() < 0.15:
            params[-1] += '...'
            self.kinds.add('last-arg-array')
        return self.function('fa', params, None, depth, True), len(params)

    def args(self, n):
        return ', '.join(str(self.rng.randint(0, 4)) for _ in range(n))

    def include_stmt(self, depth):
        name = self.name('x') + '.bare'
        self.kinds.add('include')
        self.files[name] = None                       # reserve the position: the file map lists outer files first
        body = self.pre([]) + self.last(self.expr(depth), None)
        self.files[name] = '\n'.join(body)
        return [PRE, f"include '{name}'"]

    def data_call(self, kind, data, func):
        self.nomodel = self.noref = True
        if kind == 'data-filter':
            return f"dataFilter({data}, '{func}(x)')"
        if kind == 'data-filter-vars':
            return f"dataFilter({data}, '{func}(x + k)', objectNew('k', {self.rng.randint(0, 2)}))"
        if kind == 'data-calc':
            return f"dataCalculatedField({data}, 'y', '{func}(x)'" + self.rng.choice([')', ", objectNew('k', 1))"])
        if kind == 'data-join-left':
            return f"dataJoin({data}, {data}, '{func}(x)'" + self.rng.choice([')', ", null, true)", ", null, false, objectNew('k', 1))"])
        return f"dataJoin({data}, {data}, 'x', '{func}(x)', {self.rng.choice(['true', 'false'])}" + self.rng.choice([')', ", objectNew('k', 1))"])

    def leaf(self):
        rng = self.rng
        kind, self.force_leaf = self.force_leaf, None
        if kind is None:
            r = rng.random()
            group = 'host' if self.mode == 'host' and r < 0.6 else 'impl' if self.mode != 'model' and r < 0.85 else 'model'
            kind = rng.choice(TAIL_LEAVES[group])
        self.kinds.add('leaf:' + kind)
        if kind in TAIL_LEAVES['impl']:
            self.nomodel = True
        if kind == 'index':
            return f'arrayIndexOf({self.array(1, 5)}, {self.pred()})'
        if kind == 'index-partial-pred':
            pq = self.function('pq', ['t', 'v'], 'v == t', 0)
            return f'arrayIndexOf({self.array(1, 5)}, systemPartial({pq}, {rng.choice([9, 9, rng.randint(0, 6)])}))'
        if kind == 'partial-index':
            return f'{self.global_value("pp", f"systemPartial(arrayIndexOf, {self.array(1, 5)})")}({self.pred()})'
        if kind in ('partial-script', 'partial-of-partial'):
            fa, _ = self.plain(0, 2)
            pp = self.global_value('pp', f'systemPartial({fa}, {rng.randint(0, 3)})')
            if kind == 'partial-script':
                return f'{pp}({rng.randint(0, 3)})'
            return f'{self.global_value("qq", f"systemPartial({pp}, {rng.randint(0, 3)})")}()'
        if kind == 'direct':
            fa, nparams = self.plain(0)
            return f'{fa}({self.args(nparams)})'
        if kind == 'sort':
            return f'arraySort({self.array(2, 5)}, {self.compare()})'
        if kind == 'sort-partial-cmp':
            ck = self.function('ck', ['k', 'a', 'b'], '(a - b) * k', 0)
            return f'arraySort({self.array(2, 5)}, systemPartial({ck}, {rng.choice([1, -1])}))'
        if kind == 'partial-sort':
            return f'{self.global_value("pp", f"systemPartial(arraySort, {self.array(2, 5)})")}({self.compare()})'
        if kind == 'sort-failing-cmp':                   # the compare function returns no number: the sort fails in the host (null)
            cm = self.function('cm', ['a', 'b'], rng.choice(['null', "'x'", 'if(a > 2, null, a - b)']), 0)
            return f'arraySort({self.array(2, 5)}, {cm})'
        if kind == 'last-index':
            return f'arrayLastIndexOf({self.array(1, 5)}, {self.pred()}' + rng.choice([')', ', 1)', ', 0)'])
        if kind == 'index-from':
            return f'arrayIndexOf({self.array(2, 5)}, {self.pred()}, 1)'
        if kind == 'data-library-callback':
            self.nomodel = self.noref = True
            return f"dataFilter({self.data(1, 3)}, 'arrayIndexOf(arrayNew(x, 1, 2), {self.pred()}) >= 0')"
        if kind.startswith('data-'):
            ff = self.function('ff', ['v'], f'v > {rng.randint(0, 3)}', 0)
            return self.data_call(kind, self.data(1, 4), ff)
        self.nomodel = self.host = True
        if kind == 'host-each':
            return f'hostEach({self.array(1, 4)}, {self.pred()})'
        fa, _ = self.plain(0, 1)
        if kind == 'host-call':
            return f'hostCall({fa}, {rng.randint(0, 3)})'
        return f'{self.global_value("pp", f"systemPartial(hostCall, {fa})")}({rng.randint(0, 3)})'

    def expr(self, depth):
        """an expression; the last statement the run starts while it is evaluated is inside a library call-back"""
        rng = self.rng
        if depth <= 0:
            return self.leaf()
        level, self.force_level = self.force_level or rng.choice(self.levels), None
        self.kinds.add('level:' + level)
        if level in TAIL_LEVELS['impl']:
            self.nomodel = True
        if level == 'function':
            fa, nparams = self.plain(depth)
            return f'{fa}({self.args(nparams)})'
        if level == 'callback':
            return f'arrayIndexOf({self.array(1, 3)}, {self.pred(depth)})'
        if level == 'last-callback':
            return f'arrayLastIndexOf({self.array(1, 3)}, {self.pred(depth)})'
        if level == 'compare-callback':
            return f'arraySort({self.array(2, 3)}, {self.compare(depth)})'
        if level == 'partial-level':
            fa, _ = self.plain(depth, 2)
            return f'{self.global_value("pp", f"systemPartial({fa}, {rng.randint(0, 3)})")}({rng.randint(0, 3)})'
        if level == 'data-level':
            ff = self.function('ff', ['v'], f'v > {rng.randint(0, 3)}', depth)
            return self.data_call(rng.choice(['data-filter', 'data-filter-vars', 'data-calc', 'data-join-left', 'data-join-right']),
                                  self.data(1, 2), ff)
        if level == 'include-in-function':
            body = self.pre(['p']) + self.include_stmt(depth - 1)
            return f'{self.define("fi", ["p"], body)}({rng.randint(0, 3)})'
        self.nomodel = self.host = True                  # host-level
        if rng.random() < 0.5:
            fa, _ = self.plain(depth, 1)
            return f'hostCall({fa}, {rng.randint(0, 3)})'
        return f'hostEach({self.array(1, 3)}, {self.pred(depth)})'


def tailcb_case(rng, mode=None, leaf=None, level=None, depth=None, top=None, tail=None):
    mode = mode or rng.choice(['model', 'model', 'impl', 'impl', 'impl', 'host'])
    premarks = top == 'include' or level == 'include-in-function' or rng.random() < 0.35
    gen = Tail(rng, mode, premarks, leaf, level)
    if depth is None:
        depth = rng.choice([0, 1, 1, 1, 2])
    if top is None:
        top = 'include' if premarks and rng.random() < 0.35 else 'expr'
    body = []
    gen.gen.block(body, '', 2, ['a', 'b'], False, rng.randint(0, 2))
    last = gen.include_stmt(depth) if top == 'include' else gen.last(gen.expr(depth), None)
    if tail is None:
        tail = rng.random() < 0.7
    trailing = [] if tail else [gen.gen.mark() for _ in range(rng.randint(1, 2))]
    tags = ['tailcb', 'mode:' + mode, 'top:' + top, 'depth:' + str(depth), 'tail' if tail else 'not-tail'] + sorted(gen.kinds | gen.gen.kinds)
    case = {'family': 'tailcb', 'text': '\n'.join(gen.head + gen.setup + body + last + trailing), 'files': gen.files or None,
            'globals': {'a': 0, 'b': 2}, 'nfun': None if premarks else gen.nfun, 'premarks': premarks, 'tags': tags}
    for flag in ('nomodel', 'noref', 'host'):
        if getattr(gen, flag):
            case[flag] = True
    if rng.random() < 0.3:                               # debug: failures of library functions are reported through logFn
        case['preps'] = [{'warm': [], 'globals': 'reset', 'debug': True, 'stale': None, 'copy': False}]
    return case


def tail_directed(rng, rounds=1):
    """every leaf under every kind of enclosing level, in tail position (the fillings - arrays, constants, extra statements - are random)"""
    cases = []
    for _ in range(rounds):
        for mode in TAIL_MODES:
            for leaf in TAIL_LEAVES[mode]:
                cases.append(tailcb_case(rng, mode, leaf=leaf, depth=0, top='expr', tail=True))
                cases.append(tailcb_case(rng, mode, leaf=leaf, depth=0, top='include', tail=True))
                cases.append(tailcb_case(rng, mode, leaf=leaf, level='function', depth=1, top='expr', tail=True))
                cases.append(tailcb_case(rng, mode, leaf=leaf, level=rng.choice(TAIL_LEVELS[mode]), depth=1, tail=True))
            for level in TAIL_LEVELS[mode]:
                cases.append(tailcb_case(rng, mode, level=level, depth=1, top='expr', tail=True))
                cases.append(tailcb_case(rng, mode, level=level, depth=2, tail=True))
    return cases


# ---------------------------------------------------------------------------------------------------------------------
# running: implementation (with the logFn snapshot probe), reference interpreter with its own counter
# ---------------------------------------------------------------------------------------------------------------------

def fetch_fn(files):
    def fetch(req):
        return files.get(req['url'])
    return fetch


# ---------------------------------------------------------------------------------------------------------------------
# host options configurations and histories.  A run is execute_script(model, options); the property speaks about ONE run,
# so what the options object held before the run starts (the counter of an earlier run, a value the host put there, a
# different limit) must not matter, and the script functions / values an earlier run left in shared globals are counted on
# the budget of the run that calls them.
#   prep = {'warm':    [[which, limit], ...]  earlier runs on the options object: which = 'self' (the same program),
#                                             'case' (case['warm'], the first script of a session) or a key of WARM;
#           'globals': 'reset' | 'keep'       reset: the (same) globals dict is emptied and refilled with the case globals
#                                             before the run; keep: the run starts from what the earlier runs left there;
#           'debug':   bool                   options['debug'] (library failures / include lint warnings go to logFn);
#           'stale':   None | int             options['statementCount'] put there by the host before the run;
#           'copy':    bool                   the run uses dict(options of the earlier runs) (options derived from a template)}
# 'warm', 'globals' and 'debug' make the CONFIGURATION of the run (start globals, host functions); run_impl(..., reuse=False)
# runs exactly that configuration on a brand-new options dict (sharing the globals dict): the reference.  reuse=True runs
# it on the options object with its history ('warm' runs, 'stale', 'copy').  limit None = no 'maxStatements' key at all.
# ---------------------------------------------------------------------------------------------------------------------

WARM = {
    'small': "function wf(n):\n    systemLog('w' + n)\n    return n + 1\nendfunction\nwi = 0\nwl:\nwi = wf(wi)\njumpif (wi < 4) wl\nwr = arrayIndexOf(arrayNew(1, 2), wf)",
    'endless': "we = 0\nwl:\nwe = we + 1\njump wl",
    'error': "wx = 1\nwy = wx + 1\njump nowhere\nwz = 3",
    'one': "wo = 1",
}
SNAP_MAX, SNAP_PREP = 1600, 450
STALE = [0, 1, 2, 3, 7, 40, 3000, 10 ** 9, 10 ** 9 + 1]


def random_prep(rng, case):
    warm = []
    for _ in range(rng.choice([0, 1, 1, 1, 2, 3])):
        which = rng.choice(['self', 'self', 'small', 'endless', 'error', 'one'])
        warm.append([which, rng.choice([1, 2, 5, 9, 30, CAP]) if which != 'endless' else rng.choice([1, 4, 25])])
    prep = {'warm': warm, 'globals': 'keep' if rng.random() < 0.3 else 'reset', 'debug': rng.random() < 0.15,
            'stale': rng.choice(STALE) if (not warm or rng.random() < 0.25) else None, 'copy': bool(warm) and rng.random() < 0.2}
    return prep


def plain(prep):
    """the configuration part of prep is the one of the ordinary runs (fresh case globals, no debug)"""
    return prep['globals'] == 'reset' and not prep['debug']


def prep_tags(prep):
    tags = [f'opt:earlier-runs={len(prep["warm"])}'] + sorted({'opt:earlier-run-' + w[0] for w in prep['warm']})
    tags.append('opt:globals-' + prep['globals'])
    if prep['debug']:
        tags.append('opt:debug')
    if prep['stale'] is not None:
        tags.append('opt:stale-count')
    if prep['copy']:
        tags.append('opt:copied-options')
    return tags


def run_impl(model, case, limit, prep=None, reuse=True, container=None):
    """-> outcome dict (shape of progen.run_impl) + 'snaps': the user-visible globals at each log line (the first SNAP_MAX; runs
    with a prep: the first SNAP_PREP - the same bound for the runs that are compared, so prefix and equality keep their meaning)"""
    snap_max = SNAP_MAX if prep is None else SNAP_PREP
    mods = fw.impl()
    runtime, library, parser = mods['runtime'], mods['library'], mods['parser']
    lib = library.SCRIPT_FUNCTIONS
    log, snaps = [], []
    g = start_globals(case)
    probe = [False]

    def log_fn(text):
        if probe[0] is None:
            return
        log.append(text)
        if probe[0] and len(snaps) < snap_max:
            snaps.append(json.dumps(c08.user_globals(g)))
    options = {'globals': g, 'logFn': log_fn}
    if case['files'] is not None:
        options['fetchFn'] = fetch_fn(case['files'])
    if case.get('systemPrefix') is not None:
        options['systemPrefix'] = case['systemPrefix']
    out = {}
    try:
        if prep is not None:
            if prep['debug']:
                options['debug'] = True
            probe[0] = None                       # the earlier runs of the session are not observed
            for which, warm_limit in prep['warm']:
                if which == 'self':
                    warm_model = model
                elif which == 'case':
                    warm_model = parser.parse_script(case['warm'])
                else:
                    warm_model = parser.parse_script(WARM[which])
                options['maxStatements'] = warm_limit
                try:
                    c08.guarded(lambda: runtime.execute_script(warm_model, options))      # pylint: disable=cell-var-from-loop
                except (runtime.BareScriptRuntimeError, parser.BareScriptParserError):
                    pass
            if prep['globals'] == 'reset':
                g.clear()
                g.update(start_globals(case))
            if not reuse:
                options = {k: v for k, v in options.items() if k in ('globals', 'logFn', 'fetchFn', 'debug', 'systemPrefix')}
            else:
                if prep['copy']:
                    options = dict(options)
                if prep['stale'] is not None:
                    options['statementCount'] = prep['stale']
        options.pop('maxStatements', None)
        if limit is not None:
            options['maxStatements'] = limit
        if container is not None and CONTAINERS[container] is not None:
            options = CONTAINERS[container](options)          # the host's options object is a dict of another class
        probe[0] = case['family'] in FULLY
        out['result'] = progen.value_to_wire(c08.guarded(lambda: runtime.execute_script(model, options)), lib)
    except runtime.BareScriptRuntimeError as exc:
        out['error'] = str(exc)
    except parser.BareScriptParserError as exc:
        out['error'] = 'ParserError ' + str(exc).split('\n', 1)[0]
    except c08.Hang:
        c08.HANGS[0] += 1
        out['hostexc'] = f'Hang: still running after {c08.HANG_SECONDS} s of CPU time under maxStatements={limit}'
    except RecursionError:
        out['hostexc'] = 'RecursionError'
    except Exception as exc:  # pylint: disable=broad-except
        out['hostexc'] = type(exc).__name__ + ': ' + str(exc)[:200]
    out['log'] = log
    out['globals'] = c08.user_globals(g)
    out['count'] = options.get('statementCount')
    return out, snaps


def resolve_include(inc, base, system_prefix):
    """<x> with a host systemPrefix: x in the directory of the prefix; otherwise x in the directory of the including file"""
    url = inc['url']
    if inc.get('system') and system_prefix is not None:
        return system_prefix[:system_prefix.rfind('/') + 1] + url
    if base is not None:
        return base[:base.rfind('/') + 1] + url
    return url


def static_count(case, statements=None, base=None, depth=0):
    """Straight-line programs (expression statements and includes of straight-line files only, no call of a script function): the
    number of statements an unlimited run starts is the number of statements of the script + those of every included script, per
    include.  -> N, or None when the program is not of that kind."""
    parser = fw.impl()['parser']
    if statements is None:
        statements = parser.parse_script(case['text'])['statements']
    total = 0
    for stmt in statements:
        (kind, body), = stmt.items()
        total += 1
        if kind == 'include' and depth < 8:
            for inc in body['includes']:
                url = resolve_include(inc, base, case.get('systemPrefix'))
                text = (case['files'] or {}).get(url)
                if text is None:
                    return None
                try:
                    sub = static_count(case, parser.parse_script(text)['statements'], url, depth + 1)
                except parser.BareScriptParserError:
                    return None
                if sub is None:
                    return None
                total += sub
        elif kind != 'expr':
            return None
    return total


class RefCounting(c08.RefStatements):
    """documented statement semantics + includes, all on ONE statement counter owned by this interpreter.
    Include names: <x> with a host systemPrefix is the file x in the directory of the prefix; every other name is relative to the
    directory of the file the RUNNING script came from (the main script: the name as written).  Only plain relative names are
    generated (resolution proper is C17).  Every execution of an include statement fetches, parses and runs every script it names -
    nothing is remembered from an earlier execution."""

    def __init__(self, options, max_statements, files, system_prefix=None):
        super().__init__(options, max_statements)
        self.files = files or {}
        self.system_prefix = system_prefix
        self.base = None            # the file the running script came from (a function runs in the context of its caller)

    def resolve(self, inc):
        return resolve_include(inc, self.base, self.system_prefix)

    def run(self, statements, locals_):
        if not any('include' in s for s in statements):
            return super().run(statements, locals_)
        # split at include statements: labels of a list with includes are still resolved in the whole list
        first = {}
        for ix, stmt in enumerate(statements):
            if 'label' in stmt and stmt['label'] not in first:
                first[stmt['label']] = ix
        pc = 0
        while pc < len(statements):
            stmt = statements[pc]
            (kind, body), = stmt.items()
            if kind == 'include':
                self.count += 1
                if self.max > 0 and self.count > self.max:
                    raise self.error(f'Exceeded maximum script statements ({self.max})')
                for inc in body['includes']:
                    url = self.resolve(inc)
                    text = self.files.get(url)
                    if text is None:
                        raise self.error(f'Include of "{url}" failed')
                    try:
                        script = self.mods['parser'].parse_script(text)
                    except self.mods['parser'].BareScriptParserError as exc:
                        raise self.mods['parser'].BareScriptParserError(exc.error, exc.line, exc.column_number, exc.line_number,
                                                                        f'Included from "{url}"')
                    saved, self.base = self.base, url
                    try:
                        self.run(script['statements'], None)      # global scope; `return` ends only the included script
                    finally:
                        self.base = saved
                pc += 1
                continue
            # one ordinary statement, through the base class on a one-statement view that keeps label scope
            self.count += 1
            if self.max > 0 and self.count > self.max:
                raise self.error(f'Exceeded maximum script statements ({self.max})')
            if kind == 'expr':
                value = self.ev(body['expr'], locals_)
                if body.get('name') is not None:
                    if locals_ is not None:
                        locals_[body['name']] = value
                    else:
                        self.options['globals'][body['name']] = value
            elif kind == 'jump':
                if 'expr' not in body or self.mods['value'].value_boolean(self.ev(body['expr'], locals_)):
                    if body['label'] not in first:
                        raise self.error(f'Unknown jump label "{body["label"]}"')
                    pc = first[body['label']] + 1
                    continue
            elif kind == 'return':
                return self.ev(body['expr'], locals_) if 'expr' in body else None
            elif kind == 'function':
                self.options['globals'][body['name']] = self.make_function(body)
            pc += 1
        return None


def run_reference(model, case, limit):
    mods = fw.impl()
    library = mods['library']
    log = []
    g = start_globals(case)
    for name, fn in library.SCRIPT_FUNCTIONS.items():
        g.setdefault(name, fn)
    options = {'globals': g, 'maxStatements': 0, 'logFn': log.append, 'statementCount': 0}
    ref = RefCounting(options, limit, case['files'], case.get('systemPrefix'))
    out = {}
    try:
        out['result'] = progen.value_to_wire(ref.run(model['statements'], None), library.SCRIPT_FUNCTIONS)
    except mods['runtime'].BareScriptRuntimeError as exc:
        out['error'] = str(exc)
    except mods['parser'].BareScriptParserError as exc:
        out['error'] = 'ParserError ' + str(exc).split('\n', 1)[0]
    except RecursionError:
        return None
    out['log'] = log
    out['globals'] = c08.user_globals(g)
    out['count'] = ref.count
    return out


def limits_for(rng, n_statements, quick, every_upto=None):
    """n_statements None = non-terminating (more than CAP statements)"""
    if n_statements is None:
        ls = {1, 2, 3, 5, 8, 21, 64, rng.randint(9, 200), rng.randint(200, 1500)}
    elif n_statements <= (every_upto or (24 if quick else 40)):
        ls = set(range(1, n_statements + 3))
    else:
        ls = {1, 2, 3, n_statements - 1, n_statements, n_statements + 1, n_statements + 2}
        ls |= {rng.randint(1, n_statements) for _ in range(5 if quick else 8)}
    return sorted(l for l in ls if l > 0)


def is_prefix(short, long):
    return len(short) <= len(long) and long[:len(short)] == short


def budget_oracles(case, model, unl, unl_snaps, limit, out, snaps):
    """The property's own oracles for ONE limit, on implementation outcomes only.
    unl: outcome under the cap (CAP) standing in for "no limit"; out: outcome under `limit`.  -> [(oracle, expected, actual)]"""
    bad = []
    nonterm = EXCEEDED.match(unl.get('error', '')) is not None
    total = None if nonterm else unl['count']
    m = EXCEEDED.match(out.get('error', ''))
    aborted = m is not None
    if 'hostexc' in out or 'hostexc' in unl:
        what = out.get('hostexc') or unl.get('hostexc')
        if what.startswith('Hang'):
            return [('run-stops-within-budget', f'at most {limit if "hostexc" in out else CAP} statements start', what)]
        return [('no-host-exception', None, what)]
    if limit == 0:
        if not nonterm and out != unl:
            bad.append(('unlimited-equals-large-limit', unl, out))
        return bad
    should_abort = nonterm or total > limit
    # (2) aborted iff statement limit+1 would start; exact text; counter = limit + 1
    if aborted != should_abort:
        bad.append(('aborted-iff-more-than-limit', {'statements': total, 'limit': limit, 'abort': should_abort}, out))
        return bad
    if aborted:
        if out['error'] != f'Exceeded maximum script statements ({limit})' or out['count'] != limit + 1:
            bad.append(('abort-exact', {'error': f'Exceeded maximum script statements ({limit})', 'count': limit + 1},
                        {'error': out['error'], 'count': out['count']}))
        # (4) observable effects are a prefix
        if not is_prefix(out['log'], unl['log']):
            bad.append(('log-prefix', unl['log'], out['log']))
        if snaps is not None and not is_prefix(snaps, unl_snaps):
            bad.append(('global-writes-prefix', unl_snaps[:len(snaps) + 1], snaps))
    else:
        # (3) identical under every limit >= N
        if out != unl:
            bad.append(('identical-above-N', unl, out))
        if out['count'] > limit:
            bad.append(('count-within-limit', limit, out['count']))
    # (1) started statements, counted through the log (fully-logged programs): marks + function names bound
    if case['family'] in FULLY and case['nfun'] is not None:
        # the second script of a session has no function statement (the script functions in its globals come from the first)
        bound = 0 if case['family'] == 'session' else sum(1 for kv in out['globals'] if kv[1] == {'f': 'script'})
        started = len(out['log']) + bound
        want = limit if aborted else out['count']
        if started != want or started > limit:
            bad.append(('started-statements', {'started': want, 'limit': limit}, {'started': started, 'log': len(out['log']), 'bound': bound}))
        if aborted and limit >= case['nfun']:
            ix = limit - case['nfun']             # the statement that did not start is the one that logs mark number ix
            if ix < len(unl_snaps) and json.dumps(out['globals']) != unl_snaps[ix]:
                bad.append(('globals-at-abort', json.loads(unl_snaps[ix]), out['globals']))
    # (1') the same count where include / function statements are announced by a log line of their own (family 'rinc')
    if case.get('premarks'):
        got = premark_count(out['log'])
        if aborted:
            ok = got == limit or (got == limit + 1 and out['log'][-1] == '>')      # the announced statement is the one that did not start
        else:
            ok = got == out['count'] and got <= limit
        if not ok:
            bad.append(('started-statements', {'started': limit if aborted else out['count'], 'limit': limit},
                        {'started': got, 'log': len(out['log']), 'announced': got - len(out['log'])}))
    return bad


def premark_count(log):
    """started statements of a run whose statements all log first, include / function statements through the line '>' before them"""
    return len(log) + sum(1 for line in log if line == '>')


def static_bad(case, unl):
    """straight-line program that completes under the cap: its counter is the static number of statements (see static_count)"""
    if 'error' in unl or 'hostexc' in unl:
        return None
    want = static_count(case)
    return None if want is None or want == unl['count'] else {'count': want}


def started_at_cap(case, unl):
    """fully-logged program that completes under the cap: started statements = log lines + function names bound"""
    if case['family'] in FULLY and case['nfun'] is not None and 'error' not in unl and 'hostexc' not in unl:
        bound = 0 if case['family'] == 'session' else sum(1 for kv in unl['globals'] if kv[1] == {'f': 'script'})
        if len(unl['log']) + bound != unl['count']:
            return {'started': len(unl['log']) + bound, 'log': len(unl['log']), 'bound': bound}
    if case.get('premarks') and 'error' not in unl and 'hostexc' not in unl and premark_count(unl['log']) != unl['count']:
        return {'started': premark_count(unl['log']), 'log': len(unl['log']), 'announced': premark_count(unl['log']) - len(unl['log'])}
    return None


def witness_input(case, limit, before, **more):
    """The failing run + the runs of the same case this process made before it ('before': limits of the plain runs, 'before_prep':
    limits of the earlier runs of the same options history): a run must not depend on what the process did earlier, so a failure
    that only shows after such a history (state kept in the library across runs, left behind by an aborted run) is a failure of
    the run; replay() first tries the run alone and then after the history."""
    inp = {'case': case, 'limit': limit}
    inp.update(more)
    if before:
        inp['before'] = list(before)
    if not more.get('before_prep'):
        inp.pop('before_prep', None)
    return inp


def case_key(case):
    """the canonical case (what a coverage record / a comparison is keyed by)"""
    return [case['family'], case['text'], case['files']] + ([{'systemPrefix': case['systemPrefix']}] if 'systemPrefix' in case else [])


def check_program(ctx, st, case, rng, driver):
    """All limits of one program: oracles on the implementation + correspondence with the Lean machine.
    -> (model requests, outcomes, limits, [(index into limits, prep, outcome on the options object with a history)])"""
    parser = fw.impl()['parser']
    model = parser.parse_script(case['text'])
    fully = case['family'] in FULLY
    session = case['family'] == 'session'            # the second script of a session is only run after the first (its preps)
    reqs, outs, out_snaps, refs, extra = [], [], [], [], []
    unl, unl_snaps, limits = None, None, []
    if not session:
        unl, unl_snaps = run_impl(model, case, CAP)
        nonterm = EXCEEDED.match(unl.get('error', '')) is not None
        total = None if nonterm else unl['count']
        # L = 0 (really unlimited) is only run for programs known to stop: the implementation must never be able to hang the check
        limits = ([] if nonterm else [0]) + limits_for(rng, total, ctx.quick, (60 if ctx.quick else 120) if case['family'] in ('rinc', 'datax') else (100 if ctx.quick else 200) if case['family'] == 'tailcb' else None)
        if case.get('limits') and not nonterm:
            limits = list(case['limits'])
        if not nonterm:
            bad = started_at_cap(case, unl)
            if bad is not None:
                ctx.witness('started-statements', {'case': case, 'limit': CAP}, {'started': unl['count']}, bad)
            bad = static_bad(case, unl)
            if bad is not None:
                ctx.witness('static-statement-count', {'case': case, 'limit': CAP}, bad, {'count': unl['count']})
        if unl.get('hostexc', '').startswith('Hang'):
            ctx.witness('run-stops-within-budget', {'case': case, 'limit': CAP}, f'at most {CAP} statements start', unl['hostexc'])
            return [], [], [], []
    wire_files = None
    if driver and case['family'] not in ('data', 'session') and not case.get('nomodel'):
        counter = [0]
        script = progen.canon_script(model, counter)
        wire_files = []
        # the model host resolves every include to the name it is written with: its file map is the map by base name (the generated
        # files of one case have different base names; resolution through systemPrefix / the including file is C17)
        for url, text in sorted((case['files'] or {}).items()):
            name = url[url.rfind('/') + 1:] if 'systemPrefix' in case else url
            try:
                wire_files.append([name, progen.canon_script(parser.parse_script(text), counter)])
            except parser.BareScriptParserError:
                wire_files.append([name, 'broken'])
    for limit in limits:
        if c08.HANGS[0] >= 3:
            break
        out, snaps = run_impl(model, case, limit)
        outs.append(out)
        out_snaps.append(snaps)
        tags = ['L=0' if limit == 0 else 'aborted' if EXCEEDED.match(out.get('error', '')) else 'error' if 'error' in out else 'completed']
        st.case(case_key(case) + [limit],
                nontrivial=(limit > 0 and (nonterm or abs(limit - total) <= 2 or bool(EXCEEDED.match(out.get('error', ''))))),
                tags=tags + ['family:' + case['family']] + (case['tags'] if limit == limits[-1] else []))
        bad = budget_oracles(case, model, unl, unl_snaps, limit, out, snaps if fully else None)
        ref = None
        if case['family'] != 'data' and not case.get('noref') and 'hostexc' not in out:
            ref = run_reference(model, case, limit)
            if ref is not None and c08.no_neg_zero(ref) != c08.no_neg_zero(out):
                bad.append(('independent-statement-count', ref, out))
        refs.append(ref)
        for name, expected, actual in bad:
            ctx.witness(name, witness_input(case, limit, limits[:len(outs) - 1]), expected, actual)
        if wire_files is not None:
            reqs.append({'op': 'exec', 'script': script, 'globals': progen.wire_globals(case['globals']), 'files': wire_files,
                         'max': limit, 'fuel': 2 * CAP + 500})
    # the same program on options objects with a history / in other host configurations
    preps = list(case.get('preps') or [])
    if not session and len(outs) == len(limits):
        preps += [random_prep(rng, case) for _ in range(2)]
    for prep in preps:
        if c08.HANGS[0] >= 3:
            break
        extra += check_prep(ctx, st, case, model, rng, prep, (unl, unl_snaps, limits, outs, out_snaps, refs))
    return reqs, outs, limits, (extra if wire_files is not None else [])


def prep_limits(rng, total, terminating):
    if total is None:
        return sorted({1, 2, 5, rng.randint(3, 60), rng.randint(60, 400)})
    ls = {1, total - 1, total, total + 1, 2 * total - 1, 2 * total, rng.randint(1, max(1, total)), rng.randint(1, max(1, total))}
    return ([0, None] if terminating else []) + sorted(l for l in ls if l > 0)


def check_prep(ctx, st, case, model, rng, prep, main):
    """One options configuration/history (see run_impl) of one program under several limits.
    The reference is the same configuration on a brand-new options dict; the run on the options object with the history must
    (a) satisfy every budget oracle against that reference and (b) be the reference's outcome, counter included."""
    unl, unl_snaps, limits, outs, out_snaps, refs = main
    fully = case['family'] in FULLY
    is_plain = plain(prep) and case['family'] != 'session'
    pcase = case
    if not is_plain:
        if case['family'] in ('fl', 'data', 'tailcb') or prep['debug']:
            pcase = dict(case, nfun=None, premarks=False)      # script functions of earlier runs stay bound / debug lines in the log: no counting through the log
        unl, unl_snaps = run_impl(model, case, CAP, prep, reuse=False)
        if unl.get('hostexc', '').startswith('Hang'):
            ctx.witness('run-stops-within-budget', {'case': case, 'limit': CAP, 'prep': prep, 'reuse': False},
                        f'at most {CAP} statements start', unl['hostexc'])
            return []
        bad = started_at_cap(pcase, unl)
        if bad is not None:
            ctx.witness('started-statements', {'case': case, 'limit': CAP, 'prep': prep, 'reuse': False}, {'started': unl['count']}, bad)
    nonterm = EXCEEDED.match(unl.get('error', '')) is not None
    total = None if nonterm else unl['count']
    if is_plain:
        want = prep_limits(rng, total, not nonterm)
        chosen = [l for l in want if l in limits or (l is None and 0 in limits)]
        spare = [l for l in limits if l not in chosen]
        chosen += rng.sample(spare, min(len(spare), max(0, 7 - len(chosen))))
    else:
        chosen = prep_limits(rng, total, not nonterm)
    extra = []
    tags = prep_tags(prep)
    for limit in chosen:
        if c08.HANGS[0] >= 3:
            break
        eff = 0 if limit is None else limit
        found = []
        if is_plain:
            ix = limits.index(eff)
            fresh, fresh_snaps = outs[ix], out_snaps[ix][:SNAP_PREP]
        else:
            fresh, fresh_snaps = run_impl(model, case, limit, prep, reuse=False)
            found += [(n, e, a, False) for n, e, a in budget_oracles(pcase, model, unl, unl_snaps, eff, fresh, fresh_snaps if fully else None)]
        out, snaps = run_impl(model, case, limit, prep, reuse=True)
        aborted = bool(EXCEEDED.match(out.get('error', '')))
        st.case(case_key(case) + [limit, prep],
                nontrivial=nonterm or aborted or limit is None or abs(eff - total) <= 2 or eff >= total,
                tags=tags + ['opt:' + ('no-maxStatements-key' if limit is None else 'L=0' if limit == 0 else 'aborted' if aborted else 'not-aborted'),
                             'family:' + case['family']] + (case['tags'] if case['family'] == 'session' and limit == chosen[-1] else []))
        found += [(n, e, a, True) for n, e, a in budget_oracles(pcase, model, unl, unl_snaps, eff, out, snaps if fully else None)]
        if 'hostexc' not in out and 'hostexc' not in fresh:
            if out != fresh or (fully and snaps != fresh_snaps):
                found.append(('own-budget-whatever-the-options-held', fresh, out, True))
            if is_plain and refs[ix] is not None and c08.no_neg_zero(refs[ix]) != c08.no_neg_zero(out):
                found.append(('independent-statement-count', refs[ix], out, True))
        for name, expected, actual, reuse in found:
            ctx.witness(name, witness_input(case, limit, limits, prep=prep, reuse=reuse, before_prep=chosen[:chosen.index(limit)]),
                        expected, actual)
        if is_plain:
            extra.append((ix, limit, prep, out))
    return extra


def load_corpus():
    cases = []
    if os.path.exists(CORPUS):
        with open(CORPUS, encoding='utf-8') as fh:
            for line in fh:
                line = line.strip()
                if line and not line.startswith('#'):
                    cases.append(json.loads(line))
    return cases


def make_cases(rng, n):
    cases = load_corpus() + rinc_directed()
    for ix in range(n):
        if ix % 4 == 3:
            cases.append(rinc_case(rng, shapes=[RINC_SHAPES[(ix // 4) % len(RINC_SHAPES)]] if ix % 8 == 3 else None))
        r = ix % 10
        if r < 3:
            cases.append(gen_case(rng))
        elif r < 6:
            cases.append(fl_case(rng))
        elif r < 7:
            cases.append(partial_case(rng))
        elif r < 9:
            cases.append(include_case(rng))
        elif ix % 20 == 9:
            cases.append(session_case(rng))
        else:
            cases.append(data_case(rng))
    return cases


def stream_budget(ctx, n, driver=True, name='budget'):
    rng = ctx.rng(name)
    st = ctx.stream(name,
                    'corpus + generated programs: 30% progen.Gen (loops, script-function calls), 30% fully-logged jump-level programs '
                    '(loops, bounded recursion, arrayIndexOf call-backs with a script predicate / systemPartial, endless loops), 10% function '
                    'values/partials created inside an included file and called later from the including script, 20% nested '
                    'includes over a virtual file map (missing / broken / twice / return inside an include), 10% data-function call-backs '
                    '(implementation only); N = statementCount under the cap 3000 (more = non-terminating); limits: L=0, every L in '
                    '1..N+2 for N<=40 (quick 24), else 1,2,3,N-1..N+2 + samples; execute_script vs Lean execute per limit; oracles: '
                    'aborted iff N>L with exact text and count L+1, identical for L>=N and L=0, log/global-snapshot prefix for L<N, '
                    'started statements counted through the log, independent reference interpreter with its own counter; '
                    'HOST OPTIONS: every program is also run (2 random preparations + the hand-picked ones of the corpus, '
                    '<= 10 limits each incl. N-1, N, N+1, 2N-1, 2N, 0 and no maxStatements key) on an options object with a history - earlier '
                    'runs on the SAME dict (the same program, a small script with functions, an endless loop that was aborted, a script that '
                    'failed; under other limits), a shallow copy of such a dict, a statementCount the host put there (0..1e9+1) - with the '
                    'globals dict emptied and refilled or KEPT (script functions / partials of earlier runs stay callable), with and without '
                    'debug; 5%: two-script sessions (the first script defines fully-logged functions, function values and partials, the '
                    'second only calls them - directly, recursively, as call-backs, through partials - on the same options object, a copy or a '
                    'new one); reference = the same configuration on a brand-new options dict; oracles: all of the above against that '
                    'reference + the outcome (result, error, log, globals, snapshots, statementCount) is the reference outcome; compared '
                    'with the Lean answer for the same program and limit (C09.own_budget: execute ignores the counter it is given); '
                    'non-trivial = L within 2 of N, or the run is aborted, or (runs with a history) L >= N / no limit; '
                    'REPEATED INCLUDES (family rinc, +25% cases and 20 hand-built ones): the SAME include - a system include <x> under a '
                    'host systemPrefix (absent / empty / directory / file in a directory) or a quoted include - executed 2+ times in one run '
                    'with statements in between: straight-line, from two different included scripts, directly and through an included '
                    'script (diamond; libraries that include libraries), inside jump-level / while / for loops, inside functions called '
                    'repeatedly, inside call-back predicates (also through systemPartial) and recursive functions, twice in ONE include '
                    'statement; included scripts that are empty / comment-only at the end of the run, nested, or last in a multi-script '
                    'include statement; every L in 1..N+2 for N <= 60 (thorough 120) and L = 0; extra oracles: started statements = log '
                    'lines + announced include/function statements (every such statement is preceded by a log statement), static '
                    'statement count of straight-line programs; a library call-back recursion that starts no statement (implementation '
                    'only, limits 0, 4, 5, 100, must stop)')
    lib = fw.impl()['library']
    if not lib.DEFAULT_MAX_STATEMENTS > 0:
        ctx.witness('default-limit-positive', 'library.DEFAULT_MAX_STATEMENTS', '> 0', lib.DEFAULT_MAX_STATEMENTS)
    run_cases(ctx, st, name, make_cases(rng, n), rng, driver)


def run_cases(ctx, st, name, cases, rng, driver):
    """every case under all its limits and option histories (check_program) + one batch of model comparisons"""
    pending = []
    reqs = []
    for case in cases:
        if c08.HANGS[0] >= 3:
            ctx.notes.append('stream stopped: the implementation did not stop under maxStatements in 3 runs')
            break
        r, outs, limits, extra = check_program(ctx, st, case, rng, driver and ctx.driver is not None)
        pending.append((case, limits, outs, len(r), extra))
        reqs += r
    if reqs:
        resps = ctx.driver.batch(reqs)
        pos = 0
        for case, limits, outs, nreq, extra in pending:
            if not nreq:
                continue
            for limit, out, resp in zip(limits, outs, resps[pos:pos + nreq]):
                if 'hostexc' not in out and '<cycle>' not in json.dumps(out):
                    ctx.compare(name, case_key(case) + [limit], progen.canon_neg_zero(out),
                                progen.canon_neg_zero(progen.canon_model_out(resp)))
            # Lean `execute` sets the counter of whatever state it is given to 0 (C09.own_budget): the run on an options object with
            # a history is compared with the same model answer
            for ix, limit, prep, out in extra:
                if ix < nreq and 'hostexc' not in out and '<cycle>' not in json.dumps(out):
                    ctx.compare(name, case_key(case) + [limit, prep], progen.canon_neg_zero(out),
                                progen.canon_neg_zero(progen.canon_model_out(resps[pos + ix])))
            pos += nreq


def stream_tail(ctx, n, rounds, driver=True, name='tail-callback'):
    rng = ctx.rng(name)
    st = ctx.stream(name,
                    'fully-logged programs whose LAST started statement is inside a script function that LIBRARY or HOST code calls back '
                    '(family tailcb): leaf = arraySort compare function (plain, a systemPartial value, through systemPartial(arraySort, a), '
                    'returning no number), arrayIndexOf / arrayLastIndexOf match function (with start index, partial predicate, through '
                    'systemPartial(arrayIndexOf, a)), the target of a partial (of a partial), a function named in the expression string of '
                    'dataFilter / dataCalculatedField / dataJoin (left, right, with variables = copied options; a library call-back '
                    'inside the expression), a direct call, a host function applying its argument (callable object, '
                    'functools.partial with try/finally, partial of a host function); 0-2 enclosing levels - function bodies ending '
                    'with the call (expression statement, assignment, return), match / compare / data / partial / host call-backs '
                    'ending with it, functions and scripts ending with an include of a script that ends with it; the call is the last thing '
                    'the run does (70%) or 1-2 statements follow; directed part: every leaf x {last top-level statement, included script, '
                    'function, random level} and every level at depth 1 and 2, all in tail position; EVERY limit L in 1..N+2 for N <= 100 '
                    '(thorough 200) + L = 0, 30% also with debug, all also on options objects with a history (as in stream budget); oracles of '
                    'stream budget: the run is aborted iff N > L (a swallowed budget error lets the run complete under L < N) with the exact '
                    'text and count L+1, identical outcome for L >= N and L = 0, log / global-snapshot prefix, started statements counted through '
                    'the log (= L at an abort), globals at the abort = globals of the unlimited run at that point, independent reference '
                    'interpreter; model comparison for the programs that use only library functions of the Lean driver host (arrayIndexOf with '
                    '2 arguments, systemPartial, includes); arraySort with a compare function, arrayLastIndexOf, start indices, the data '
                    'functions and host functions are not in the Lean host: implementation-side oracles only there; arrays sorted with a '
                    'compare function are not reachable from the globals; non-trivial = L within 2 of N or the run is aborted')
    cases = tail_directed(rng, rounds) + [tailcb_case(rng) for _ in range(n)]
    run_cases(ctx, st, name, cases, rng, driver)


def stream_datax(ctx, n, nscaled, name='data-repeated'):
    rng = ctx.rng(name)
    st = ctx.stream(name,
                    'fully-logged programs that call dataFilter / dataCalculatedField / dataJoin (left and right expression) REPEATEDLY in '
                    'one run (family datax, implementation-side oracles only: the data functions are neither in the Lean host nor in the '
                    'reference interpreter): variables argument absent / a fresh object per call / the SAME object passed to every call '
                    '(aliasing) / two shared objects in random order / a shared empty object / a mix; the script function named in the '
                    'expression is plain / executes an include statement / calls a function whose body has an include statement / makes a '
                    'nested data call / runs a library call-back (arrayIndexOf with a script predicate that may include) / includes a script '
                    'that calls a data function; expression ff(x), ff(x + k), x > k (no call), a library call-back inside the expression; '
                    'the call repeated straight-line with 0-2 statements in between, in a jump-level loop (also endless), inside a function '
                    'called repeatedly, inside a match function, in a recursive function; directed part: every body x {shared, fresh, no} '
                    'variables, every shape and expression kind with a shared variables object, two endless loops; SCALE part: 9, 10, 11, '
                    '16, 17, 64, 65, 100, 101, 128, 129 (thorough: 256, 1000) calls or 9, 10, 11, 16, 17 (thorough: 64, 65) rows; every limit '
                    'L in 1..N+2 for N <= 60 (thorough 120), sampled above, L = 0, and on options objects with a history (as in stream budget); '
                    'every statement logs first and function / include statements are announced by a log statement: oracles of stream '
                    'budget - aborted iff N > L with the exact text and count L+1, identical for L >= N and L = 0, log / global-snapshot '
                    'prefix, started statements counted through the log (= L at an abort, = statementCount of a complete run); '
                    'non-trivial = L within 2 of N or the run is aborted')
    cases = datax_directed(rng) + [datax_case(rng) for _ in range(n)] + [datax_scaled(rng, ctx.quick) for _ in range(nscaled)]
    run_cases(ctx, st, name, cases, rng, False)


# ---------------------------------------------------------------------------------------------------------------------
# host forms of the limit (stream 'limit-forms').  maxStatements is a host value: an int, but also a float (a limit read from
# JSON, computed by a script, written 1e3 as the library writes its own default 1e9), a Fraction / Decimal (a configuration
# layer), an int subclass, a bool; the options object may be a dict of another class.  A positive limit of any of these forms
# bounds the run exactly like the equal int; a non-integral x >= 1 like floor(x); 0 < x < 1 lets no statement start; 0.0, -0.0,
# False, Fraction(0), Decimal(0) and infinity are "unlimited".  None of these values exists in the Lean model (its limit is a
# Nat): implementation-side oracles only.  The text in parentheses of the budget error is how the host value prints (50.0,
# 11/2, True) - the property names the error, not that rendering, so it is read as the equal int.
# ---------------------------------------------------------------------------------------------------------------------

class _Limit(int):
    """an int subclass (what an IntEnum member or a wrapped configuration integer is to the runtime)"""


class _Options(dict):
    """a dict subclass (options built by a host framework)"""


LIMIT_FORMS = {
    'int': int,
    'float': float,
    'float-half': lambda L: L + 0.5,
    'fraction': fractions.Fraction,
    'fraction-half': lambda L: fractions.Fraction(2 * L + 1, 2),
    'decimal': decimal.Decimal,
    'decimal-half': lambda L: decimal.Decimal(L) + decimal.Decimal('0.5'),
    'int-subclass': _Limit,
    'bool': lambda L: True,                                  # only for L = 1
}
UNLIMITED_FORMS = {'float-zero': 0.0, 'negative-zero': -0.0, 'false': False, 'fraction-zero': fractions.Fraction(0),
                   'decimal-zero': decimal.Decimal(0), 'int-subclass-zero': _Limit(0), 'infinity': math.inf}
BELOW_ONE_FORMS = {'float-below-one': 0.5, 'fraction-below-one': fractions.Fraction(1, 3), 'decimal-below-one': decimal.Decimal('0.25')}
CONTAINERS = {'dict': None, 'dict-subclass': _Options, 'ordered-dict': collections.OrderedDict}
FORM_EXCEEDED = re.compile(r'^Exceeded maximum script statements \([^()]*\)$')

FORMS_LOOP = """function pd(v):
    systemLog('p1')
    return if(systemLog('p2'), null, v > 1000)
endfunction
vals = if(systemLog('t1'), null, arrayNew(1, 2, 3))
i = if(systemLog('t2'), null, 0)
jumpif (if(systemLog('t3'), null, true)) LT
LT:
jumpif (if(systemLog('t4'), null, %s)) LD
    r = if(systemLog('t5'), null, arrayIndexOf(vals, pd))
    i = if(systemLog('t6'), null, i + 1)
jumpif (if(systemLog('t7'), null, true)) LT
LD:
systemLog('t8')"""


def forms_directed():
    return [{'family': 'fl', 'text': FORMS_LOOP % '!(i < 140)', 'files': None, 'globals': {}, 'nfun': 1, 'scale': True,
             'tags': ['directed', 'loop-with-call-backs']},
            {'family': 'fl', 'text': FORMS_LOOP % 'false', 'files': None, 'globals': {}, 'nfun': 1, 'tags': ['directed', 'endless', 'nonterm']},
            {'family': 'fl', 'text': "systemLog('t1')\nsystemLog('t2')\nsystemLog('t3')", 'files': None, 'globals': {}, 'nfun': 0,
             'tags': ['directed', 'straight']}]


def form_value(form, limit):
    if form in UNLIMITED_FORMS:
        return UNLIMITED_FORMS[form]
    if form in BELOW_ONE_FORMS:
        return BELOW_ONE_FORMS[form]
    return LIMIT_FORMS[form](limit)


def form_norm(out, limit, form):
    """the outcome with the budget error written as under the equal int (see the section comment)"""
    if form != 'int' and FORM_EXCEEDED.match(out.get('error', '')):
        return dict(out, error=f'Exceeded maximum script statements ({limit})')
    return out


def form_oracles(case, model, unl, unl_snaps, limit, form, out, snaps):
    """limit: the int the form stands for (floor of a non-integral value; 0 for the unlimited forms)"""
    if form in BELOW_ONE_FORMS:
        if 'hostexc' in out:
            return [('no-host-exception', None, out['hostexc'])]
        if not FORM_EXCEEDED.match(out.get('error', '')) or out['log'] or out['count'] != 1:
            return [('positive-limit-below-one-starts-nothing', {'error': 'Exceeded maximum script statements', 'log': [], 'count': 1}, out)]
        return []
    return budget_oracles(case, model, unl, unl_snaps, limit, form_norm(out, limit, form), snaps)


def stream_limit_forms(ctx, n, name='limit-forms'):
    rng = ctx.rng(name)
    st = ctx.stream(name,
                    'HOST FORMS OF THE LIMIT (implementation-side oracles only: the limit of the Lean model is a Nat, host-only values '
                    'cannot be expressed there): fully-logged programs (3 hand-built: a 1400-statement loop with call-backs, the same loop '
                    'endless, straight-line; generated: jump-level programs with loops / recursion / call-backs / endless loops, repeated '
                    'includes, repeated data calls) run with maxStatements = L given as int, float (L.0), float L+0.5, Fraction(L), '
                    'Fraction(L+1/2), Decimal(L), Decimal(L+0.5), an int subclass, True (L = 1), in an options object that is a dict, a dict '
                    'subclass or an OrderedDict; L in {1, 2, N-1, N, N+1, 2 samples} (the long loop: 1, 2, 9, 10, 11, 16, 17, 64, 65, 100, '
                    '101, 128, 129, 256, 1000; endless programs: 1, 2, 7 and a sample); oracles of stream budget with the form read as the '
                    'int floor(value): aborted iff N > L with count L+1 (the error text in parentheses is the host rendering of the value '
                    'and is not compared), identical outcome for L >= N, log / global-snapshot prefix, started statements counted through '
                    'the log = L at an abort; 0.0, -0.0, False, Fraction(0), Decimal(0), int-subclass 0 and infinity: identical to the '
                    'unlimited run (terminating programs only); 0.5, Fraction(1/3), Decimal(0.25): aborted before the first statement; '
                    'non-trivial = every case with a form other than int, or L within 2 of N')
    parser = fw.impl()['parser']
    cases = forms_directed()
    for ix in range(n):
        cases.append([fl_case, rinc_case, datax_case, fl_case, include_case][ix % 5](rng))
    failed = set()       # forms that already let a terminating program run on: not tried on endless programs (the watchdog would fire each time)
    for case in sorted(cases, key=lambda c: 'nonterm' in c['tags']):
        if c08.HANGS[0] >= 3:
            ctx.notes.append('stream stopped: the implementation did not stop under maxStatements in 3 runs')
            break
        model = parser.parse_script(case['text'])
        fully = case['family'] in FULLY
        unl, unl_snaps = run_impl(model, case, CAP)
        if 'hostexc' in unl:
            continue
        nonterm = EXCEEDED.match(unl.get('error', '')) is not None
        total = None if nonterm else unl['count']
        if nonterm:
            limits = sorted({1, 2, 7, rng.randint(8, 200)})
        elif case.get('scale'):
            limits = [s for s in SCALE if 0 < s <= total + 1] + [total - 1, total, total + 1]
        else:
            limits = sorted(l for l in {1, 2, total - 1, total, total + 1, rng.randint(1, max(1, total)), rng.randint(1, max(1, total))} if l > 0)
        runs = []
        for limit in limits:
            forms = ['float'] + rng.sample([f for f in LIMIT_FORMS if f not in ('float', 'bool')], 4) + (['bool'] if limit == 1 else [])
            runs += [(limit, form) for form in forms]
        runs += [(0, form) for form in BELOW_ONE_FORMS]
        if not nonterm:
            runs += [(0, form) for form in UNLIMITED_FORMS]
        for limit, form in runs:
            if nonterm and form in failed:
                continue
            container = rng.choice(sorted(CONTAINERS))
            out, snaps = run_impl(model, case, form_value(form, limit), container=container)
            aborted = bool(FORM_EXCEEDED.match(out.get('error', '')))
            st.case(case_key(case) + [form, limit, container],
                    nontrivial=form != 'int' or nonterm or abs(limit - total) <= 2,
                    tags=['form:' + form, 'container:' + container, 'aborted' if aborted else 'error' if 'error' in out else 'completed',
                          'family:' + case['family']] + (case['tags'] if (limit, form) == runs[-1] else []))
            for oracle, expected, actual in form_oracles(case, model, unl, unl_snaps, limit, form, out, snaps if fully else None):
                failed.add(form)
                ctx.witness(oracle, {'case': case, 'limit': limit, 'form': form, 'container': container}, expected, actual)


def replay_form(witness):
    inp = witness['input']
    case = inp['case']
    model = fw.impl()['parser'].parse_script(case['text'])
    unl, unl_snaps = run_impl(model, case, CAP)
    out, snaps = run_impl(model, case, form_value(inp['form'], inp['limit']), container=inp.get('container'))
    if witness['oracle'] == 'run-stops-within-budget':
        return out.get('hostexc', '').startswith('Hang')
    bad = form_oracles(case, model, unl, unl_snaps, inp['limit'], inp['form'], out, snaps if case['family'] in FULLY else None)
    return any(b[0] == witness['oracle'] for b in bad)


# ---------------------------------------------------------------------------------------------------------------------
# the VALUE of a limit that is not reached (stream 'limit-values').  "A run that completes after N statements behaves identically
# under every limit >= N and under 0": the limit is a bound, not a parameter of the execution - nothing a run does may be sized,
# switched or tuned by the number in maxStatements as long as that number is not reached.  What makes a run sensitive to such
# tuning is host resources: deep script recursion lives on the host stack (CPython turns an exhausted stack into RecursionError,
# the call wrapper turns that into null and the script carries on), long loops and call-back chains on host time / counters.
# So: programs from every family, and directed ones (recursion 50..400 levels with the recursive call 0..4 expression nodes deep
# - direct, statement-wise with log lines and global writes, mutual through function arguments, through a library call-back,
# through partials -, loops of 9..700 iterations with calls / call-backs), are run under 0 (the reference), under no
# maxStatements key, and under N, N+1, N+2, 1.25N, 1.5N, 2N, 3N, 5N, 10N, 1000, 2500, 10000, 1e6, 1e9, 1e9+1, 2^31, 2^63, 1e18
# (those >= N) - all from the same host stack depth, and with the host stack headroom as a CONFIGURATION: the recursion limit
# of the process as it is, and set by the harness to (frames in use) + 350 / 3000 / 6000 around the runs (restored afterwards).
# Whether the recursion fits the host stack or not, the outcomes must be identical; the recursion limit of the process must be
# what it was when execute_script returns or raises.  The Lean model has no host stack (ASSUMPTIONS): implementation-side
# oracles only.
# ---------------------------------------------------------------------------------------------------------------------

VALUE_DEPTHS = [50, 64, 65, 100, 101, 128, 129, 200, 256, 300, 340, 400]
VALUE_ITERS = [9, 10, 11, 64, 65, 100, 256, 700]
VALUE_BIG = [1000, 2500, 10000, 10 ** 6, 10 ** 9, 10 ** 9 + 1, 2 ** 31, 2 ** 63, 10 ** 18]
VALUE_CAP = 20000
HEADROOMS = {'default': None, 'lowered': 350, 'raised': 3000, 'raised-high': 6000}
NUM_WRAPS = ['0 + {}', '({})', 'mathMax(0, {})', 'if(true, {}, 0)', '-(-{})', '{} * 1', 'arrayGet(arrayNew({}), 0)', 'mathFloor({})']
BOOL_WRAPS = ['!(!{})', '({})', 'if({}, true, false)', '{} && true', 'arrayGet(arrayNew({}), 0)', 'false || {}']
VALUE_SHAPES = {
    'return-expr': ("function f(n):\n    return if(n > 0, 1 + @, 0)\nendfunction\nsystemLog('start')\ntotal = f(DEPTH)\n"
                    "systemLog('total = ' + total)\nreturn total", 'f(n - 1)', NUM_WRAPS, 'depth'),
    'statements': ("function f(n):\n    systemLog('in ' + n)\n    if n <= 0:\n        return 0\n    endif\n    r = @\n"
                   "    systemGlobalSet('seen', systemGlobalGet('seen') + 1)\n    return r + 1\nendfunction\nseen = 0\ntotal = f(DEPTH)\n"
                   "systemLog('total = ' + total + ' seen = ' + seen)\nreturn total", 'f(n - 1)', NUM_WRAPS, 'depth'),
    'mutual-arg': ("function even(n, other):\n    return if(n == 0, true, @)\nendfunction\nfunction odd(n, other):\n"
                   "    return if(n == 0, false, @)\nendfunction\nsystemLog('start')\nresult = even(DEPTH, odd)\n"
                   "systemLog('even = ' + result)\nreturn result", 'other(n - 1, SELF)', BOOL_WRAPS, 'even'),
    'callback': ("function p(v):\n    systemGlobalSet('calls', systemGlobalGet('calls') + 1)\n    return if(v <= 0, true, @)\nendfunction\n"
                 "calls = 0\nr = p(DEPTH)\nsystemLog('r = ' + r + ' calls = ' + calls)\nreturn r",
                 'arrayIndexOf(arrayNew(v - 1), p) == 0', BOOL_WRAPS, 'true'),
    'partial': ("function f(k, n):\n    if n <= 0:\n        return 0\n    endif\n    g = systemPartial(f, k)\n    return k + @\nendfunction\n"
                "total = f(1, DEPTH)\nsystemLog('total = ' + total)\nreturn total", 'g(n - 1)', NUM_WRAPS, 'depth'),
}
VALUE_LOOPS = {
    'while-call': ("function step(i):\n    return i % 3\nendfunction\ni = 0\ns = 0\nwhile i < ITER:\n    s = s + @\n    i = i + 1\nendwhile\n"
                   "systemLog('s = ' + s)\nreturn s", 'step(i)', NUM_WRAPS),
    'for-callback': ("function pq(t, v):\n    return v == t\nendfunction\nfunction cmp(a, b):\n    return b - a\nendfunction\nvals = arrayNew(4, 1, 3, 0, 2)\n"
                     "xs = arrayNew()\ni = 0\nfill:\narrayPush(xs, i)\ni = i + 1\njumpif (i < ITER) fill\ns = 0\nfor x, ix in xs:\n"
                     "    s = s + @\n    if ix % 50 == 0:\n        arraySort(arrayCopy(vals), cmp)\n        systemLog('at ' + ix + ': ' + s)\n    endif\nendfor\n"
                     "return s", 'arrayIndexOf(vals, systemPartial(pq, x % 5))', NUM_WRAPS),
    'jump-chain': ("function c1(v):\n    return c2(v) + 1\nendfunction\nfunction c2(v):\n    return arrayIndexOf(arrayNew(v), c3)\nendfunction\n"
                   "function c3(v):\n    w = systemPartial(c4, v)\n    return w(1)\nendfunction\nfunction c4(v, k):\n    return v + k > 0\nendfunction\n"
                   "i = 0\ns = 0\nloop:\ns = s + @\ni = i + 1\njumpif (i < ITER) loop\nsystemLog('s = ' + s)\nreturn s", 'c1(i)', NUM_WRAPS),
}


def value_case(rng, shape=None, depth=None, k=None):
    """deep recursion: `depth` levels, the recursive call under k wrapper expression nodes (on top of those of the shape)"""
    shape = shape or rng.choice(sorted(VALUE_SHAPES))
    depth = depth if depth is not None else rng.choice(VALUE_DEPTHS)
    k = k if k is not None else rng.randint(0, 4)
    text, call, pool, expect = VALUE_SHAPES[shape]
    parts = text.split('@')
    out = parts[0]
    for ix, part in enumerate(parts[1:]):
        expr = call.replace('SELF', ['even', 'odd'][ix % 2])
        for _ in range(k):
            expr = rng.choice(pool).format(expr)
        out += expr + part
    want = float(depth) if expect == 'depth' else (depth % 2 == 0) if expect == 'even' else True
    return {'family': 'value', 'text': out, 'files': None, 'globals': {'DEPTH': depth}, 'nfun': None, 'expect': want, 'deep': True,
            'tags': ['deep-recursion', 'shape:' + shape, f'levels:{depth}', f'expr-depth:{k}']}


def value_loop_case(rng, shape=None, iters=None):
    shape = shape or rng.choice(sorted(VALUE_LOOPS))
    iters = iters if iters is not None else rng.choice(VALUE_ITERS)
    text, call, pool = VALUE_LOOPS[shape]
    expr = call
    for _ in range(rng.randint(0, 3)):
        expr = rng.choice(pool).format(expr)
    return {'family': 'value', 'text': text.replace('@', expr), 'files': None, 'globals': {'ITER': iters}, 'nfun': None,
            'tags': ['long-loop', 'shape:' + shape, f'iterations:{iters}']}


def value_directed(rng, quick):
    """every recursion shape x every expression depth at a depth beyond the default host stack (>= 200 levels) and one within; every loop
    shape at its largest size"""
    cases = []
    for shape in sorted(VALUE_SHAPES):
        for k in range(5):
            cases.append(value_case(rng, shape, rng.choice([200, 256, 300, 340, 400]), k))
        cases.append(value_case(rng, shape, rng.choice([50, 64, 65, 100, 101]), rng.randint(0, 4)))
    for shape in sorted(VALUE_LOOPS):
        cases.append(value_loop_case(rng, shape, 256 if quick else 700))
    return cases


def value_limits(rng, n):
    """the limits >= n of the value axis (None = no maxStatements key) + three limits below n (the abort path)"""
    ls = {n, n + 1, n + 2, n + n // 4, n + n // 2, 2 * n, 3 * n, 5 * n, 10 * n, rng.randint(n, 4 * n + 1000)}
    ls |= {big for big in VALUE_BIG if big >= n}
    below = {l for l in (1, n // 2, n - 1) if 0 < l < n}
    return sorted(below) + sorted(ls) + [None]


def _frames_in_use():
    depth, frame = 0, sys._getframe()           # pylint: disable=protected-access
    while frame is not None:
        depth, frame = depth + 1, frame.f_back
    return depth


def run_value(model, case, limit, room):
    """run_impl with the host stack headroom `room` (a key of HEADROOMS) as a configuration -> (outcome, snapshots, change of the
    recursion limit of the process across the run); the callers make all runs of one comparison from the same stack depth"""
    old = sys.getrecursionlimit()
    headroom = HEADROOMS[room]
    try:
        if headroom is not None:
            sys.setrecursionlimit(_frames_in_use() + headroom)
        before = sys.getrecursionlimit()
        out, snaps = run_impl(model, case, limit)
        delta = sys.getrecursionlimit() - before
    finally:
        sys.setrecursionlimit(old)
    return out, snaps, delta


def value_oracles(case, model, ref, ref_snaps, limit, out, snaps, delta):
    """ref: the outcome under 0 (a run that completes after ref['count'] statements); out: the outcome under `limit` (None = default)"""
    bad = []
    if delta != 0:
        bad.append(('host-recursion-limit-restored', {'change': 0}, {'change': delta}))
    if 'hostexc' in out:
        return bad + [('no-host-exception', None, out['hostexc'])]
    fully = case['family'] in FULLY
    if limit is None or limit == 0 or limit >= ref['count']:
        if out != ref or (fully and snaps != ref_snaps):
            bad.append(('identical-for-every-limit-value', ref, out))
    else:
        bad += budget_oracles(case, model, ref, ref_snaps, limit, out, snaps if fully else None)
    return bad


def value_runs(model, case, room, limits_fn):
    """All runs of one comparison, made in ONE loop of ONE function so that every execute_script starts from the same host stack depth
    (one frame more or less moves the level at which a deep recursion overflows): first a run under VALUE_CAP - it tells whether the
    program completes, and it warms the process up (whatever the implementation or the harness builds lazily on a first run is
    built before the runs that are compared) -, then the reference under 0, then the limits limits_fn(N).
    -> None (the program does not complete under the cap) | [(limit, outcome, snapshots, change of the recursion limit)], reference first"""
    runs = []
    todo = [VALUE_CAP, 0]
    ix = 0
    while ix < len(todo):
        limit = todo[ix]
        ix += 1
        out, snaps, delta = run_value(model, case, limit, room)              # the one call site of all runs
        failed = 'hostexc' in out or 'error' in out
        if ix == 1:
            if failed:
                return None
            continue
        runs.append((limit, out, snaps, delta))
        if ix == 2 and not failed:
            todo += list(limits_fn(out['count']))
    return runs


def check_values(ctx, st, case, model, rng, room):
    runs = value_runs(model, case, room, lambda n: value_limits(rng, n))
    if not runs or len(runs) == 1:
        return
    _, ref, ref_snaps, _ = runs[0]
    lib = fw.impl()['library'].SCRIPT_FUNCTIONS
    fits = 'expect' not in case or ref.get('result') == progen.value_to_wire(case['expect'], lib)
    for limit, out, snaps, delta in runs[1:]:
        above = limit is None or limit >= ref['count']
        st.case(case_key(case) + [case['globals'] if case['family'] == 'value' else None, limit, room], nontrivial=above or limit == ref['count'] - 1,
                tags=['limit:' + ('default' if limit is None else 'below-N' if not above else 'N..N+2' if limit <= ref['count'] + 2 else
                                  '<=10N' if limit <= 10 * ref['count'] else 'large'),
                      'headroom:' + room, 'host-stack:' + ('fits' if fits else 'overflows'), 'family:' + case['family']]
                + (case['tags'] if limit is None else []))
        for oracle, expected, actual in value_oracles(case, model, ref, ref_snaps, limit, out, snaps, delta):
            ctx.witness(oracle, {'case': case, 'limit': limit, 'headroom': room}, expected, actual)


def stream_limit_values(ctx, ndeep, nloops, nother, name='limit-values'):
    rng = ctx.rng(name)
    st = ctx.stream(name,
                    'THE VALUE OF A LIMIT THAT IS NOT REACHED (implementation-side oracles only: the Lean model has no host stack and no '
                    'host limits): directed programs - script recursion of 50, 64, 65, 100, 101, 128, 129, 200, 256, 300, 340, 400 levels with '
                    'the recursive call under 0..4 wrapper expression nodes (binary, group, unary, if(), library-call argument) in 5 shapes: in '
                    'a return expression, statement-wise with a log line and a global write per level, mutual recursion through function '
                    'arguments, through an arrayIndexOf call-back, through systemPartial values (every shape x every expression depth at '
                    '>= 200 levels + one shallow, and random ones); loops of 9, 10, 11, 64, 65, 100, 256, 700 iterations (while with a call, '
                    'for with arrayIndexOf / systemPartial / arraySort call-backs, jump loop over a call-back chain of four functions) - and '
                    'terminating generated programs of every family (fl, rinc, datax, include, tailcb, partial, gen); each run under 0 (the '
                    'reference), without a maxStatements key (the default) and under N, N+1, N+2, 1.25N, 1.5N, 2N, 3N, 5N, 10N, a sample in '
                    'N..4N+1000, 1000, 2500, 10000, 1e6, 1e9, 1e9+1, 2^31, 2^63, 1e18 (those >= N) and under 1, N/2, N-1; HOST STACK HEADROOM '
                    'as a configuration: the recursion limit of the process as it is, and set by the harness to frames-in-use + 350 / 3000 / '
                    '6000 around the runs (quick: as it is + one of the three; restored afterwards), all runs of one comparison from the same '
                    'stack depth; oracles: result, error, log, globals, statementCount (+ global snapshots of fully-logged programs) '
                    'identical to the reference under every limit >= N and the default - whether the recursion fits the host stack (the '
                    'result is then the closed form: tag host-stack:fits) or not (RecursionError -> null inside the call wrapper: tag '
                    'host-stack:overflows) -, the oracles of stream budget under the limits below N, and the recursion limit of the process '
                    'is the same after execute_script as before (completed and aborted runs); non-trivial = limit >= N - 1 or the default')
    parser = fw.impl()['parser']
    cases = value_directed(rng, ctx.quick) + [value_case(rng) for _ in range(ndeep)] + [value_loop_case(rng) for _ in range(nloops)]
    others = [fl_case, rinc_case, datax_case, include_case, tailcb_case, partial_case, gen_case]
    for ix in range(nother):
        case = others[ix % len(others)](rng)
        if 'nonterm' not in case['tags']:
            cases.append(case)
    extra = [room for room in HEADROOMS if room != 'default']
    for case in cases:
        if c08.HANGS[0] >= 3:
            ctx.notes.append('stream stopped: the implementation did not stop under maxStatements in 3 runs')
            break
        model = parser.parse_script(case['text'])
        for room in ['default'] + ([rng.choice(extra)] if ctx.quick or not case.get('deep') else extra):
            check_values(ctx, st, case, model, rng, room)


def replay_value(witness):
    inp = witness['input']
    case = inp['case']
    model = fw.impl()['parser'].parse_script(case['text'])
    runs = value_runs(model, case, inp['headroom'], lambda n: [inp['limit']])
    if not runs or len(runs) == 1:
        return False
    (_, ref, ref_snaps, _), (limit, out, snaps, delta) = runs
    if witness['oracle'] == 'run-stops-within-budget':
        return out.get('hostexc', '').startswith('Hang')
    return any(b[0] == witness['oracle'] for b in value_oracles(case, model, ref, ref_snaps, limit, out, snaps, delta))


def streams(ctx):
    stream_budget(ctx, ctx.scale(260, 3500))          # thorough: 3500 (was 4000) - the time went to the two streams below
    stream_tail(ctx, ctx.scale(40, 1000), ctx.scale(1, 5))
    stream_datax(ctx, ctx.scale(30, 220), ctx.scale(6, 24))
    stream_limit_forms(ctx, ctx.scale(15, 80))
    stream_limit_values(ctx, ctx.scale(4, 40), ctx.scale(3, 20), ctx.scale(14, 100))


def disagreement_known(d, known):
    return False


def search(ctx):
    stream_budget(ctx, ctx.scale(1500, 8000), driver=False, name='search-budget')


def replay(witness):
    inp = witness['input']
    if not isinstance(inp, dict) or not isinstance(inp.get('case'), dict):
        return False
    if 'form' in inp:
        return replay_form(witness)
    if 'headroom' in inp:
        return replay_value(witness)
    # first as the check ran it - after the earlier runs of the same case in this process -, then the run alone
    if (inp.get('before') or inp.get('before_prep')) and replay_once(witness, True):
        return True
    return replay_once(witness, False)


def replay_once(witness, history):
    inp = witness['input']
    case = inp['case']
    model = fw.impl()['parser'].parse_script(case['text'])
    limit = inp['limit']
    prep = inp.get('prep')
    fully = case['family'] in FULLY
    before = (inp.get('before') or []) if history else []
    before_prep = (inp.get('before_prep') or []) if history else []
    bad = []
    if prep is None:
        unl, unl_snaps = run_impl(model, case, CAP)
        for earlier in before:
            run_impl(model, case, earlier)
        out, snaps = run_impl(model, case, limit)
        pcase, eff = case, limit
    else:
        is_plain = plain(prep) and case['family'] != 'session'
        pcase = dict(case, nfun=None, premarks=False) if not is_plain and (case['family'] in ('fl', 'data', 'tailcb') or prep['debug']) else case
        eff = 0 if limit is None else limit
        if before:
            run_impl(model, case, CAP)
            for earlier in before:
                run_impl(model, case, earlier)
        unl, unl_snaps = run_impl(model, case, CAP, prep, reuse=False)
        for earlier in before_prep:
            if not is_plain:
                run_impl(model, case, earlier, prep, reuse=False)
            run_impl(model, case, earlier, prep, reuse=True)
        fresh, fresh_snaps = run_impl(model, case, limit, prep, reuse=False)
        out, snaps = (run_impl(model, case, limit, prep, reuse=True) if inp.get('reuse', True) else (fresh, fresh_snaps))
        if 'hostexc' not in out and 'hostexc' not in fresh and (out != fresh or (fully and snaps != fresh_snaps)):
            bad.append(('own-budget-whatever-the-options-held', fresh, out))
    if witness['oracle'] == 'run-stops-within-budget':
        return out.get('hostexc', '').startswith('Hang') or unl.get('hostexc', '').startswith('Hang')
    if limit == CAP:
        if started_at_cap(pcase, unl) is not None:
            bad.append(('started-statements', None, None))
        if prep is None and static_bad(case, unl) is not None:
            bad.append(('static-statement-count', None, None))
    else:
        bad += budget_oracles(pcase, model, unl, unl_snaps, eff, out, snaps if fully else None)
    if case['family'] not in ('data', 'session') and not case.get('noref') and 'hostexc' not in out and (prep is None or plain(prep)):
        ref = run_reference(model, case, eff)
        if ref is not None and c08.no_neg_zero(ref) != c08.no_neg_zero(out):
            bad.append(('independent-statement-count', ref, out))
    return any(b[0] == witness['oracle'] for b in bad)


LEVEL_TEXT = ('Theorems about the Lean mirror of the runtime (one counter in the state, incremented and tested at the head of every '
              'statement of top-level scripts, script functions however invoked - direct calls or call-backs from arbitrary library '
              'interaction trees - and included scripts), for every program, host, state and fuel: the counter never decreases and '
              'strictly increases over every started statement; with limit L>0 a run started within the budget ends with count<=L, '
              'except the budget error, which carries L and is raised with count = L+1; against the unlimited run that completes after '
              'N statements: L=0 or L>=N gives the identical outcome, 0<L<N gives the budget error at count L+1, and the world at the '
              'abort is below the unlimited final world for every preorder the host respects (instantiated: the log of the concrete '
              'host is a prefix); a result reached with some fuel is the result for every larger fuel, and the limited run never '
              'needs more fuel than the unlimited one. "No script can run forever" (C09Term.lean): for L>0 and every host whose '
              'call-backs are well-founded (HostWF: a value/world invariant preserved by all host operations and a call rank that '
              'decreases along call-backs; RankWF without invariant) every run from an admissible state - execute, a statement list from '
              'any index/locals/counter, a call, an include statement - ends with some fuel and with every larger one '
              '(no_infinite_run, _execM, _call, _includes, _result); instantiated for the driver host and for the HostLib host from '
              'every start state passing a decidable check (no systemPartial/partials, or no arrayIndexOf function value and no '
              'dangling partial; Lib never fabricates function values: LibParam.lib_q); the hypothesis is necessary: a self-calling '
              'library function, and on BOTH concrete hosts the partial application systemPartial(arrayIndexOf, a) stored in a, run '
              'out of fuel for every fuel (Counter.*_runs_forever, *_not_wf). Tied to the code by differential correspondence over generated programs (loops, '
              'recursion, call-backs, nested includes) x every limit in 1..N+2 / sampled limits / 0, and by implementation oracles: '
              'exact abort text and count, identity above N, log and global-snapshot prefixes, started statements counted through the '
              'log of fully-logged programs (also through dataFilter/dataCalculatedField/dataJoin call-backs), independent '
              'reference interpreter with its own counter; the same include (system includes under a host systemPrefix, quoted includes, '
              'includes of includes) executed repeatedly in one run - straight-line, from different scripts, in loops, in functions '
              'called repeatedly and call-backs - and empty / comment-only included scripts at the budget boundary, with started '
              'statements counted through the log and statically; programs whose last started statement is inside a script function '
              'that library or host code calls back (arraySort compare functions, arrayIndexOf / arrayLastIndexOf match functions, '
              'partial targets, functions in data expressions, host functions; under 0-2 enclosing functions, call-backs and includes, '
              'nothing running afterwards) under every limit 1..N+2: the budget error must reach the host from every one of them. Data functions called repeatedly in one run (variables argument absent / fresh / the same object every time; call-backs that '
              'include, call functions that include, make nested data calls or run library call-backs; in loops, functions, match '
              'functions and recursion; 9..129 calls or 9..17 rows on a scale axis) under every limit, and the limit in its host forms '
              '(float, Fraction, Decimal, int subclass, bool, non-integral and below-one values, zero forms and infinity, options objects of '
              'other dict classes) are checked with implementation-side oracles only. The VALUE of a limit that is not reached must not matter: '
              'deep recursion (50..400 levels, recursive call 0..4 expression nodes deep, direct / statement-wise / mutual / through call-backs / '
              'through partials), long loops, call-back chains and programs of every family give the identical result, log, globals and '
              'statementCount under 0, the default and N, N+1, .., 10N, 1000, 2500, 10000, 1e6, 1e9, 2^31, 2^63, 1e18, with the host stack '
              'headroom as it is, lowered and raised by the harness, and leave the recursion limit of the process as it was '
              '(implementation-side oracles only). A run does not depend on the counter the state holds when it starts '
              '(own_budget, own_budget_session), tied to the code by running every program on options objects with a history (earlier '
              'runs on the same dict - completed, aborted, failed, other limits -, copied dicts, host-provided statementCount, kept or '
              'reset globals, debug, no maxStatements key, two-script sessions whose second script calls the functions of the first): '
              'each run must satisfy all oracles against, and be identical to, the same run on a brand-new options dict.')
LEVEL_NOTE = ('no_infinite_run is proved under the explicit host hypothesis HostWF (C09Term.lean) and, for the two concrete hosts, from '
              'the start states passing implStateOk/libStateOk; unconditionally it is false in the model (formal counterexamples on '
              'HostImpl and HostLib: a partial application of arrayIndexOf stored in its own array recurses through call-backs without '
              'starting a statement; CPython ends that run with RecursionError -> null, the model has no recursion limit). '
              'no_infinite_run_partial (statement starts bounded by L+1) holds for all hosts and states. The '
              'prefix property for GLOBALS and the data-function call-backs are checked on the implementation only. Trusted: Lean '
              'kernel, correspondence harness, its reference interpreter and generators. Python recursion limit not modelled.')
