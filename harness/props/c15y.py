"""C15 extension streams: the CALL-BACK forms of arrayIndexOf / arrayLastIndexOf / arraySort (BareModel/LibCb.lean, theorems in
BareProofs/C15Cb*.lean) run by `drv_c15y`.

* `cb-pysort`   the pure sorting computation `LibCb.pySort` (count_run + binarysort as CPython 3.12 runs them for n < 64) against CPython's
                own `list.sort(key=functools.cmp_to_key(cmp))` with a recording comparator: result AND the exact sequence of comparisons for
                n < 64 (every comparator incl. random inconsistent ones), result only for n >= 64 (consistent comparators: any stable sort
                agrees - `C15Cb.pySort_eval` + `C11.sortBy_spec`).
* `cb-scripts`  histories of library calls as real scripts (parse_script + execute_script) vs the Lean jump machine over `LibCb.host`
                (`drv_c15y` op exec): ordinary array / object functions mixed with the call-back forms, call-backs from a family of script
                functions (constant, threshold / equality through systemPartial, type tests, logging, mutating the searched / sorted array,
                mutating another array, global counters, comparators ascending / descending / by field / by length / coarse / inconsistent /
                boolean / null / string / failing on one element / aborting with a runtime error) and library functions used as call-backs
                (finding F38 paths); result, log, every global as a tree, statement count, error text.  Oracles written from the property
                statement run on the IMPLEMENTATION: first matching index from the start index (reference predicate), search leaves the array
                alone, sort with a total-preorder comparator = the ordered stable permutation (own insertion sort), any returning sort leaves
                a permutation, a sort that fails on its first comparison leaves the array as it was, an aborted sort leaves a permutation.
Array sizes follow the scale axis 0, 1, 2, 9, 10, 16, 17, 63, 64, 65, 100, 129 (timsort thresholds)."""

import functools
import json

import fw
import progen

THEOREMS = [
    'C15Cb.eval_bind', 'C15Cb.questions_bind', 'C15Cb.bsearch_eval', 'C15Cb.insertBy_split', 'C15Cb.binarySort_eval', 'C15Cb.extendRun_eval',
    'C15Cb.pySort_eval', 'C15Cb.pySort_allPerm', 'C15Cb.runTree_world', 'C15Cb.search_refines', 'C15Cb.indexOf_cb_spec',
    'C15Cb.lastIndexOf_cb_spec', 'C15Cb.cb_frame', 'C15Cb.cb_failure_script', 'C15Cb.cb_failure_lib', 'C15Cb.cb_failure_shrunk',
    'C15Cb.lib_arraySort_cb', 'C15Cb.lib_arrayIndexOf_cb', 'C15Cb.lib_arrayLastIndexOf_cb', 'C15Cb.sort_cb_pure', 'C15Cb.sort_cb_contract', 'C15Cb.sort_cb_perm_always', 'C15Cb.arraySort_cb_perm', 'C15Cb.sort_cb_nonnumber',
]
LEAN_TARGETS = ['BareProofs.C15CbLemmas', 'BareProofs.C15Cb']
EXTRA_TARGETS = ['drv_c15y']

SIZES_EXACT = [0, 1, 2, 3, 5, 9, 10, 16, 17, 33, 63]
SIZES_LARGE = [64, 65, 100, 129]

# ---------------------------------------------------------------------------------------------------------------------
# cb-pysort
# ---------------------------------------------------------------------------------------------------------------------


def lt_matrix(rng, n, mode):
    keys = [rng.randrange(0, max(1, n // 2 + 1)) for _ in range(n)]
    if mode == 'asc':
        return [[int(keys[x] < keys[y]) for y in range(n)] for x in range(n)], True
    if mode == 'desc':
        return [[int(keys[x] > keys[y]) for y in range(n)] for x in range(n)], True
    if mode == 'index':
        return [[int(x < y) for y in range(n)] for x in range(n)], True
    if mode == 'rindex':
        return [[int(x > y) for y in range(n)] for x in range(n)], True
    if mode == 'coarse':
        return [[int(keys[x] // 3 < keys[y] // 3) for y in range(n)] for x in range(n)], True
    if mode == 'never':
        return [[0] * n for _ in range(n)], True
    if mode == 'always':
        return [[1] * n for _ in range(n)], False
    if mode == 'runs':                         # ascending / descending runs glued together
        ks, v = [], 0
        while len(ks) < n:
            step = rng.choice([1, -1])
            for _ in range(rng.randrange(1, 12)):
                v += step * rng.randrange(0, 3)
                ks.append(v)
        ks = ks[:n]
        return [[int(ks[x] < ks[y]) for y in range(n)] for x in range(n)], True
    return [[rng.randrange(2) for _ in range(n)] for _ in range(n)], False      # random, inconsistent


def stream_pysort(ctx, drv):
    st = ctx.stream('cb-pysort', 'LibCb.pySort on 0..n-1 with x<y read from a matrix vs CPython list.sort(key=cmp_to_key(recording cmp)): result and '
                                 'exact comparison sequence for n < 64, result for n >= 64 under consistent comparators; non-trivial = n >= 3')
    rng = ctx.rng('cb-pysort')
    modes = ['asc', 'desc', 'index', 'rindex', 'coarse', 'never', 'always', 'runs', 'random', 'random']
    cases = []
    for n in SIZES_EXACT + list(range(4, 9)) + SIZES_LARGE:
        for mode in modes:
            for _ in range(ctx.scale(2, 12)):
                lt, consistent = lt_matrix(rng, n, mode)
                if n >= 64 and not consistent:
                    continue
                q = []

                def cmp(x, y, lt=lt, q=q):
                    q.append([x, y])
                    return -1 if lt[x][y] else 1
                xs = list(range(n))
                xs.sort(key=functools.cmp_to_key(cmp))
                cases.append((n, mode, lt, xs, q))
    outs = []
    for i in range(0, len(cases), 200):
        outs += drv.batch([{'op': 'pysort', 'n': n, 'lt': lt} for n, _, lt, _, _ in cases[i:i + 200]])
    for (n, mode, lt, xs, q), out in zip(cases, outs):
        st.case([n, mode, lt], nontrivial=n >= 3, tags=['n%d' % n, 'mode:' + mode, 'exact' if n < 64 else 'result-only'])
        case = {'n': n, 'mode': mode, 'lt': lt if n <= 12 else '<%dx%d>' % (n, n)}
        if n < 64:
            ctx.compare('cb-pysort', dict(case, what='result and comparison sequence'), [xs, q], [out.get('res'), out.get('q')])
        else:
            ctx.compare('cb-pysort', dict(case, what='result'), xs, out.get('res'))


# ---------------------------------------------------------------------------------------------------------------------
# cb-scripts: the call-back family
# ---------------------------------------------------------------------------------------------------------------------

PRELUDE = '''
function cbTrue(x):
    return true
endfunction
function cbFalse(x):
    return false
endfunction
function cbNull(x):
endfunction
function cbZero(x):
    return 0
endfunction
function cbStr(x):
    return 'x'
endfunction
function cbEmptyStr(x):
    return ''
endfunction
function cbEmptyArr(x):
    return arrayNew()
endfunction
function cbIsNull(x):
    return x == null
endfunction
function cbGt(t, x):
    return x > t
endfunction
function cbEq(c, x):
    return x == c
endfunction
function cbIsStr(x):
    return systemType(x) == 'string'
endfunction
function cbEven(x):
    return x % 2 == 0
endfunction
function cbLog(x):
    systemLog('p ' + systemType(x) + ' ' + arrayLength(a))
    return x > 1
endfunction
function cbCount(x):
    systemGlobalSet('cnt', systemGlobalGet('cnt', 0) + 1)
    return x == 3
endfunction
function cbPop(x):
    arrayPop(a)
    return false
endfunction
function cbPush(x):
    arrayPush(a, 7)
    return x == 7
endfunction
function cbPushB(x):
    arrayPush(b, x)
    return x == 2
endfunction
function cbAbort(x):
    if x == 2:
        jump nowhere
    endif
    return false
endfunction
function cmpAsc(x, y):
    return x - y
endfunction
function cmpDesc(x, y):
    return y - x
endfunction
function cmpSys(x, y):
    return systemCompare(x, y)
endfunction
function cmpSysDesc(x, y):
    return systemCompare(y, x)
endfunction
function cmpField(x, y):
    return objectGet(x, 'k') - objectGet(y, 'k')
endfunction
function cmpLen(x, y):
    return arrayLength(x) - arrayLength(y)
endfunction
function cmpMod(x, y):
    return x % 3 - y % 3
endfunction
function cmpHalf(x, y):
    return (x - y) / 2
endfunction
function cmpZero(x, y):
    return 0
endfunction
function cmpNeg(x, y):
    return 0 - 1
endfunction
function cmpPos(x, y):
    return 1
endfunction
function cmpBool(x, y):
    return x < y
endfunction
function cmpNull(x, y):
endfunction
function cmpStr(x, y):
    return 'a'
endfunction
function cmpFailOn(v, x, y):
    return if(x == v || y == v, null, x - y)
endfunction
function cmpIncons(x, y):
    return (x * 7) % 5 - (y * 3) % 5
endfunction
function cmpLog(x, y):
    systemLog('c ' + systemType(x) + ' ' + x + ' ' + y + ' ' + arrayLength(a))
    return x - y
endfunction
function cmpPush(x, y):
    arrayPush(a, 0)
    return x - y
endfunction
function cmpPushB(x, y):
    arrayPush(b, x)
    return x - y
endfunction
function cmpCount(x, y):
    systemGlobalSet('cnt', systemGlobalGet('cnt', 0) + 1)
    return y - x
endfunction
function cmpAbort(x, y):
    if x == 2:
        jump nowhere
    endif
    return x - y
endfunction
'''


def is_num(x):
    return isinstance(x, (int, float)) and not isinstance(x, bool)


def truthy(x):
    if x is None:
        return False
    if isinstance(x, str):
        return x != ''
    if isinstance(x, bool):
        return x
    if is_num(x):
        return x != 0
    if isinstance(x, list):
        return len(x) != 0
    return True


def vtype(x):
    return ('null' if x is None else 'boolean' if isinstance(x, bool) else 'number' if is_num(x) else 'string' if isinstance(x, str)
            else 'array' if isinstance(x, list) else 'object')


def vcmp(a, b):
    """value_compare on null / booleans / numbers / strings / arrays thereof (the generated element classes)"""
    if a is None:
        return 0 if b is None else -1
    if b is None:
        return 1
    ta, tb = vtype(a), vtype(b)
    if ta != tb:
        return -1 if ta < tb else 1
    if ta == 'array':
        for x, y in zip(a, b):
            c = vcmp(x, y)
            if c:
                return c
        return (len(a) > len(b)) - (len(a) < len(b))
    if ta == 'object':
        return None
    return (a > b) - (a < b)


# reference predicates (pure call-backs): name -> (needs parameter, python reference on the element or None = no reference)
PREDS = {
    'cbTrue': (False, lambda x: True), 'cbFalse': (False, lambda x: False), 'cbNull': (False, lambda x: None), 'cbZero': (False, lambda x: 0),
    'cbStr': (False, lambda x: 'x'), 'cbEmptyStr': (False, lambda x: ''), 'cbEmptyArr': (False, lambda x: []),
    'cbIsNull': (False, lambda x: x is None),
    'cbGt': (True, lambda x, t: (vcmp(x, t) or 0) > 0), 'cbEq': (True, lambda x, c: vcmp(x, c) == 0),
    'cbIsStr': (False, lambda x: isinstance(x, str)), 'cbEven': (False, lambda x: x % 2 == 0 if is_num(x) else None),
    'systemBoolean': (False, truthy), 'systemType': (False, vtype),
}
EFFECT_PREDS = ['cbLog', 'cbCount', 'cbPop', 'cbPush', 'cbPushB', 'cbAbort', 'arrayLength', 'stringLength']


def num_or_none(f):
    def g(x, y):
        try:
            r = f(x, y)
        except TypeError:
            return None
        return r
    return g


# reference comparators: name -> (consistent on which element class, python reference or None)
CMPS = {
    'cmpAsc': ('ints', lambda x, y: x - y), 'cmpDesc': ('ints', lambda x, y: y - x),
    'cmpSys': ('scalars', vcmp), 'cmpSysDesc': ('scalars', lambda x, y: vcmp(y, x)), 'systemCompare': ('scalars', vcmp),
    'cmpField': ('objs', lambda x, y: x['k'] - y['k']), 'cmpLen': ('nested', lambda x, y: len(x) - len(y)),
    'cmpMod': ('ints', lambda x, y: x % 3 - y % 3), 'cmpHalf': ('ints', lambda x, y: (x - y) / 2), 'cmpZero': ('any', lambda x, y: 0),
    'cmpBool': ('any', lambda x, y: 0), 'cmpCount': ('ints', lambda x, y: y - x), 'cmpPushB': ('ints', lambda x, y: x - y),
}
LARGE_CMPS = {'ints': ['cmpAsc', 'cmpDesc', 'cmpMod', 'cmpHalf', 'cmpSys', 'systemCompare', 'cmpZero', 'cmpBool'],
              'objs': ['cmpField', 'cmpZero', 'cmpSys'], 'nested': ['cmpLen', 'cmpSys', 'cmpSysDesc'],
              'scalars': ['cmpSys', 'cmpSysDesc', 'systemCompare', 'cmpZero']}
OTHER_CMPS = ['cmpNeg', 'cmpPos', 'cmpNull', 'cmpStr', 'cmpFailOn', 'cmpIncons', 'cmpLog', 'cmpPush', 'cmpAbort', 'arrayGet', 'cbTrue']


def lit(v):
    if v is None:
        return 'null'
    if isinstance(v, bool):
        return 'true' if v else 'false'
    if is_num(v):
        return str(int(v)) if float(v).is_integer() else repr(float(v))
    if isinstance(v, str):
        return "'" + v + "'"
    if isinstance(v, list):
        return 'arrayNew(' + ', '.join(lit(x) for x in v) + ')'
    return 'objectNew(' + ', '.join(f"'{k}', {lit(x)}" for k, x in v.items()) + ')'


def gen_elems(rng, n, cls):
    if cls == 'ints':
        top = rng.choice([3, 6, max(2, n)])
        return [float(rng.randrange(0, top)) for _ in range(n)]
    if cls == 'scalars':
        return [rng.choice([None, True, False, 0.0, 1.0, 2.0, 3.0, 5.0, '', 'a', 'b', 'ab']) for _ in range(n)]
    if cls == 'objs':
        return [{'k': float(rng.randrange(0, 4)), 'id': float(i)} for i in range(n)]
    if cls == 'nested':
        return [[float(i)] * rng.randrange(0, 4) for i in range(n)]
    # mixed: mostly ints with a few strangers (comparators fail half-way, predicates see every type)
    return [rng.choice([None, 'a', True, [1.0], 2.0]) if rng.random() < 0.15 else float(rng.randrange(0, 6)) for _ in range(n)]


def gen_case(rng, n, large):
    """one script: prelude, a = ..., b = ..., a history of 2-7 calls; returns (script text, list of check specs)"""
    cls = rng.choice(['ints', 'ints', 'mixed', 'scalars', 'objs', 'nested'])
    if large:
        cls = rng.choice(['ints', 'ints', 'objs', 'nested', 'scalars'])
    elems = gen_elems(rng, n, cls)
    lines = [PRELUDE, 'a = ' + lit(elems), 'b = arrayNew(1, 2)', 'alias = a']
    checks = []
    k = 0
    steps = rng.randrange(2, 5) if large else rng.randrange(2, 8)
    for _ in range(steps):
        k += 1
        roll = rng.random()
        if roll < 0.35:
            # an index search with a match function
            fn = rng.choice(['arrayIndexOf', 'arrayLastIndexOf'])
            name = rng.choice(list(PREDS) + (EFFECT_PREDS if not large else ['cbCount', 'arrayLength']))
            parm = None
            if name in PREDS and PREDS[name][0]:
                parm = rng.choice([0.0, 1.0, 2.0, 3.0, 'a', None])
                lines.append(f'p{k} = systemPartial({name}, {lit(parm)})')
                fexpr = f'p{k}'
            else:
                fexpr = name
            idx = rng.choice(['none', 'none', 'none', 0.0, 1.0, float(max(n - 1, 0)), float(n), float(n + 1), -1.0, 1.5, 'x'] +
                             ([None] if fn == 'arrayLastIndexOf' else []))
            args = f'a, {fexpr}' + ('' if idx == 'none' else ', ' + lit(idx))
            lines += [f's{k} = arrayCopy(a)', f'r{k} = {fn}({args})', f't{k} = arrayCopy(a)']
            checks.append({'kind': 'search', 'fn': fn, 'pred': name, 'parm': parm, 'index': idx, 'k': k})
        elif roll < 0.75:
            name = rng.choice(list(CMPS) + OTHER_CMPS)
            if large:         # n >= 64: CPython merges runs, only the RESULT under a pure total-preorder comparator is pinned
                name = rng.choice(LARGE_CMPS[cls])
            parm = None
            fexpr = name
            if name == 'cmpFailOn':
                parm = rng.choice([0.0, 1.0, 2.0, 5.0, 99.0])
                lines.append(f'p{k} = systemPartial(cmpFailOn, {lit(parm)})')
                fexpr = f'p{k}'
            lines += [f's{k} = arrayCopy(a)', f'r{k} = arraySort(a, {fexpr})', f't{k} = arrayCopy(a)', f'same{k} = systemCompare(r{k}, a) == 0']
            checks.append({'kind': 'sort', 'cmp': name, 'parm': parm, 'cls': cls, 'k': k})
        else:
            # an ordinary library call on the same containers (the 42 functions of the library model)
            v = lit(rng.choice([0.0, 1.0, 2.0, 7.0, 'a', None]))
            i = lit(float(rng.randrange(0, max(n, 1) + 1)))
            if large:      # n >= 64: nothing foreign may enter the array (the comparator must stay a total preorder on it)
                lines.append(f'r{k} = ' + rng.choice([
                    'arrayPop(a)', 'arrayCopy(a)', f'arraySlice(a, {i})', f'arrayIndexOf(a, {v})', f'arrayLastIndexOf(a, {v})', 'arraySort(a)',
                    'arrayLength(alias)', f'arrayGet(a, {i})', 'arrayShift(a)', f'arrayDelete(a, {i})', 'arrayPush(b, a)', 'arrayLength(b)']))
                continue
            lines.append(f'r{k} = ' + rng.choice([
                f'arrayPush(a, {v})', 'arrayPop(a)', f'arraySet(a, {i}, {v})', 'arrayCopy(a)', f'arraySlice(a, {i})', f'arrayIndexOf(a, {v})',
                f'arrayLastIndexOf(a, {v})', 'arraySort(a)', 'arrayLength(alias)', 'arrayExtend(a, b)', f'arrayGet(a, {i})', 'arrayShift(a)',
                f'arrayDelete(a, {i})', 'arrayPush(b, a)', f'objectNew(\'k\', {v})', f'arrayNewSize({i}, {v})', 'arrayLength(b)',
                'arraySort(arrayCopy(b))', f'arrayPush(alias, {v}, {v})']))
    lines.append('return arrayNew(a, b)')
    return '\n'.join(lines) + '\n', checks


# ---------------------------------------------------------------------------------------------------------------------
# running and oracles
# ---------------------------------------------------------------------------------------------------------------------

MAX = 200000


def run_impl(text):
    """parse + execute on the implementation -> (canonical outcome as progen.run_impl, raw globals)"""
    mods = fw.impl()
    runtime, library, parser = mods['runtime'], mods['library'], mods['parser']
    model = parser.parse_script(text)
    log = []
    g = {}
    options = {'globals': g, 'maxStatements': MAX, 'logFn': log.append}
    out = {}
    try:
        result = runtime.execute_script(model, options)
        out['result'] = progen.value_to_wire(result, library.SCRIPT_FUNCTIONS)
    except runtime.BareScriptRuntimeError as exc:
        out['error'] = str(exc)
    except Exception as exc:  # pylint: disable=broad-except
        out['hostexc'] = type(exc).__name__ + ': ' + str(exc)[:200]
    out['log'] = list(log)
    user = [[k, progen.value_to_wire(v, library.SCRIPT_FUNCTIONS)] for k, v in g.items()
            if not (k in library.SCRIPT_FUNCTIONS and v is library.SCRIPT_FUNCTIONS[k])]
    out['globals'] = sorted(user, key=lambda kv: kv[0])
    out['count'] = options.get('statementCount')
    return model, progen.canon_neg_zero(out), g


def wire(v):
    return json.dumps(progen.value_to_wire(v), sort_keys=True)


def stable_sort(xs, ref):
    out = []
    for x in xs:
        i = len(out)
        while i > 0 and ref(x, out[i - 1]) < 0:
            i -= 1
        out.insert(i, x)
    return out


def start_index(fn, idx, n):
    """the validated start index, or None = the documented failure value -1"""
    if idx == 'none' or (idx is None and fn == 'arrayLastIndexOf'):
        q = 0 if fn == 'arrayIndexOf' else n - 1
    elif not is_num(idx) or idx != int(idx) or idx < 0:
        return None
    else:
        q = int(idx)
    return None if q >= n else q


def has_object(x):
    return isinstance(x, dict) or (isinstance(x, list) and any(has_object(y) for y in x))


def in_domain(dom, snap):
    """is the reference comparator a total preorder on these elements?"""
    if dom == 'any':
        return True
    if dom == 'ints':
        return all(is_num(x) for x in snap)
    if dom == 'scalars':
        return not any(has_object(x) for x in snap)
    if dom == 'objs':
        return all(isinstance(x, dict) and is_num(x.get('k')) for x in snap)
    return all(isinstance(x, list) for x in snap)


def oracles(checks, g, aborted):
    """property-statement oracles on the implementation's final globals -> list of (oracle, detail, expected, actual)"""
    bad = []
    for c in checks:
        k = c['k']
        if f't{k}' not in g:                     # the run was aborted before this step finished
            if aborted and f's{k}' in g and isinstance(g.get('a'), list):
                if sorted(map(wire, g['a'])) != sorted(map(wire, g[f's{k}'])) and c.get('pred') not in ('cbPop', 'cbPush'):
                    bad.append(('cb-abort-permutation', c, sorted(map(wire, g[f's{k}'])), sorted(map(wire, g['a']))))
            continue
        snap, after, res = g[f's{k}'], g[f't{k}'], g.get(f'r{k}')
        if c['kind'] == 'search':
            name = c['pred']
            if name in PREDS:
                _, ref = PREDS[name]
                if wire(after) != wire(snap):
                    bad.append(('cb-search-leaves-array', c, wire(snap), wire(after)))
                q = start_index(c['fn'], c['index'], len(snap))
                if q is None:
                    exp = -1
                else:
                    order = range(q, len(snap)) if c['fn'] == 'arrayIndexOf' else range(q, -1, -1)
                    test = (lambda x: ref(x, c['parm'])) if PREDS[name][0] else ref
                    exp = next((i for i in order if truthy(test(snap[i]))), -1)
                if res != exp or isinstance(res, bool):
                    bad.append(('cb-search-first-match', c, exp, res))
            elif name == 'cbPop':
                # reference list model of the LIVE array: the call-back pops the last element and answers false; iteration j reads index
                # q + j of a list of n - j elements (IndexError -> null) resp. q - j (always present)
                q = start_index(c['fn'], c['index'], len(snap))
                exp = -1 if q is None or c['fn'] == 'arrayLastIndexOf' or len(snap) - q < 2 else None
                if res != exp:
                    bad.append(('cb-search-live-array', c, exp, res))
        else:
            name = c['cmp']
            if sorted(map(wire, after)) != sorted(map(wire, snap)):
                bad.append(('cb-sort-permutation', c, sorted(map(wire, snap)), sorted(map(wire, after))))
            if name in CMPS:
                dom, ref = CMPS[name]
                if in_domain(dom, snap):
                    exp = stable_sort(snap, ref)
                    if [wire(x) for x in after] != [wire(x) for x in exp]:
                        bad.append(('cb-sort-ordered-stable', c, [wire(x) for x in exp], [wire(x) for x in after]))
                    if g.get(f'same{k}') is not True:
                        bad.append(('cb-sort-returns-array', c, True, g.get(f'same{k}')))
            if name in ('cmpNull', 'cmpStr') and len(snap) >= 2:
                if res is not None or [wire(x) for x in after] != [wire(x) for x in snap]:
                    bad.append(('cb-sort-failure-unchanged', c, [None, [wire(x) for x in snap]], [wire(res), [wire(x) for x in after]]))
    return bad


def check_script(text, checks):
    model, out, g = run_impl(text)
    sorted_len = max([len(g[f's{c["k"]}']) for c in checks if c['kind'] == 'sort' and isinstance(g.get(f's{c["k"]}'), list)] + [0])
    return model, out, oracles(checks, g, 'error' in out), sorted_len


def stream_scripts(ctx, drv):
    st = ctx.stream('cb-scripts', 'histories of 2-7 library calls as real scripts: call-back forms of arrayIndexOf / arrayLastIndexOf / arraySort with a '
                                  'family of 45 script and library call-backs, mixed with ordinary array functions on aliased arrays; array sizes on the scale '
                                  'axis 0..129; implementation (parse_script + execute_script) vs the Lean machine over LibCb.host on result, log, globals, '
                                  'count, error; property oracles on the implementation; non-trivial = a call-back form ran on >= 2 elements')
    rng = ctx.rng('cb-scripts')
    todo = []
    for n in SIZES_EXACT + [4, 6, 7, 8]:
        for _ in range(ctx.scale(22, 300)):
            todo.append((n, False))
    for n in SIZES_LARGE:
        for _ in range(ctx.scale(4, 40)):
            todo.append((n, True))
    cases = []
    for n, large in todo:
        text, checks = gen_case(rng, n, large)
        model, out, bad, sorted_len = check_script(text, checks)
        cases.append((n, large, text, checks, model, out, bad, sorted_len))
    reqs = [{'op': 'exec', 'script': progen.canon_script(model), 'globals': [], 'max': MAX, 'fuel': 4 * MAX} for _, _, _, _, model, _, _, _ in cases]
    resps = []
    for i in range(0, len(reqs), 100):
        resps += drv.batch(reqs[i:i + 100])
    for (n, large, text, checks, model, out, bad, sorted_len), resp in zip(cases, resps):
        tags = ['n%d' % n] + sorted({c['kind'] + ':' + (c.get('pred') or c.get('cmp')) for c in checks})
        tags += ['aborted'] if 'error' in out else []
        beyond = not large and sorted_len >= 64       # pushes made a 63-element array reach CPython's merge regime with an arbitrary comparator
        tags += ['grown-beyond-exact'] if beyond else []
        st.case([text], nontrivial=n >= 2 and bool(checks), tags=tags)
        for oracle, c, exp, act in bad:
            ctx.witness(oracle, {'script': text, 'checks': checks, 'check': c}, exp, act)
        mo = progen.canon_model_out(resp)
        if beyond:
            continue
        if 'error' in out:
            # an aborted run: a runtime error inside a comparator leaves the model's array emptied (stated limit of the interaction-tree model):
            # compare error text, log and count; the implementation side is covered by the permutation oracle below
            ctx.compare('cb-scripts', {'script': text, 'what': 'aborted run: error, log, count'},
                        [out.get('error'), out.get('log'), out.get('count')], [mo.get('error'), mo.get('log'), mo.get('count')])
        elif large:
            # n >= 64: the number and order of comparisons is CPython's merge strategy, not modelled: results only
            ctx.compare('cb-scripts', {'script': text, 'what': 'result, globals (n >= 64)'},
                        [out.get('result'), out.get('globals'), out.get('log')], [mo.get('result'), mo.get('globals'), mo.get('log')])
        else:
            ctx.compare('cb-scripts', {'script': text, 'what': 'result, log, globals, count'}, out, mo)


def streams(ctx):
    drv = fw.Driver('drv_c15y')
    stream_pysort(ctx, drv)
    stream_scripts(ctx, drv)
    ctx.driver.requests += drv.requests


def replay(witness):
    if not str(witness.get('oracle', '')).startswith('cb-'):
        return None
    inp = witness['input']
    _, _, bad, _ = check_script(inp['script'], inp['checks'])
    return any(o == witness['oracle'] for o, _, _, _ in bad)


LEVEL_TEXT_EXT = ('C15Cb: the call-back forms of arrayIndexOf / arrayLastIndexOf / arraySort as interaction trees over the library heap; CPython binary insertion sort modelled exactly below 64 elements; pySort_eval (= the stable sort for any total preorder), pySort_allPerm, indexOf_cb_spec, sort_cb_contract, sort_cb_perm_always.')
