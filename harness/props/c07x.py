"""C07 / C08 extension streams: the published schema as data (lean/BareModel/Gen/Schema.lean, regenerated from model.BARE_SCRIPT_TYPES by
extract.gen_schema), the schema-markdown validator over it (lean/BareModel/Schema.lean: `validate`, `readScript`, `scriptJ`) and the theorems of
lean/BareProofs/C07Schema.lean (toJson_validates, parsed_validates, valid_is_representable, read_write, valid_set_eq_stmt_set), run by `drv_c07x`
against the real `schema_markdown.validate_type(BARE_SCRIPT_TYPES, ...)` / `validate_script` / `parse_script`.  Not registered: to be imported by
harness/props/C07.py (and C08.py) the way C16.py imports c16x.

How documents travel (BareModel/Schema.lean header):
* op `schema_validate`: the document is sent AS IT IS (`json.dumps`): Python int -> JSON integer, Python float -> JSON float literal, no
  conversion.  Not sendable: NaN / +-inf floats (no JSON spelling), non-string dict keys; one document is sendable but not expressible: a Python
  *list* `[int, positive int]` as the value of a `number` member (it reads as the wire form of a float) - the generator never produces it
  (`expressible`).  Numbers in the answer's `copy` are exact `[num, den]`; `unrat` turns them back into floats for the comparison.
* op `schema_script`: `progen.canon_script(parse_script(text), with_fid=False)` - every `number` as the exact `[numerator, denominator]` of the
  float (`Fraction(v)`), nothing else changed, no `fid` member (the schema has none; the model numbers the functions itself, in source order).
"""

import copy
import json
from fractions import Fraction

import fw
import progen

THEOREMS = [
    'C07Schema.schema_names', 'C07Schema.toJson_validates', 'C07Schema.toJson_valid', 'C07Schema.exprToJson_validates',
    'C07Schema.include_nil_invalid', 'C07Schema.coercions_accepted', 'C07Schema.parsed_validates', 'C07Schema.parsed_valid',
    'C07Schema.lowered_validates', 'C07Schema.valid_is_representable', "C07Schema.valid_is_representable'", 'C07Schema.read_write',
    'C07Schema.readScript_scriptJ', 'C07Schema.valid_set_eq_stmt_set', 'C07Schema.expr_repr', 'C07Schema.stmt_repr', 'C07Schema.script_repr',
    'C07Schema.fids_renumber', 'C07Schema.scriptJ_renumber', 'C07Schema.scriptW_renumber',
]
LEAN_TARGETS = ['BareProofs.C07Schema']
EXTRA_TARGETS = ['drv_c07x']
GEN = ['Schema']


def real_validate(type_name, doc):
    """-> (valid, validated copy).  Any exception counts as invalid: schema_markdown lets `OverflowError` escape for an int beyond the float
    range at a `float` position (schema.py:193 catches ValueError only); the model answers `none` there too."""
    import schema_markdown
    types = fw.impl()['model'].BARE_SCRIPT_TYPES
    try:
        return True, schema_markdown.validate_type(types, type_name, doc)
    except Exception:  # pylint: disable=broad-except
        return False, None


# ---------------------------------------------------------------------------------------------------------------------
# hand-built documents: random valid ones (every member present / absent, defaults spelled out), then mutated
# ---------------------------------------------------------------------------------------------------------------------

NAMES = ['a', 'b', 'f', 'x1', '__bareScriptIf0', '', 'name', 'args']
BINOPS = ['**', '*', '/', '%', '+', '-', '<=', '<', '>=', '>', '==', '!=', '&&', '||']


def g_expr(r, d):
    k = r.choice(['number', 'string', 'variable'] if d <= 0 else ['number', 'string', 'variable', 'function', 'binary', 'unary', 'group'])
    if k == 'number':
        return {'number': r.choice([0, 1, -7, 2.5, 1e21, -0.0, 12345678901234567890, 5e-324, 3, 1.7976931348623157e308])}
    if k == 'string':
        return {'string': r.choice(['', 's', 'true', '12', 'é\n'])}
    if k == 'variable':
        return {'variable': r.choice(NAMES)}
    if k == 'group':
        return {'group': g_expr(r, d - 1)}
    if k == 'unary':
        return {'unary': {'op': r.choice(['-', '!']), 'expr': g_expr(r, d - 1)}}
    if k == 'binary':
        return {'binary': {'op': r.choice(BINOPS), 'left': g_expr(r, d - 1), 'right': g_expr(r, d - 1)}}
    f = {'name': r.choice(NAMES)}
    if r.random() < 0.8:
        f['args'] = [g_expr(r, d - 1) for _ in range(r.randrange(0, 3))]
    return {'function': f}


def g_stmt(r, d):
    k = r.choice(['expr', 'jump', 'return', 'label', 'include'] + (['function'] if d > 0 else []))
    if k == 'expr':
        s = {'expr': g_expr(r, 2)}
        if r.random() < 0.5:
            s['name'] = r.choice(NAMES)
        return {'expr': s}
    if k == 'jump':
        s = {'label': r.choice(NAMES)}
        if r.random() < 0.5:
            s['expr'] = g_expr(r, 2)
        return {'jump': s}
    if k == 'return':
        return {'return': {'expr': g_expr(r, 2)} if r.random() < 0.6 else {}}
    if k == 'label':
        return {'label': r.choice(NAMES)}
    if k == 'include':
        return {'include': {'includes': [dict({'url': r.choice(['a.bare', ''])}, **({'system': r.random() < 0.5} if r.random() < 0.5 else {}))
                                         for _ in range(r.randrange(1, 3))]}}
    f = {'name': r.choice(NAMES), 'statements': [g_stmt(r, d - 1) for _ in range(r.randrange(0, 3))]}
    if r.random() < 0.5:
        f['args'] = [r.choice(NAMES) for _ in range(r.randrange(1, 3))]
    if r.random() < 0.5:
        f['async'] = r.random() < 0.5
    if r.random() < 0.5:
        f['lastArgArray'] = r.random() < 0.5
    items = list(f.items())
    r.shuffle(items)                                          # member order is free
    return {'function': dict(items)}


def g_script(r):
    return {'statements': [g_stmt(r, 2) for _ in range(r.randrange(0, 5))]}


def paths(doc, p=()):
    yield p
    if isinstance(doc, dict):
        for k in doc:
            yield from paths(doc[k], p + (k,))
    elif isinstance(doc, list):
        for i, x in enumerate(doc):
            yield from paths(x, p + (i,))


def at(doc, p):
    for k in p:
        doc = doc[k]
    return doc


JUNK = [None, True, False, 0, 1, -3, 2.5, '', 'x', 'true', 'false', '12', ' 1_0e2 ', 'inf', 'nan', '1e999', '-1e-999', '١٢', '1__0',
        [], [1], ['a'], {}, {'x': 1}, 10 ** 400, -10 ** 400, 2 ** 1024 - 2 ** 970, 2 ** 1024 - 2 ** 970 - 1, [1, 0], [1, -2], ['a', 'b'], [1, 2, 3]]
MUTATIONS = ['drop', 'add', 'rename', 'retype', 'empty', 'second', 'coerce']


def mutate(r, doc):
    """one edit of a (valid) document: member dropped / added / renamed, value replaced by one of another type, value emptied ([] / '' / {}),
    a second member put into a union, a value replaced by the string / empty-string spelling validate_type coerces"""
    doc = copy.deepcopy(doc)
    p = r.choice(list(paths(doc)))
    kind = r.choice(MUTATIONS)
    node = at(doc, p)
    if kind == 'drop' and isinstance(node, dict) and node:
        del node[r.choice(sorted(node))]
    elif kind == 'add' and isinstance(node, dict):
        node[r.choice(['bogus', 'fid', 'name', 'expr', 'args', 'label', 'async', 'statements', 'system'])] = r.choice(JUNK)
    elif kind == 'rename' and isinstance(node, dict) and node:
        k = r.choice(sorted(node))
        node[k + r.choice(['s', '_', ' '])] = node.pop(k)
    elif kind == 'second' and isinstance(node, dict) and len(node) == 1:
        node[r.choice(['label', 'return', 'string', 'group', 'number', 'jump'])] = r.choice(['a', {}, 1])
    elif kind == 'empty' and p:
        at(doc, p[:-1])[p[-1]] = r.choice([[], '', {}])
    elif kind == 'coerce' and p:
        parent = at(doc, p[:-1])
        if isinstance(node, bool):
            parent[p[-1]] = 'true' if node else 'false'
        elif isinstance(node, (int, float)):
            parent[p[-1]] = repr(node)
        elif node in ([], {}):
            parent[p[-1]] = ''
    elif p:
        at(doc, p[:-1])[p[-1]] = r.choice(JUNK)
    return kind, doc


def expressible(doc):
    """False for the one document the wire form cannot express: a list [int, positive int] as the value of a `number` member"""
    if isinstance(doc, dict):
        return all(not (k == 'number' and isinstance(v, list) and len(v) == 2 and all(type(e) is int for e in v) and v[1] > 0)
                   and expressible(v) for k, v in doc.items())
    if isinstance(doc, list):
        return all(expressible(v) for v in doc)
    return True


def unrat(x):
    """validated copy of the model -> what Python returns: every [num, den] under a `number` key back to the float"""
    if isinstance(x, dict):
        return {k: (float(Fraction(v[0], v[1])) if k == 'number' and isinstance(v, list) else unrat(v)) for k, v in x.items()}
    if isinstance(x, list):
        return [unrat(v) for v in x]
    return x


def keys_in_order(x):
    if isinstance(x, dict):
        return [(k, keys_in_order(v)) for k, v in x.items()]
    if isinstance(x, list):
        return [keys_in_order(v) for v in x]
    return None


# the five rejected documents of BareProofs/C07Schema.lean (and their repairs / the accepted coercions), first
CORPUS = [
    ('BareScript', {'statements': [{'return': {'expr': {'number': 1}, 'bogus': True}}]}),
    ('BareScript', {'statements': [{'label': 'a', 'return': {}}]}),
    ('BareScript', {'statements': [{'function': {'name': 'f', 'args': [], 'statements': []}}]}),
    ('BareScript', {'statements': [{'label': 5}]}),
    ('BareScript', {'statements': [{'jump': {}}]}),
    ('BareScript', {'statements': [{'include': {'includes': []}}]}),
    ('BareScript', {'statements': [{'return': {'expr': {'number': 1}}}, {'label': 'a'},
                                   {'function': {'name': 'f', 'args': ['a'], 'statements': []}}, {'jump': {'label': 'a'}}]}),
    ('BareScript', {'statements': ''}),
    ('BareScript', {'statements': [{'return': ''}]}),
    ('BareScript', {'statements': [{'function': {'statements': '', 'async': 'true', 'name': 'f'}}]}),
    ('BareScript', ''), ('BareScript', []), ('BareScript', None), ('BareScript', {}),
    ('Expression', {'number': True}), ('Expression', {'number': 12}), ('Expression', {'number': ' 1_0e2 '}), ('Expression', {'number': 'inf'}),
    ('Expression', {'number': '12abc'}), ('Expression', {'number': 15.0}), ('Expression', {'number': 10 ** 400}), ('Expression', ''),
    ('Expression', {'function': {'name': 'f'}}), ('Expression', {'function': {'name': 'f', 'args': ''}}),
    ('Expression', {'binary': {'op': '=', 'left': {'number': 1}, 'right': {'number': 1}}}),
    ('Expression', {'unary': {'op': '+', 'expr': {'number': 1}}}),
    ('NoSuchType', {}), ('BinaryExpressionOperator', '**'), ('BinaryExpressionOperator', 1), ('IncludeScript', {'url': 'u', 'system': 'false'}),
]


def stream_validate(ctx, drv):
    r = ctx.rng('schema-validate')
    st = ctx.stream('schema-validate',
                    'Schema.validate over the generated table (drv_c07x schema_validate) against schema_markdown.validate_type(BARE_SCRIPT_TYPES, '
                    'type, doc) on hand-built documents: the corpus of BareProofs/C07Schema.lean, random valid scripts / expressions (every optional '
                    'member present and absent, defaults spelled out, members in random order) and 1-2 edits of them (member dropped / added / '
                    'renamed, value of another type, emptied value, second union member, coercible string spelling); compared: accepted or not '
                    '(any exception = not), and for accepted documents the validated copy including its member order; non-trivial = a mutated document')
    cases = [('corpus', t, d) for t, d in CORPUS]
    for _ in range(ctx.scale(400, 12000)):
        base = g_script(r)
        cases.append(('valid', 'BareScript', base))
        for _ in range(4):
            kind, m = mutate(r, base)
            if r.random() < 0.3:
                kind2, m = mutate(r, m)
                kind += '+' + kind2
            cases.append((kind, 'BareScript', m))
        e = g_expr(r, 3)
        cases.append(('valid', 'Expression', e))
        kind, m = mutate(r, e)
        cases.append((kind, 'Expression', m))
    cases = [c for c in cases if expressible(c[2])]
    resps = drv.batch([{'op': 'schema_validate', 'type': t, 'json': doc} for _, t, doc in cases])
    for (kind, t, doc), resp in zip(cases, resps):
        ok, copy_ = real_validate(t, doc)
        st.case([t, doc], nontrivial=kind not in ('valid', 'corpus'), tags=[kind.split('+')[0] + (':accepted' if ok else ':rejected')])
        model = {'valid': resp.get('valid')}
        impl = {'valid': ok}
        if ok and resp.get('valid'):
            impl['copy'] = [copy_, keys_in_order(copy_)]
            back = unrat(resp['copy'])
            model['copy'] = [back, keys_in_order(back)]
        ctx.compare('schema-validate', {'type': t, 'doc': doc, 'edit': kind}, impl, model)


def script_texts(ctx):
    import glob
    import os
    texts = []
    inc = os.path.join(os.path.dirname(fw.impl()['model'].__file__), 'include', '*.bare')
    for path in sorted(glob.glob(inc)):
        with open(path, encoding='utf-8') as fh:
            texts.append(fh.read())
    rng = ctx.rng('schema-script')
    for i in range(ctx.scale(150, 3000)):
        gen = progen.Gen(rng, max_depth=rng.choice([2, 3, 4, 5]), allow_raw=(i % 4 == 3))
        texts.append('\n'.join(progen.render(gen.program())))
    texts.append("include <a.bare>\ninclude 'b.bare'\nfunction f(a, b...):\nreturn a + b\nendfunction\nasync function g():\nx = f()\nreturn\n"
                 "endfunction\ny = -1.5 ** (2 % !z)\njumpif (y) lab\nlab:\njump lab\nf(1, 'x')\n")
    return texts


def stream_script(ctx, drv):
    st = ctx.stream('schema-script',
                    'parse_script outputs (the shipped include/*.bare, progen.Gen programs, a script with every statement kind) sent as '
                    'progen.canon_script(model, with_fid=False) to drv_c07x schema_script: the model must accept it, reading the validated copy and '
                    'writing it back (Schema.scriptJ (Schema.readScript doc)) must give the very document, Schema.scriptJ and the harness-only '
                    'Syntax.scriptToJson must agree on it, and the statement of C07Schema.valid_is_representable must evaluate to true; oracle on '
                    'the implementation: validate_script(model) accepts and returns a value equal to the model; non-trivial = at least one function or '
                    'include statement')
    parser = fw.impl()['parser']
    sent = []
    for text in script_texts(ctx):
        try:
            model = parser.parse_script(text)
        except Exception:  # pylint: disable=broad-except
            continue
        ok, copy_ = real_validate('BareScript', model)
        if not ok or copy_ != model:
            ctx.witness('schema-valid', {'text': text}, 'validate_script accepts the model parse_script returns and returns an equal value',
                        'rejected' if not ok else 'validated copy differs')
        sent.append(progen.canon_script(model, with_fid=False))
    for doc, resp in zip(sent, drv.batch([{'op': 'schema_script', 'script': d} for d in sent])):
        st.case(doc, nontrivial=any('function' in s or 'include' in s for s in doc['statements']))
        ctx.compare('schema-script', {'script': doc}, {'valid': True, 'roundtrip': doc, 'twin': True, 'copyOk': True},
                    {k: resp.get(k) for k in ('valid', 'roundtrip', 'twin', 'copyOk')})


def streams(ctx):
    drv = fw.Driver('drv_c07x')
    stream_validate(ctx, drv)
    stream_script(ctx, drv)
    if ctx.driver is not None:
        ctx.driver.requests += drv.requests


def replay(witness):
    if witness['oracle'] != 'schema-valid':
        return None
    model = fw.impl()['parser'].parse_script(witness['input']['text'])
    ok, copy_ = real_validate('BareScript', model)
    return not ok or copy_ != model
