"""C11 - value comparison is a total preorder and every consumer agrees with it."""

import calendar
import datetime
import functools
import hashlib
import json
import os
import re
import time
from fractions import Fraction

import fw

ID = 'C11'
LEVEL = 'proof'
LEAN_TARGETS = ['BareProofs.C11']
DRIVER = 'drv_c11'
DRIVER_ROOT = 'Drv.C11'
GEN = []
THEOREMS = [
    'C11.cmp_range', 'C11.cmp_refl', 'C11.cmp_antisymm', 'C11.cmp_trans', 'C11.cmp_trans_strict', 'C11.cmp_total',
    'C11.null_least', 'C11.cross_type_by_name', 'C11.cross_type_by_rank', 'C11.num_cmp', 'C11.int_float_irrelevant',
    'C11.arr_elementwise', 'C11.arr_skip_equal_prefix', 'C11.obj_elementwise', 'C11.str_cmp_zero_iff',
    'C11.sortItems_canonical', 'C11.obj_order_irrelevant',
    'C11.relops_sign', 'C11.relops_identities',
    'C11.sort_sorted_perm', 'C11.sort_stable', 'C11.stable_sort_unique', 'C11.sortBy_spec',
    'C11.sortDataFn_isPre', 'C11.dataSort_spec', 'C11.min_max_spec', 'C11.indexOf_first', 'C11.lastIndexOf_last',
]
ASSUMPTIONS = [
    'numbers: every finite int/float is an exact rational and CPython compares int with float exactly; NaN excluded by the property; '
    '+-inf are not representable in the model (Rat) - they are covered by the implementation-side law oracles only',
    'str comparison in CPython is lexicographic by code point (model: codeCmp); lone surrogates are not generated',
    'datetime: comparison goes through value_normalize_datetime (aware -> local wall clock via astimezone(), date -> midnight); the model '
    'takes the normalised instant as an integer (microseconds); the harness computes it independently (epoch arithmetic + time.localtime)',
    'sorted(dict.items()) never consults the values because dict keys are unique (model invariant WFValue); object keys are str',
    'list.sort is a stable comparison sort that only uses "<" of the cmp_to_key wrapper (theorem stable_sort_unique makes the result unique)',
    'self-containing containers (known finding F18) are out of scope and never generated',
]
TRUSTED = ['CPython: int/float/str/datetime rich comparison, list.sort, functools.cmp_to_key, time.localtime (zone database)']

LEVEL_TEXT = ('Theorems for all closed values (any depth/size): value_compare answers in {-1,0,1}, is reflexive, antisymmetric and transitive, '
              'puts null first, orders different types by type name, numbers by rational value only, arrays/objects lexicographically '
              '(objects by sorted key, insertion order invisible); the relational operators are its sign tests; arraySort/dataSort return the '
              'unique ordered stable permutation; mathMax/mathMin the first greatest/least argument; arrayIndexOf/LastIndexOf the first/last '
              'equal position. The mirror is tied to value.py/library.py/data.py/runtime.py by differential correspondence over all ordered '
              'pairs of a value pool, and every law is also checked directly on the implementation.')
LEVEL_NOTE = ('Trusted: Lean kernel; correspondence harness. Modelled not verified: CPython comparison primitives, list.sort stability, '
              'astimezone(). +-inf only on the implementation side.')

MAXS = 10000

# ---------------------------------------------------------------------------------------------------------------------
# Opaque values: functions and regexes (referred to by index on the wire and in replay files)
# ---------------------------------------------------------------------------------------------------------------------


def _f0(args, options):  # pylint: disable=unused-argument
    return None


def _f1(args, options):  # pylint: disable=unused-argument
    return 1


FUNCS = [_f0, _f1, lambda args, options: None, len, functools.partial(_f0, None), print]
REGEXES = [re.compile('a'), re.compile('b', re.I), re.compile('')]
UTC = datetime.timezone.utc
EPOCH_AWARE = datetime.datetime(1970, 1, 1, tzinfo=UTC)
EPOCH_NAIVE = datetime.datetime(1970, 1, 1)
US = datetime.timedelta(microseconds=1)


def tz(minutes):
    return datetime.timezone(datetime.timedelta(minutes=minutes))


# ---------------------------------------------------------------------------------------------------------------------
# Encodings: enc = wire form for the model (PValue), spec/unspec = loss-free description for replay files
# ---------------------------------------------------------------------------------------------------------------------

def norm_us(v):
    """The normalised instant of a date/datetime in microseconds, computed without value_normalize_datetime/astimezone."""
    if isinstance(v, datetime.datetime):
        if v.tzinfo is not None:
            utc_us = (v - EPOCH_AWARE) // US
            sec, rem = divmod(utc_us, 10 ** 6)
            lt = time.localtime(sec)
            return calendar.timegm(lt[:6] + (0, 0, 0)) * 10 ** 6 + rem
        return (v - EPOCH_NAIVE) // US
    return (v.toordinal() - EPOCH_NAIVE.toordinal()) * 86400 * 10 ** 6


def enc(v):
    if v is None:
        return {'t': 'null'}
    if isinstance(v, str):
        return {'t': 'str', 'v': v}
    if isinstance(v, bool):
        return {'t': 'bool', 'v': v}
    if isinstance(v, (int, float)):
        fr = Fraction(v)
        return {'t': 'num', 'v': [fr.numerator, fr.denominator]}
    if isinstance(v, datetime.date):
        return {'t': 'dt', 'v': norm_us(v)}
    if isinstance(v, dict):
        return {'t': 'obj', 'v': [[k, enc(x)] for k, x in v.items()]}
    if isinstance(v, list):
        return {'t': 'arr', 'v': [enc(x) for x in v]}
    if callable(v):
        return {'t': 'fn', 'v': next(i for i, f in enumerate(FUNCS) if f is v)}
    if isinstance(v, type(REGEXES[0])):
        return {'t': 'regex', 'v': next(i for i, f in enumerate(REGEXES) if f is v)}
    raise ValueError(f'not a BareScript value: {v!r}')


def spec(v):
    if v is None:
        return None
    if isinstance(v, str):
        return v
    if isinstance(v, bool):
        return v
    if isinstance(v, int):
        return {'int': str(v)}
    if isinstance(v, float):
        return {'float': v.hex()}
    if isinstance(v, datetime.datetime):
        off = None if v.tzinfo is None else v.utcoffset() // datetime.timedelta(seconds=1)
        return {'datetime': [v.year, v.month, v.day, v.hour, v.minute, v.second, v.microsecond], 'offset_s': off, 'fold': v.fold}
    if isinstance(v, datetime.date):
        return {'date': [v.year, v.month, v.day]}
    if isinstance(v, dict):
        return {'dict': [[k, spec(x)] for k, x in v.items()]}
    if isinstance(v, list):
        return {'list': [spec(x) for x in v]}
    if callable(v):
        return {'fn': next(i for i, f in enumerate(FUNCS) if f is v)}
    return {'regex': next(i for i, f in enumerate(REGEXES) if f is v)}


def unspec(s):
    if s is None or isinstance(s, (str, bool)):
        return s
    (k, v), = [(k, v) for k, v in s.items() if k not in ('offset_s', 'fold')]
    if k == 'int':
        return int(v)
    if k == 'float':
        return float.fromhex(v)
    if k == 'datetime':
        tzinfo = None if s.get('offset_s') is None else datetime.timezone(datetime.timedelta(seconds=s['offset_s']))
        return datetime.datetime(*v, tzinfo=tzinfo, fold=s.get('fold', 0))
    if k == 'date':
        return datetime.date(*v)
    if k == 'dict':
        return {kk: unspec(x) for kk, x in v}
    if k == 'list':
        return [unspec(x) for x in v]
    if k == 'fn':
        return FUNCS[v]
    return REGEXES[v]


def digest(e):
    return hashlib.blake2b(json.dumps(e, sort_keys=True, ensure_ascii=True).encode(), digest_size=6).hexdigest()


def tname(v):
    """Type name written from the language reference (independent of value_type)."""
    if v is None:
        return 'null'
    if isinstance(v, str):
        return 'string'
    if isinstance(v, bool):
        return 'boolean'
    if isinstance(v, (int, float)):
        return 'number'
    if isinstance(v, datetime.date):
        return 'datetime'
    if isinstance(v, dict):
        return 'object'
    if isinstance(v, list):
        return 'array'
    if callable(v):
        return 'function'
    return 'regex'


def depth(v):
    if isinstance(v, list):
        return 1 + max([depth(x) for x in v], default=0)
    if isinstance(v, dict):
        return 1 + max([depth(x) for x in v.values()], default=0)
    return 0


# ---------------------------------------------------------------------------------------------------------------------
# The value pool
# ---------------------------------------------------------------------------------------------------------------------

def leaf_values():
    d = datetime.datetime
    nums = [0, 1, -1, 2, 3, 10, 255, -255, 2 ** 53, 2 ** 53 + 1, -(2 ** 53) - 1, 10 ** 30, -(10 ** 30), 2 ** 1024,
            0.0, -0.0, 1.0, -1.0, 2.0, 0.5, -0.5, 1.5, 0.1, 0.2, 0.30000000000000004, 0.3, 1e16, 1e300, -1e300, 5e-324, -5e-324,
            2.0 ** 53, 2.0 ** 53 + 2, float(10 ** 30), 1e-7, 123456.789, 3.0, 9007199254740993]
    strs = ['', 'a', 'A', 'ab', 'b', 'aa', 'a\x00', '\x00', ' ', 'z', '\xe9', 'e\u0301', '\uffff', '\U00010000', '\U0001f600', '\ud7ff', '\ue000',
            '10', '9', '1', 'null', 'true', 'array', 'number', 'object', 'string', 'Z', '~', 'a b', 'abc', 'abd', '"', "'", '\\', '\n']
    dts = [datetime.date(2020, 1, 1), d(2020, 1, 1), d(2020, 1, 1, 0, 0, 0, 1), d(2020, 1, 1, 0, 0, 0, 1000), d(2019, 12, 31, 23, 59, 59, 999999),
           d(2020, 1, 1, tzinfo=UTC), d(2020, 1, 1, 5, tzinfo=tz(300)), d(2019, 12, 31, 19, tzinfo=tz(-300)), d(2020, 1, 1, 5, 30, tzinfo=tz(330)),
           d(2020, 1, 1, 0, 0, 1, tzinfo=tz(1)), d(2020, 1, 1, 12, tzinfo=tz(-720)), d(2019, 12, 31, 12, tzinfo=tz(840)),
           datetime.date(1970, 1, 1), d(1970, 1, 1), d(1970, 1, 1, tzinfo=UTC), d(1969, 12, 31, 23, 59, 59, 999999), datetime.date(1969, 12, 31),
           datetime.date(1, 1, 1), d(1, 1, 1), d(9999, 12, 31, 23, 59, 59, 999999), datetime.date(9999, 12, 31), d(1900, 3, 1, tzinfo=UTC),
           datetime.date(2020, 2, 29), d(2020, 2, 29, 12), d(2020, 3, 1, tzinfo=tz(60)), d(2021, 11, 7, 5, 30, tzinfo=UTC), d(2021, 11, 7, 6, 30, tzinfo=UTC),
           d(2021, 11, 7, 1, 30), d(2021, 11, 7, 1, 30, fold=1), d(2021, 3, 14, 7, 30, tzinfo=UTC), d(2021, 3, 14, 2, 30), d(2038, 1, 19, 3, 14, 8),
           d(2020, 1, 1, 0, 0, 0, 999), d(2020, 6, 15, 12, 0, 0, 500000, tzinfo=tz(-420))]
    return [None, True, False] + nums + strs + dts + list(FUNCS) + list(REGEXES)


def fixed_containers():
    f = FUNCS
    return [
        [], [None], [[]], [[[]]], [[[[]]]], [0], [0.0], [1], [1.0], [1, 2], [1, 2.0], [2, 1], [1, [2, [3]]], [1, [2, [3.0]]], [1, [2, [4]]], [1, [2]],
        [None, None], ['a'], ['a', 'b'], ['b'], [True], [False], [True, False], [[], []], [[], [None]], [{}], [{}, []], [f[0]], [f[1]], [REGEXES[0]],
        [datetime.date(2020, 1, 1)], [datetime.datetime(2020, 1, 1, tzinfo=UTC)], [1, 'a', None, True, [], {}],
        {}, {'a': 1}, {'a': 1.0}, {'a': 2}, {'b': 1}, {'a': 1, 'b': 2}, {'b': 2, 'a': 1}, {'a': 2, 'b': 1}, {'b': 1, 'a': 2}, {'a': None}, {'': 0}, {'': None},
        {'a': {}}, {'a': []}, {'a': {'b': {'c': 1}}}, {'a': {'b': {'c': 1.0}}}, {'a': {'b': {'c': 2}}}, {'a': {'b': {}}}, {'a': [1, {'b': [2]}]},
        {'A': 1}, {'\xe9': 1}, {'z': 1}, {'\U0001f600': 1, '\uffff': 2}, {'\uffff': 2, '\U0001f600': 1}, {'aa': 1, 'a': 2}, {'a': 2, 'aa': 1},
        {'a': 1, 'b': 2, 'c': 3}, {'c': 3, 'b': 2, 'a': 1}, {'c': 3, 'a': 1, 'b': 2}, {'a': 1, 'b': 2, 'c': 4}, {'a': 1, 'c': 3}, {'a': f[0]}, {'a': f[1]},
        {'a': datetime.date(2020, 1, 1)}, {'a': datetime.datetime(2020, 1, 1)}, {'k': [1, 2]}, {'k': [1, 2.0]}, {'k': [1, 3]}, {'10': 1, '9': 2}, {'9': 2, '10': 1},
        {'x': None, 'y': None}, {'y': None, 'x': None}, {'x': None}, {'a': 1, 'b': None}, {'a': True}, {'a': 'a'},
    ]


def gen_value(rng, leaves, max_depth):
    r = rng.random()
    if max_depth == 0 or r < 0.35:
        return rng.choice(leaves)
    n = rng.choice([0, 1, 1, 2, 2, 3, 4])
    if r < 0.7:
        return [gen_value(rng, leaves, max_depth - 1) for _ in range(n)]
    keys = rng.sample(['a', 'b', 'c', '', 'aa', 'A', '\xe9', '\U0001f600', '\uffff', '10', '9', 'z'], n)
    return {k: gen_value(rng, leaves, max_depth - 1) for k in keys}


def respell(v):
    """The same value with every number in the other spelling (int <-> float) where that is exact."""
    if isinstance(v, bool) or v is None:
        return v
    if isinstance(v, int):
        return float(v) if abs(v) <= 2 ** 53 else v
    if isinstance(v, float):
        return int(v) if v == v and abs(v) != float('inf') and v.is_integer() else v
    if isinstance(v, list):
        return [respell(x) for x in v]
    if isinstance(v, dict):
        return {k: respell(x) for k, x in v.items()}
    return v


def shuffled_keys(v, rng):
    """The same value with every dict re-inserted in another order."""
    if isinstance(v, list):
        return [shuffled_keys(x, rng) for x in v]
    if isinstance(v, dict):
        items = list(v.items())
        rng.shuffle(items)
        return {k: shuffled_keys(x, rng) for k, x in items}
    return v


def build_pool(rng, size):
    leaves = leaf_values()
    pool = list(leaves) + fixed_containers()
    small = [v for v in leaves if not isinstance(v, (int, float)) or isinstance(v, bool) or abs(v) < 1000]
    seen = {digest(spec(v)) for v in pool}
    tries = 0
    while len(pool) < size and tries < 100000:
        tries += 1
        v = gen_value(rng, small if rng.random() < 0.7 else leaves, rng.choice([1, 2, 3, 3]))
        if not isinstance(v, (list, dict)):
            continue
        variants = [v]
        if rng.random() < 0.3:
            variants.append(respell(v))
        if rng.random() < 0.3:
            variants.append(shuffled_keys(v, rng))
        for w in variants:
            dg = digest(spec(w))
            if dg not in seen and len(pool) < size:
                seen.add(dg)
                pool.append(w)
    return pool


def sample_pool(rng, pool, n):
    """n pool values with every type (and every leaf category) represented."""
    if n >= len(pool):
        return list(pool)
    by_type = {}
    for v in pool:
        by_type.setdefault(tname(v), []).append(v)
    out = []
    per = max(2, n // (2 * len(by_type)))
    for t in sorted(by_type):
        out.extend(rng.sample(by_type[t], min(per, len(by_type[t]))))
    ids = {id(v) for v in out}
    rest = [v for v in pool if id(v) not in ids]
    out.extend(rng.sample(rest, max(0, n - len(out))))
    return out[:n]


# ---------------------------------------------------------------------------------------------------------------------
# The implementation, called the way scripts reach it
# ---------------------------------------------------------------------------------------------------------------------

class Impl:
    def __init__(self):
        m = fw.impl()
        self.value = m['value']
        self.runtime = m['runtime']
        self.library = m['library']
        self.parser = m['parser']
        self.globals = dict(self.library.SCRIPT_FUNCTIONS)
        self.options = {'globals': self.globals, 'maxStatements': MAXS}

    def cmp(self, a, b):
        try:
            return self.value.value_compare(a, b)
        except Exception as exc:  # pylint: disable=broad-except
            return 'EXC:' + type(exc).__name__

    def call(self, name, *args):
        """name(args...) through evaluate_expression (so through the call wrapper that turns failures into null)."""
        expr = {'function': {'name': name, 'args': [{'variable': f'x{i}'} for i in range(len(args))]}}
        try:
            return self.runtime.evaluate_expression(expr, self.options, {f'x{i}': a for i, a in enumerate(args)})
        except Exception as exc:  # pylint: disable=broad-except
            return 'EXC:' + type(exc).__name__

    def relop(self, op, a, b):
        expr = {'binary': {'op': op, 'left': {'variable': 'a'}, 'right': {'variable': 'b'}}}
        try:
            return self.runtime.evaluate_expression(expr, self.options, {'a': a, 'b': b})
        except Exception as exc:  # pylint: disable=broad-except
            return 'EXC:' + type(exc).__name__

    def script(self, text, variables):
        try:
            script = self.parser.parse_script(text)
            glob = dict(variables)
            return self.runtime.execute_script(script, {'globals': glob, 'maxStatements': MAXS})
        except Exception as exc:  # pylint: disable=broad-except
            return 'EXC:' + type(exc).__name__


RELOPS = {'==': lambda c: c == 0, '!=': lambda c: c != 0, '<=': lambda c: c <= 0, '<': lambda c: c < 0, '>=': lambda c: c >= 0, '>': lambda c: c > 0}
TYPE_ORDER = ['array', 'boolean', 'datetime', 'function', 'number', 'object', 'regex', 'string']


def sign(x):
    return -1 if x < 0 else (1 if x > 0 else 0)


def is_int(x):
    return isinstance(x, int) and not isinstance(x, bool)


# ---------------------------------------------------------------------------------------------------------------------
# Oracles written from the property statement. Each returns None (holds) or (expected, actual).
# ---------------------------------------------------------------------------------------------------------------------

def o_reflexive(im, a):
    r = im.cmp(a, a)
    return None if is_int(r) and r == 0 else (0, r)


def o_antisymmetric(im, a, b):
    x, y = im.cmp(a, b), im.cmp(b, a)
    ok = is_int(x) and is_int(y) and x in (-1, 0, 1) and y in (-1, 0, 1) and x == -y
    return None if ok else ('compare(a,b) = -compare(b,a), both in {-1,0,1}', [x, y])


def o_transitive(im, a, b, c):
    ab, bc, ac = im.cmp(a, b), im.cmp(b, c), im.cmp(a, c)
    if not (is_int(ab) and is_int(bc) and is_int(ac)):
        return ('integers', [ab, bc, ac])
    if ab <= 0 and bc <= 0:
        if ac > 0 or ((ab < 0 or bc < 0) and ac >= 0):
            return ('a<=b<=c implies a<=c (strict if one step is strict)', [ab, bc, ac])
    return None


def o_null_least(im, a):
    x, y = im.cmp(None, a), im.cmp(a, None)
    want = [0, 0] if a is None else [-1, 1]
    return None if [x, y] == want else (want, [x, y])


def o_cross_type(im, a, b):
    ta, tb = tname(a), tname(b)
    if ta == tb or a is None or b is None:
        return None
    want = -1 if TYPE_ORDER.index(ta) < TYPE_ORDER.index(tb) else 1
    r = im.cmp(a, b)
    return None if r == want else (want, r)


def o_datetime(im, a, b):
    """date / naive / aware datetimes are ordered by their normalised instant (date = its midnight, aware = local wall clock)"""
    want = sign(norm_us(a) - norm_us(b))
    r = im.cmp(a, b)
    return None if r == want else (want, r)


def o_same_type(im, a, b):
    """Two values of one type, one level of the definition unfolded: strings by code point, numbers by exact value, false < true,
    functions / regexes all equal, arrays and objects element by element (objects by key in code-point order, key before value) with the
    implementation's own answers for the elements, then by length."""
    t = tname(a)
    if t != tname(b) or t in ('null', 'datetime'):
        return None
    r = im.cmp(a, b)
    if t == 'string':
        ca, cb = [ord(c) for c in a], [ord(c) for c in b]
        want = -1 if ca < cb else (0 if ca == cb else 1)
    elif t == 'number':
        inf = float('inf')
        if a in (inf, -inf) or b in (inf, -inf):
            want = sign((a > b) - (a < b))
        else:
            want = sign(Fraction(a) - Fraction(b))
    elif t == 'boolean':
        want = sign(int(a) - int(b))
    elif t in ('function', 'regex'):
        want = 0
    else:
        if t == 'array':
            la, lb = list(a), list(b)
        else:
            ka = sorted(a, key=lambda k: [ord(c) for c in k])
            kb = sorted(b, key=lambda k: [ord(c) for c in k])
            la = [x for k in ka for x in (k, a[k])]
            lb = [x for k in kb for x in (k, b[k])]
        want = 0
        for x, y in zip(la, lb):
            c = im.cmp(x, y)
            if c != 0:
                want = c
                break
        if want == 0:
            want = sign(len(la) - len(lb))
    return None if r == want else (want, r)


def o_spelling(im, a, b):
    a2, b2 = respell(a), respell(b)
    base = im.cmp(a, b)
    got = [im.cmp(a2, b), im.cmp(a, b2), im.cmp(a2, b2), im.cmp(a, a2)]
    want = [base, base, base, 0]
    return None if got == want else (want, got)


def o_key_order(im, a, b, seed=0):
    import random  # local: deterministic from the given seed
    rng = random.Random(seed)
    a2 = shuffled_keys(a, rng)
    base = im.cmp(a, b)
    got = [im.cmp(a2, b), im.cmp(a, a2)]
    return None if got == [base, 0] else ([base, 0], got)


def o_relops(im, a, b):
    c = im.cmp(a, b)
    if not is_int(c):
        return ('integer', c)
    got = {op: im.relop(op, a, b) for op in RELOPS}
    want = {op: fn(c) for op, fn in RELOPS.items()}
    sc = im.call('systemCompare', a, b)
    if got != want or sc != c or any(type(v) is not bool for v in got.values()):
        return ({'ops': want, 'systemCompare': c}, {'ops': got, 'systemCompare': sc})
    return None


def ref_cmp(im):
    return functools.cmp_to_key(im.cmp)


def perm_of(out, inp):
    """Indices into inp such that out[k] is inp[perm[k]] (identity; equal immutable objects are taken in order) or None."""
    if not isinstance(out, list) or len(out) != len(inp):
        return None
    slots = {}
    for i, v in enumerate(inp):
        slots.setdefault(id(v), []).append(i)
    perm = []
    for v in out:
        lst = slots.get(id(v))
        if not lst:
            return None
        perm.append(lst.pop(0))
    return perm


def check_sorted_stable(perm, inp, cmpf):
    """ordered, permutation, stable - straight from the property statement"""
    if perm is None or sorted(perm) != list(range(len(inp))):
        return 'not a permutation of the input'
    for k in range(len(perm)):
        for m in range(k + 1, len(perm)):
            c = cmpf(inp[perm[k]], inp[perm[m]])
            if not is_int(c) or c > 0:
                return f'not ordered: positions {k},{m}'
            if c == 0 and perm[k] > perm[m]:
                return f'not stable: positions {k},{m}'
    return None


def o_sort(im, xs):
    arr = list(xs)
    out = im.call('arraySort', arr)
    if out is not arr:
        return ('the sorted input array', 'another object' if isinstance(out, list) else out)
    why = check_sorted_stable(perm_of(out, xs), xs, im.cmp)
    return None if why is None else ('ordered stable permutation', why)


def row_cmp(im, sorts):
    def f(r1, r2):
        for s in sorts:
            v1, v2 = r1.get(s[0]), r2.get(s[0])
            c = im.cmp(v2, v1) if (len(s) > 1 and s[1]) else im.cmp(v1, v2)
            if not is_int(c):
                return c
            if c != 0:
                return c
        return 0
    return f


def o_data_sort(im, rows, sorts):
    arr = list(rows)
    out = im.call('dataSort', arr, [list(s) for s in sorts])
    if out is not arr:
        return ('the sorted data array', 'another object' if isinstance(out, list) else out)
    why = check_sorted_stable(perm_of(out, rows), rows, row_cmp(im, sorts))
    return None if why is None else ('rows ordered by the sort keys, stable', why)


def o_minmax(im, xs):
    mx, mn = im.call('mathMax', *xs), im.call('mathMin', *xs)
    if not xs:
        return None if mx is None and mn is None else ([None, None], [spec_safe(mx), spec_safe(mn)])
    for name, res, sgn in (('mathMax', mx, 1), ('mathMin', mn, -1)):
        pos = next((i for i, v in enumerate(xs) if v is res), None)
        if pos is None:
            return (f'{name} returns one of its arguments', spec_safe(res))
        for i, v in enumerate(xs):
            c = im.cmp(v, res)
            if not is_int(c) or c * sgn > 0:
                return (f'{name} result is greatest/least', {'result_index': pos, 'beaten_by': i})
        first = next(i for i, v in enumerate(xs) if im.cmp(v, res) == 0)
        if xs[first] is not res and not _same_scalar(xs[first], res):
            return (f'{name} returns the first of equal arguments', {'result_index': pos, 'first_equal': first})
    return None


def _same_scalar(a, b):
    return type(a) is type(b) and not isinstance(a, (list, dict)) and a == b


def spec_safe(v):
    try:
        return spec(v)
    except Exception:  # pylint: disable=broad-except
        return repr(v)


def o_index_of(im, xs, needle, index):
    args = [list(xs), needle] + ([] if index is None else [index])
    got = im.call('arrayIndexOf', *args)
    start = 0 if index is None else index
    want = -1
    if start < len(xs):
        want = next((i for i in range(int(start), len(xs)) if im.cmp(xs[i], needle) == 0), -1)
    return None if got == want and is_int(got) else (want, got)


def o_last_index_of(im, xs, needle, index):
    args = [list(xs), needle] + ([] if index is None else [index])
    got = im.call('arrayLastIndexOf', *args)
    start = len(xs) - 1 if index is None else index
    want = -1
    if start < len(xs):
        want = next((i for i in range(int(start), -1, -1) if im.cmp(xs[i], needle) == 0), -1)
    return None if got == want and is_int(got) else (want, got)


ORACLES = {
    'reflexive': o_reflexive, 'antisymmetric': o_antisymmetric, 'transitive': o_transitive, 'null-least': o_null_least,
    'cross-type-by-name': o_cross_type, 'datetime-normalised-order': o_datetime, 'same-type-order': o_same_type, 'int-float-spelling': o_spelling, 'key-order': o_key_order, 'relops-sign': o_relops,
    'arraySort': o_sort, 'dataSort': o_data_sort, 'mathMinMax': o_minmax, 'arrayIndexOf': o_index_of, 'arrayLastIndexOf': o_last_index_of,
}


def run_oracle(ctx, im, name, *args):
    """Run one oracle; on failure record a witness whose input can be replayed. -> True if the property held."""
    try:
        res = ORACLES[name](im, *[a[1] if isinstance(a, tuple) and a and a[0] == 'raw' else a for a in args])
    except Exception as exc:  # pylint: disable=broad-except
        res = ('no exception', 'EXC:' + type(exc).__name__ + ': ' + str(exc)[:200])
    if res is None:
        return True
    ctx.witness(name, {'oracle': name, 'args': [spec_arg(a) for a in args], 'tz': os.environ.get('TZ', '')}, res[0], res[1])
    return False


def spec_arg(a):
    """top-level oracle arguments: values, lists of values, sort descriptions, indices"""
    if isinstance(a, tuple) and a and a[0] == 'raw':
        return {'raw': a[1]}
    return {'value': spec(a)}


def unspec_arg(a):
    return a['raw'] if 'raw' in a else unspec(a['value'])


# ---------------------------------------------------------------------------------------------------------------------
# Streams
# ---------------------------------------------------------------------------------------------------------------------

def load_corpus():
    path = os.path.join(fw.VERIF, 'harness', 'corpus', 'C11.jsonl')
    out = []
    if os.path.exists(path):
        with open(path, encoding='utf-8') as fh:
            for line in fh:
                line = line.strip()
                if line and not line.startswith('#'):
                    out.append(json.loads(line))
    return out


def matrix_stream(ctx, im, st, stream, pool, label):
    """All ordered pairs of `pool`: implementation vs model, plus the pairwise laws on the implementation."""
    n = len(pool)
    encs = [enc(v) for v in pool]
    digs = [digest(e) for e in encs]
    types = [tname(v) for v in pool]
    resp = ctx.driver.batch([{'op': 'matrix', 'pool': encs}])[0]
    model = resp.get('m')
    impl = [[im.cmp(a, b) for b in pool] for a in pool]
    for i in range(n):
        run_oracle(ctx, im, 'reflexive', pool[i])
        run_oracle(ctx, im, 'null-least', pool[i])
        for j in range(n):
            st.case([digs[i], digs[j]], nontrivial=(i != j), tags=[f'{types[i]}/{types[j]}' if types[i] <= types[j] else f'{types[j]}/{types[i]}',
                                                                  f'{label}:r={impl[i][j]}'])
            mij = model[i][j] if model else resp
            if impl[i][j] != mij:
                ctx.disagreements_checked += 1
                ctx.disagree(stream, {'a': spec(pool[i]), 'b': spec(pool[j]), 'tz': os.environ.get('TZ', '')}, impl[i][j], mij)
            else:
                ctx.disagreements_checked += 1
            x, y = impl[i][j], impl[j][i]
            if not (is_int(x) and is_int(y) and x in (-1, 0, 1) and x == -y):
                run_oracle(ctx, im, 'antisymmetric', pool[i], pool[j])
            if types[i] != types[j] and pool[i] is not None and pool[j] is not None:
                want = -1 if types[i] < types[j] else 1
                if x != want:
                    run_oracle(ctx, im, 'cross-type-by-name', pool[i], pool[j])
            if types[i] == 'datetime' and types[j] == 'datetime' and x != sign(norm_us(pool[i]) - norm_us(pool[j])):
                run_oracle(ctx, im, 'datetime-normalised-order', pool[i], pool[j])
            if types[i] == types[j]:
                run_oracle(ctx, im, 'same-type-order', pool[i], pool[j])
    return impl


def triples(ctx, im, st, pool, impl, idx):
    """Transitivity on all triples over the index set idx, from the implementation's own comparison matrix."""
    bad = 0
    cnt = 0
    for a in idx:
        ra = impl[a]
        for b in idx:
            ab = ra[b]
            if not is_int(ab) or ab > 0:
                cnt += len(idx)
                continue
            rb = impl[b]
            for c in idx:
                bc = rb[c]
                if is_int(bc) and bc <= 0:
                    ac = ra[c]
                    if not is_int(ac) or ac > 0 or ((ab < 0 or bc < 0) and ac >= 0):
                        if bad < 5:
                            run_oracle(ctx, im, 'transitive', pool[a], pool[b], pool[c])
                        bad += 1
            cnt += len(idx)
    st.evaluations += cnt
    st.hist['triples'] = st.hist.get('triples', 0) + cnt
    return bad


def streams(ctx):
    im = Impl()
    corpus = load_corpus()

    # ---- cmp: all ordered pairs of a pool, sampled/all triples --------------------------------------------------------
    st = ctx.stream('cmp', 'value_compare on all ordered pairs of a pool of values of all nine types (nesting <= 3, date / naive / aware datetimes, '
                           'int / float / bool, empty containers, key orders): implementation vs model + reflexive, antisymmetric, range, null least, '
                           'cross-type by name, same-type order (one level of the definition unfolded) and datetime normalised order on every pair; transitivity on triples; non-trivial = two different pool entries')
    rng = ctx.rng('cmp')
    pool = build_pool(rng, ctx.scale(300, 640))
    corpus_vals = []
    for c in corpus:
        if c.get('kind') == 'values':
            corpus_vals.extend(unspec(s) for s in c['values'])
    pool = corpus_vals + pool
    impl = matrix_stream(ctx, im, st, 'cmp', pool, 'pool')
    n = len(pool)
    tsub = list(range(len(corpus_vals))) + sorted(rng.sample(range(len(corpus_vals), n), ctx.scale(60, 120)))
    triples(ctx, im, st, pool, impl, tsub)
    # random triples over the whole pool
    trng = ctx.rng('triples')
    bad = 0
    nrand = ctx.scale(150000, 1500000)
    for _ in range(nrand):
        a, b, c = trng.randrange(n), trng.randrange(n), trng.randrange(n)
        ab, bc, ac = impl[a][b], impl[b][c], impl[a][c]
        if is_int(ab) and is_int(bc) and ab <= 0 and bc <= 0 and (not is_int(ac) or ac > 0 or ((ab < 0 or bc < 0) and ac >= 0)):
            if bad < 5:
                run_oracle(ctx, im, 'transitive', pool[a], pool[b], pool[c])
            bad += 1
    st.evaluations += nrand
    st.hist['triples'] = st.hist.get('triples', 0) + nrand
    st.exhaustive = False
    ctx.notes.append(f'cmp: pool {n} values ({len(corpus_vals)} from corpus), all {n * n} ordered pairs, all triples of a {len(tsub)}-value sub-pool, '
                     f'{nrand} random triples; depth histogram {hist([depth(v) for v in pool])}, types {hist([tname(v) for v in pool])}')

    # +-inf: implementation side only (not representable in the model)
    inf_pool = [float('inf'), float('-inf'), [float('inf')], {'a': float('-inf')}] + sample_pool(rng, pool, 40)
    im_inf = [[im.cmp(a, b) for b in inf_pool] for a in inf_pool]
    for i, a in enumerate(inf_pool):
        run_oracle(ctx, im, 'reflexive', a)
        for j, b in enumerate(inf_pool):
            x, y = im_inf[i][j], im_inf[j][i]
            if not (is_int(x) and is_int(y) and x in (-1, 0, 1) and x == -y):
                run_oracle(ctx, im, 'antisymmetric', a, b)
            run_oracle(ctx, im, 'cross-type-by-name', a, b)
            run_oracle(ctx, im, 'same-type-order', a, b)
    triples(ctx, im, st, inf_pool, im_inf, list(range(len(inf_pool))))

    # other time zones: the datetime part of the pool again with TZ switched (normalisation depends on the local zone)
    dts = [v for v in pool if depth(v) <= 1 and contains_dt(v)]
    old_tz = os.environ.get('TZ')
    for zone in ctx.scale(['America/New_York'], ['America/New_York', 'Asia/Kolkata', 'Pacific/Apia']):
        if not os.path.exists(os.path.join('/usr/share/zoneinfo', zone)):
            ctx.notes.append(f'zone {zone} not installed: skipped')
            continue
        try:
            os.environ['TZ'] = zone
            time.tzset()
            sub = dts[:ctx.scale(60, 140)]
            impl_z = matrix_stream(ctx, im, st, 'cmp', sub, zone)
            triples(ctx, im, st, sub, impl_z, list(range(len(sub))))
        finally:
            if old_tz is None:
                os.environ.pop('TZ', None)
            else:
                os.environ['TZ'] = old_tz
            time.tzset()

    # ---- spelling / key order (metamorphic, implementation) + model on single pairs ----------------------------------
    st2 = ctx.stream('relops', 'pairs through evaluate_expression: the six relational operators and systemCompare against the sign of value_compare '
                               '(oracle) and against the model; int/float re-spelling and dict key re-ordering leave every comparison unchanged; '
                               'non-trivial = two different values')
    prng = ctx.rng('relops')
    npairs = ctx.scale(4000, 24000)
    pairs = [(prng.randrange(n), prng.randrange(n)) for _ in range(npairs)]
    # bias towards pairs that compare equal or are close (same type)
    by_type = {}
    for i, v in enumerate(pool):
        by_type.setdefault(tname(v), []).append(i)
    for _ in range(npairs // 2):
        t = prng.choice(sorted(by_type))
        pairs.append((prng.choice(by_type[t]), prng.choice(by_type[t])))
    reqs = [{'op': 'cmp', 'a': enc(pool[i]), 'b': enc(pool[j])} for i, j in pairs]
    resps = ctx.driver.batch(reqs)
    for (i, j), resp in zip(pairs, resps):
        a, b = pool[i], pool[j]
        st2.case([digest(enc(a)), digest(enc(b))], nontrivial=(i != j), tags=[f'r={impl[i][j]}'])
        got = {op: im.relop(op, a, b) for op in RELOPS}
        got['r'] = im.call('systemCompare', a, b)
        ctx.compare('relops', {'a': spec(a), 'b': spec(b)}, got, {k: resp.get(k, resp) for k in list(RELOPS) + ['r']})
        run_oracle(ctx, im, 'relops-sign', a, b)
        run_oracle(ctx, im, 'int-float-spelling', a, b)
        run_oracle(ctx, im, 'key-order', a, b, ('raw', i * 7919 + j))
    # whole scripts (parse + execute) for literal-expressible values
    lit_pairs = [(a, b) for a, b in ((pool[i], pool[j]) for i, j in pairs) if literal(a) is not None and literal(b) is not None][:ctx.scale(300, 3000)]
    for a, b in lit_pairs:
        c = im.cmp(a, b)
        text = f'r = arrayNew(systemCompare({literal(a)}, {literal(b)}), ' + ', '.join(f'{literal(a)} {op} {literal(b)}' for op in RELOPS) + ')\nreturn r'
        got = im.script(text, {})
        want = [c] + [fn(c) for fn in RELOPS.values()] if is_int(c) else None
        st2.case(text, nontrivial=True, tags=['script'])
        if got != want:
            ctx.witness('script-relops', {'oracle': 'script-relops', 'text': text}, want, got if not isinstance(got, list) else got)

    # ---- sort ---------------------------------------------------------------------------------------------------------
    st3 = ctx.stream('sort', 'arraySort(array) on arrays of pool values with many equal-comparing but distinguishable elements (1 vs 1.0, two '
                             'functions, dicts in different key order, equal lists): implementation vs model permutation + ordered / permutation / '
                             'stable oracle; dataSort multi-key asc/desc with missing fields; non-trivial = length >= 2')
    srng = ctx.rng('sort')
    sort_cases = []
    for c in corpus:
        if c.get('kind') == 'sort':
            sort_cases.append([unspec(s) for s in c['values']])
    classes = equal_classes(pool, impl)
    for _ in range(ctx.scale(1500, 20000)):
        k = srng.choice([0, 1, 2, 3, 5, 8, 12, 20, 40, 70]) if srng.random() < 0.9 else srng.randrange(100, 200)
        mode = srng.random()
        if mode < 0.4:
            src = srng.choice(classes) + srng.choice(classes) + srng.choice(classes)   # few classes, many ties
        elif mode < 0.7:
            src = [pool[i] for i in by_type[srng.choice(sorted(by_type))]]
        else:
            src = pool
        xs = [clone(srng.choice(src)) for _ in range(k)]
        sort_cases.append(xs)
    # host-type pitfalls: arrays drawn from only two neighbouring Python classes (bool is an int; int vs float; str only;
    # date vs datetime) - a "fast path" keyed on isinstance would order these by Python's rules instead of value_compare
    pit_sources = [[True, False, 0, 1, 2, 0.5, 1.0, -1], [True, False, 0.0, 2.0, 0.5], [True, False], ['b', 'a', '', 'B', 'aa'],
                   [0, 1, 2, -1, 10**15], [datetime.date(2020, 1, 2), datetime.datetime(2020, 1, 1, 5), datetime.date(2019, 12, 31)],
                   [None, True, 0], [None, False, 0.0, '']]
    for _ in range(ctx.scale(300, 4000)):
        src = srng.choice(pit_sources)
        sort_cases.append([srng.choice(src) for _ in range(srng.choice([2, 3, 4, 6, 9]))])
    resps = ctx.driver.batch([{'op': 'sort', 'xs': [enc(v) for v in xs]} for xs in sort_cases])
    for xs, resp in zip(sort_cases, resps):
        st3.case([digest(enc(v)) for v in xs], nontrivial=len(xs) >= 2, tags=[f'len{bucket(len(xs))}'])
        arr = list(xs)
        out = im.call('arraySort', arr)
        ctx.compare('sort', {'values': [spec(v) for v in xs]}, perm_of(out, xs), resp.get('perm', resp))
        run_oracle(ctx, im, 'arraySort', xs)
    # dataSort
    fields = ['a', 'b', 'c']
    small_vals = [None, 0, 1, 1.0, 2, -1, 0.5, 'a', 'b', '', True, False, datetime.date(2020, 1, 1), datetime.datetime(2020, 1, 1), [1], [1.0], {'k': 1}]
    ds_cases = []
    for _ in range(ctx.scale(800, 10000)):
        rows = []
        for _r in range(srng.choice([0, 1, 2, 4, 7, 12, 25])):
            row = {}
            for f in srng.sample(fields + ['id'], 4):
                if f == 'id' or srng.random() < 0.85:
                    row[f] = srng.choice(small_vals[:8]) if srng.random() < 0.7 else srng.choice(small_vals)
            rows.append(row)
        sorts = [[srng.choice(fields + ['zz'])] + ([srng.random() < 0.5] if srng.random() < 0.8 else []) for _s in range(srng.choice([0, 1, 1, 2, 2, 3]))]
        ds_cases.append((rows, sorts))
    resps = ctx.driver.batch([{'op': 'dataSort', 'rows': [enc(r) for r in rows], 'sorts': sorts} for rows, sorts in ds_cases])
    for (rows, sorts), resp in zip(ds_cases, resps):
        st3.case([[digest(enc(r)) for r in rows], sorts], nontrivial=len(rows) >= 2 and len(sorts) >= 1, tags=[f'dataSort:keys{len(sorts)}'])
        arr = list(rows)
        out = im.call('dataSort', arr, [list(s) for s in sorts])
        ctx.compare('sort', {'rows': [spec(r) for r in rows], 'sorts': sorts}, perm_of(out, rows), resp.get('perm', resp))
        run_oracle(ctx, im, 'dataSort', rows, ('raw', sorts))

    # ---- min/max, indexOf ----------------------------------------------------------------------------------------------
    st4 = ctx.stream('minmax', 'mathMax / mathMin over 0..8 pool values (any types, null included, ties): implementation vs model + '
                               '"an argument, greatest/least, first among equals"; arrayIndexOf / arrayLastIndexOf with value needles and start '
                               'indices incl. out of range; non-trivial = at least two arguments / a non-empty array')
    mrng = ctx.rng('minmax')
    mm_cases = [[]]
    for _ in range(ctx.scale(2500, 30000)):
        k = mrng.choice([1, 2, 2, 3, 3, 4, 5, 8])
        mode = mrng.random()
        src = pool if mode < 0.4 else ([pool[i] for i in by_type[mrng.choice(sorted(by_type))]] if mode < 0.7 else mrng.choice(classes) + mrng.choice(classes))
        mm_cases.append([clone(mrng.choice(src)) for _ in range(k)])
    resps = ctx.driver.batch([{'op': 'minmax', 'xs': [enc(v) for v in xs]} for xs in mm_cases])
    for xs, resp in zip(mm_cases, resps):
        st4.case([digest(enc(v)) for v in xs], nontrivial=len(xs) >= 2, tags=[f'minmax:n{len(xs)}'])
        got = {'max': enc_safe(im.call('mathMax', *xs)), 'min': enc_safe(im.call('mathMin', *xs))}
        ctx.compare('minmax', {'values': [spec(v) for v in xs]}, got, {'max': resp.get('max', resp), 'min': resp.get('min', resp)})
        run_oracle(ctx, im, 'mathMinMax', xs)
    io_cases = []
    nonfn = [v for v in pool if not callable(v)]
    for _ in range(ctx.scale(2500, 30000)):
        k = mrng.choice([0, 1, 2, 3, 5, 8, 12])
        src = mrng.choice(classes) + mrng.choice(classes) + [mrng.choice(pool)] if mrng.random() < 0.7 else pool
        xs = [clone(mrng.choice(src)) for _ in range(k)]
        needle = mrng.choice([v for v in src if not callable(v)] or nonfn) if mrng.random() < 0.8 else mrng.choice(nonfn)
        index = None if mrng.random() < 0.4 else mrng.choice([0, 0, 1, 2, k - 1 if k else 0, k, k + 1, 1.0, 2.0])
        io_cases.append((xs, needle, index))
    reqs = []
    for xs, needle, index in io_cases:
        base = {'xs': [enc(v) for v in xs], 'v': enc(needle)}
        r1 = dict(base, op='indexOf')
        r2 = dict(base, op='lastIndexOf')
        if index is not None:
            r1['index'] = int(index)
            r2['index'] = int(index)
        reqs.extend([r1, r2])
    resps = ctx.driver.batch(reqs)
    for k, (xs, needle, index) in enumerate(io_cases):
        st4.case([[digest(enc(v)) for v in xs], digest(enc(needle)), index], nontrivial=len(xs) >= 1, tags=['indexOf:' + ('default' if index is None else 'index')])
        args = [needle] + ([] if index is None else [index])
        got = [im.call('arrayIndexOf', list(xs), *args), im.call('arrayLastIndexOf', list(xs), *args)]
        ctx.compare('minmax', {'values': [spec(v) for v in xs], 'needle': spec(needle), 'index': index}, got,
                    [resps[2 * k].get('r', resps[2 * k]), resps[2 * k + 1].get('r', resps[2 * k + 1])])
        run_oracle(ctx, im, 'arrayIndexOf', xs, needle, ('raw', index))
        run_oracle(ctx, im, 'arrayLastIndexOf', xs, needle, ('raw', index))


def contains_dt(v):
    if isinstance(v, datetime.date):
        return True
    if isinstance(v, list):
        return any(contains_dt(x) for x in v)
    if isinstance(v, dict):
        return any(contains_dt(x) for x in v.values())
    return False


def hist(xs):
    h = {}
    for x in xs:
        h[x] = h.get(x, 0) + 1
    return dict(sorted(h.items(), key=lambda kv: str(kv[0])))


def bucket(n):
    return n if n <= 3 else ('4-8' if n <= 8 else ('9-20' if n <= 20 else '21+'))


def clone(v):
    """A distinct object for containers (so that sort stability is observable by identity)."""
    if isinstance(v, list):
        return [clone(x) for x in v]
    if isinstance(v, dict):
        return {k: clone(x) for k, x in v.items()}
    return v


def enc_safe(v):
    try:
        return enc(v)
    except Exception:  # pylint: disable=broad-except
        return {'unencodable': repr(v)[:100]}


def equal_classes(pool, impl):
    """Groups of pool values the implementation compares equal (size >= 2 first), used to build tie-rich inputs."""
    n = len(pool)
    seen = set()
    out = []
    for i in range(n):
        if i in seen:
            continue
        grp = [j for j in range(i, n) if impl[i][j] == 0 and impl[j][i] == 0]
        seen.update(grp)
        if len(grp) >= 2:
            out.append([pool[j] for j in grp])
    singles = [[v] for v in pool[:40]]
    return out + singles


def literal(v):
    """BareScript source text of a value, or None when it has no literal form used here."""
    if v is None:
        return 'null'
    if isinstance(v, bool):
        return 'true' if v else 'false'
    if isinstance(v, int):
        return str(v) if 0 <= v < 10 ** 15 else (f'(0 - {-v})' if -10 ** 15 < v < 0 else None)
    if isinstance(v, float):
        if v in (0.5, 1.5, 0.1, 0.2, 0.3, 1.0, 2.0, 3.0, 123456.789):
            return repr(v)
        return None
    if isinstance(v, str):
        return "'" + v + "'" if re.fullmatch(r'[A-Za-z0-9 ~]*', v) else None
    if isinstance(v, list):
        parts = [literal(x) for x in v]
        return None if any(p is None for p in parts) else 'arrayNew(' + ', '.join(parts) + ')'
    if isinstance(v, dict):
        parts = []
        for k, x in v.items():
            kk, xx = literal(k), literal(x)
            if kk is None or xx is None:
                return None
            parts.extend([kk, xx])
        return 'objectNew(' + ', '.join(parts) + ')'
    return None


# ---------------------------------------------------------------------------------------------------------------------
# search / replay
# ---------------------------------------------------------------------------------------------------------------------

def search(ctx):
    """Directed search for a failing input of the property on the implementation: the laws on a fresh, larger pool (all pairs, all
    triples of a sub-pool), then every consumer oracle on tie-rich inputs."""
    im = Impl()
    rng = ctx.rng('search')
    pool = build_pool(rng, ctx.scale(260, 500))
    n = len(pool)
    impl = [[im.cmp(a, b) for b in pool] for a in pool]
    for i in range(n):
        if not run_oracle(ctx, im, 'reflexive', pool[i]) or not run_oracle(ctx, im, 'null-least', pool[i]):
            return
        for j in range(n):
            x, y = impl[i][j], impl[j][i]
            if not (is_int(x) and is_int(y) and x in (-1, 0, 1) and x == -y):
                run_oracle(ctx, im, 'antisymmetric', pool[i], pool[j])
                return
            if not run_oracle(ctx, im, 'cross-type-by-name', pool[i], pool[j]):
                return
    st = ctx.stream('search', 'directed search after a broken obligation')
    if triples(ctx, im, st, pool, impl, sorted(rng.sample(range(n), min(n, ctx.scale(120, 200))))):
        return
    classes = equal_classes(pool, impl)
    for _ in range(ctx.scale(3000, 20000)):
        i, j = rng.randrange(n), rng.randrange(n)
        src = rng.choice(classes) + rng.choice(classes) + [pool[i], pool[j]]
        xs = [clone(rng.choice(src)) for _ in range(rng.choice([2, 3, 5, 9, 30, 70]))]
        ok = (run_oracle(ctx, im, 'relops-sign', pool[i], pool[j]) and run_oracle(ctx, im, 'int-float-spelling', pool[i], pool[j])
              and run_oracle(ctx, im, 'key-order', pool[i], pool[j], ('raw', i)) and run_oracle(ctx, im, 'arraySort', xs)
              and run_oracle(ctx, im, 'mathMinMax', xs[:6]) and run_oracle(ctx, im, 'arrayIndexOf', xs, pool[i] if not callable(pool[i]) else None, ('raw', None))
              and run_oracle(ctx, im, 'arrayLastIndexOf', xs, pool[j] if not callable(pool[j]) else None, ('raw', None)))
        if not ok:
            return
        rows = [{'a': rng.choice([None, 1, 1.0, 2, 'a']), 'b': rng.choice([None, 1, 2, 'b']), 'id': k} for k in range(rng.choice([2, 5, 12]))]
        if not run_oracle(ctx, im, 'dataSort', rows, ('raw', [['a', rng.random() < 0.5], ['b', rng.random() < 0.5]])):
            return


def replay(witness):
    im = Impl()
    inp = witness['input']
    zone = inp.get('tz') or None
    old = os.environ.get('TZ')
    try:
        if zone:
            os.environ['TZ'] = zone
            time.tzset()
        if inp['oracle'] == 'script-relops':
            return im.script(inp['text'], {}) != witness['expected']
        args = [unspec_arg(a) for a in inp['args']]
        try:
            return ORACLES[inp['oracle']](im, *args) is not None
        except Exception:  # pylint: disable=broad-except
            return True
    finally:
        if zone:
            if old is None:
                os.environ.pop('TZ', None)
            else:
                os.environ['TZ'] = old
            time.tzset()
