"""C11 - value comparison is a total preorder and every consumer agrees with it."""

import base64
import calendar
import collections
import copy
import datetime
import enum
import functools
import hashlib
import json
import os
import re
import subprocess
import sys
import time
import zlib
from fractions import Fraction

try:
    import zoneinfo
except ImportError:  # pragma: no cover
    zoneinfo = None

import fw

ID = 'C11'
LEVEL = 'proof'
LEAN_TARGETS = ['BareProofs.C11', 'BareProofs.C11Bridge', 'BareProofs.C11BridgeHostLib', 'BareProofs.C11BridgeLib']
DRIVER = 'drv_c11'
DRIVER_ROOT = 'Drv.C11'
GEN = []
THEOREMS = [
    # bridge to the execution model (BareProofs/C11Bridge*.lean): the heap comparison of the machine hosts IS Compare.valueCompare on reified values
    'C11Bridge.reifyF_complete', 'C11Bridge.reify_arr', 'C11Bridge.reify_obj', 'C11Bridge.reify_scalar',
    'C11Bridge.reify_typeName', 'C11Bridge.reify_none_iff', 'C11Bridge.compare_bridge', 'C11Bridge.valueCompare_bridge',
    "C11Bridge.compare_bridge'", 'C11Bridge.not_reifiable_of_compare_none', 'C11Bridge.machine_cmp_range', 'C11Bridge.machine_cmp_refl',
    'C11Bridge.machine_cmp_antisymm', 'C11Bridge.machine_cmp_total', 'C11Bridge.machine_cmp_trans', 'C11Bridge.machine_alias_equal',
    'C11Bridge.machine_equal_congr', 'C11Bridge.machine_null_least', 'C11Bridge.machine_cross_type_by_name', 'C11Bridge.machine_relop',
    'C11Bridge.machine_relops_sign', 'C11Bridge.machine_relops_identities', 'C11Bridge.machine_eval_relop', 'C11Bridge.machine_systemCompare',
    'C11Bridge.machine_call_systemCompare', 'C11Bridge.indexOfVal_bridge', 'C11Bridge.machine_indexOf', 'C11Bridge.machine_indexOf_first',
    'C11Bridge.hostLib_compare_bridge', 'C11Bridge.hostLib_relop', 'C11Bridge.hostLib_relops_sign', 'C11Bridge.hostLib_eval_relop',
    'C11Bridge.hostLib_systemCompare', 'C11Bridge.hostLib_call_systemCompare', 'C11Bridge.vcmp_bridge', 'C11Bridge.lib_compare_bridge',
    'C11Bridge.lib_compare_agrees', 'C11Bridge.hostLib_indexOf', 'C11Bridge.hostLib_indexOf_agrees', 'C11Bridge.hostLib_lastIndexOf',
    'C11.cmp_range', 'C11.cmp_refl', 'C11.cmp_antisymm', 'C11.cmp_trans', 'C11.cmp_trans_strict', 'C11.cmp_total',
    'C11.null_least', 'C11.cross_type_by_name', 'C11.cross_type_by_rank', 'C11.num_cmp', 'C11.int_float_irrelevant',
    'C11.arr_elementwise', 'C11.arr_skip_equal_prefix', 'C11.obj_elementwise', 'C11.str_cmp_zero_iff',
    'C11.sortItems_canonical', 'C11.obj_order_irrelevant',
    'C11.relops_sign', 'C11.relops_identities',
    'C11.sort_sorted_perm', 'C11.sort_stable', 'C11.stable_sort_unique', 'C11.sortBy_spec',
    'C11.sortDataFn_isPre', 'C11.dataSort_spec', 'C11.min_max_spec', 'C11.indexOf_first', 'C11.lastIndexOf_last',
]
ASSUMPTIONS = [
    'numbers: every finite int/float is an exact rational and CPython compares int with float exactly; NaN excluded by the property; '
    '+-inf are not representable in the model (Rat) - they are covered by the implementation-side law oracles only',
    'str comparison in CPython is lexicographic by code point (model: codeCmp); lone surrogates are not generated',
    'datetime: comparison goes through value_normalize_datetime (aware -> local wall clock via astimezone(), date -> midnight); the model '
    'takes the normalised instant as an integer (microseconds); the harness computes it independently (epoch arithmetic + time.localtime)',
    'sorted(dict.items()) never consults the values because dict keys are unique (model invariant WFValue); object keys are str',
    'list.sort is a stable comparison sort that only uses "<" of the cmp_to_key wrapper (theorem stable_sort_unique makes the result unique)',
    'self-containing containers (known finding F18) are out of scope and never generated',
]
TRUSTED = ['CPython: int/float/str/datetime rich comparison, list.sort, functools.cmp_to_key, time.localtime (zone database)']

LEVEL_TEXT = ('Theorems for all closed values (any depth/size): value_compare answers in {-1,0,1}, is reflexive, antisymmetric and transitive, '
              'puts null first, orders different types by type name, numbers by rational value only, arrays/objects lexicographically '
              '(objects by sorted key, insertion order invisible); the relational operators are its sign tests; arraySort/dataSort return the '
              'unique ordered stable permutation; mathMax/mathMin the first greatest/least argument; arrayIndexOf/LastIndexOf the first/last '
              'equal position. The mirror is tied to value.py/library.py/data.py/runtime.py by differential correspondence over all ordered '
              'pairs of a value pool, and every law is also checked directly on the implementation.')
LEVEL_NOTE = ('Trusted: Lean kernel; correspondence harness. Modelled not verified: CPython comparison primitives, list.sort stability, '
              'astimezone(). +-inf only on the implementation side.')

MAXS = 10000

# ---------------------------------------------------------------------------------------------------------------------
# Opaque values: functions and regexes (referred to by index on the wire and in replay files)
# ---------------------------------------------------------------------------------------------------------------------


def _f0(args, options):  # pylint: disable=unused-argument
    return None


def _f1(args, options):  # pylint: disable=unused-argument
    return 1


class HCallable:
    """A host object that is callable (a BareScript value of type function)."""

    def __call__(self, args, options=None, *rest, **kwargs):  # pylint: disable=keyword-arg-before-vararg
        return None

    def method(self, args, options):  # pylint: disable=unused-argument
        return None


# appended entries only (the index of a function is its name on the wire and in replay files)
FUNCS = [_f0, _f1, lambda args, options: None, len, functools.partial(_f0, None), print,
         HCallable(), HCallable().method, HCallable, dict, (lambda args, options=None, *rest, **kw: 0)]
REGEXES = [re.compile('a'), re.compile('b', re.I), re.compile('')]
UTC = datetime.timezone.utc
EPOCH_AWARE = datetime.datetime(1970, 1, 1, tzinfo=UTC)
EPOCH_NAIVE = datetime.datetime(1970, 1, 1)
US = datetime.timedelta(microseconds=1)


def tz(minutes):
    return datetime.timezone(datetime.timedelta(minutes=minutes))


# ---------------------------------------------------------------------------------------------------------------------
# Host-boundary values: what a host application can legally put into globals / pass as arguments. They are BareScript
# values of the base type (value_type is isinstance-based), so the property speaks about them like about the base value.
# ---------------------------------------------------------------------------------------------------------------------

class HInt(int):
    pass


class HFloat(float):
    pass


class HStr(str):
    pass


class HList(list):
    pass


class HDict(dict):
    pass


class HDate(datetime.date):
    pass


class HDateTime(datetime.datetime):
    pass


class HRaiseStr(str):
    """A host string that cannot be compared: every rich comparison raises (the relational operators answer null, the library calls
    fail). Only used as a POISON element of the poisoned histories - never an operand of an oracle."""

    def _refuse(self, other):
        raise ValueError('c11: this host value cannot be compared')

    __lt__ = __le__ = __gt__ = __ge__ = __eq__ = __ne__ = _refuse
    __hash__ = str.__hash__


class Color(enum.IntEnum):
    ZERO = 0
    RED = 1
    GREEN = 2
    BIG = 2 ** 53 + 1


class Perm(enum.IntFlag):
    X = 1
    W = 2
    R = 4


class Name(str, enum.Enum):
    EMPTY = ''
    A = 'a'
    B = 'b'
    HIGH = '\U00010000'


ENUMS = {f'{c.__name__}.{m.name}': m for c in (Color, Perm, Name) for m in c}
HOST_WRAP = {
    'HInt': HInt, 'HFloat': HFloat, 'HStr': HStr, 'HList': HList, 'HDict': HDict,
    'OrderedDict': collections.OrderedDict, 'defaultdict': lambda d: collections.defaultdict(list, d), 'Counter': collections.Counter,
    'HDate': lambda d: HDate(d.year, d.month, d.day),
    'HDateTime': lambda d: HDateTime(d.year, d.month, d.day, d.hour, d.minute, d.second, d.microsecond, tzinfo=d.tzinfo, fold=d.fold),
}
HOST_TYPES = {HInt: 'HInt', HFloat: 'HFloat', HStr: 'HStr', HList: 'HList', HDict: 'HDict', collections.OrderedDict: 'OrderedDict',
              collections.defaultdict: 'defaultdict', collections.Counter: 'Counter', HDate: 'HDate', HDateTime: 'HDateTime'}


def host_kind(v):
    if isinstance(v, enum.Enum):
        return 'enum'
    return HOST_TYPES.get(type(v))


def shallow_base(v):
    """The base-type value of a host subclass instance (children untouched)."""
    if isinstance(v, str):
        return str.__str__(v)
    if isinstance(v, int):
        return int(v)
    if isinstance(v, float):
        return float(v)
    if isinstance(v, datetime.datetime):
        return datetime.datetime(v.year, v.month, v.day, v.hour, v.minute, v.second, v.microsecond, tzinfo=v.tzinfo, fold=v.fold)
    if isinstance(v, datetime.date):
        return datetime.date(v.year, v.month, v.day)
    if isinstance(v, dict):
        return dict(v.items())
    if isinstance(v, list):
        return list(v)
    return v


def to_base(v):
    """The same value with every host subclass instance replaced by the plain base-type value (recursively)."""
    if host_kind(v) is not None:
        v = shallow_base(v)
    if isinstance(v, list):
        return [to_base(x) for x in v]
    if isinstance(v, dict):
        return {str.__str__(k): to_base(x) for k, x in v.items()}
    return v


def has_host(v):
    if host_kind(v) is not None or (isinstance(v, datetime.datetime) and zoneinfo is not None and isinstance(v.tzinfo, zoneinfo.ZoneInfo)):
        return True
    if isinstance(v, list):
        return any(has_host(x) for x in v)
    if isinstance(v, dict):
        return any(has_host(k) or has_host(x) for k, x in v.items())
    return False


# ---------------------------------------------------------------------------------------------------------------------
# Encodings: enc = wire form for the model (PValue), spec/unspec = loss-free description for replay files
# ---------------------------------------------------------------------------------------------------------------------

def norm_us(v):
    """The normalised instant of a date/datetime in microseconds, computed without value_normalize_datetime/astimezone."""
    if isinstance(v, datetime.datetime):
        if v.tzinfo is not None:
            utc_us = (v - EPOCH_AWARE) // US
            sec, rem = divmod(utc_us, 10 ** 6)
            lt = time.localtime(sec)
            return calendar.timegm(lt[:6] + (0, 0, 0)) * 10 ** 6 + rem
        return (v - EPOCH_NAIVE) // US
    return (v.toordinal() - EPOCH_NAIVE.toordinal()) * 86400 * 10 ** 6


def enc(v):
    if v is None:
        return {'t': 'null'}
    if isinstance(v, str):
        return {'t': 'str', 'v': str.__str__(v)}
    if isinstance(v, bool):
        return {'t': 'bool', 'v': v}
    if isinstance(v, (int, float)):
        fr = Fraction(v)
        return {'t': 'num', 'v': [fr.numerator, fr.denominator]}
    if isinstance(v, datetime.date):
        return {'t': 'dt', 'v': norm_us(v)}
    if isinstance(v, dict):
        return {'t': 'obj', 'v': [[str.__str__(k), enc(x)] for k, x in v.items()]}
    if isinstance(v, list):
        return {'t': 'arr', 'v': [enc(x) for x in v]}
    if callable(v):
        return {'t': 'fn', 'v': next(i for i, f in enumerate(FUNCS) if f is v or f == v)}
    if isinstance(v, type(REGEXES[0])):
        return {'t': 'regex', 'v': next(i for i, f in enumerate(REGEXES) if f is v)}
    raise ValueError(f'not a BareScript value: {v!r}')


def spec(v):
    hk = host_kind(v)
    if hk == 'enum':
        return {'enum': f'{type(v).__name__}.{v.name}'}
    if hk is not None:
        b = spec(shallow_base(v))
        b = dict(b) if isinstance(b, dict) else {'str': b}
        b['host'] = hk
        return b
    if v is None:
        return None
    if isinstance(v, str):
        return v
    if isinstance(v, bool):
        return v
    if isinstance(v, int):
        return {'int': str(v)}
    if isinstance(v, float):
        return {'float': v.hex()}
    if isinstance(v, datetime.datetime):
        off = None if v.tzinfo is None else v.utcoffset() // datetime.timedelta(seconds=1)
        out = {'datetime': [v.year, v.month, v.day, v.hour, v.minute, v.second, v.microsecond], 'offset_s': off, 'fold': v.fold}
        if zoneinfo is not None and isinstance(v.tzinfo, zoneinfo.ZoneInfo):
            out['zone'] = v.tzinfo.key
        return out
    if isinstance(v, datetime.date):
        return {'date': [v.year, v.month, v.day]}
    if isinstance(v, dict):
        return {'dict': [[spec(k), spec(x)] for k, x in v.items()]}
    if isinstance(v, list):
        return {'list': [spec(x) for x in v]}
    if callable(v):
        return {'fn': next(i for i, f in enumerate(FUNCS) if f is v or f == v)}
    return {'regex': next(i for i, f in enumerate(REGEXES) if f is v)}


def unspec(s):
    if s is None or isinstance(s, (str, bool)):
        return s
    if 'host' in s:
        return HOST_WRAP[s['host']](unspec({k: v for k, v in s.items() if k != 'host'}))
    (k, v), = [(k, v) for k, v in s.items() if k not in ('offset_s', 'fold', 'zone')]
    if k == 'enum':
        return ENUMS[v]
    if k == 'str':
        return v
    if k == 'int':
        return int(v)
    if k == 'float':
        return float.fromhex(v)
    if k == 'datetime':
        tzinfo = None if s.get('offset_s') is None else datetime.timezone(datetime.timedelta(seconds=s['offset_s']))
        if s.get('zone') and zoneinfo is not None:
            tzinfo = zoneinfo.ZoneInfo(s['zone'])
        return datetime.datetime(*v, tzinfo=tzinfo, fold=s.get('fold', 0))
    if k == 'date':
        return datetime.date(*v)
    if k == 'dict':
        return {unspec(kk): unspec(x) for kk, x in v}
    if k == 'list':
        return [unspec(x) for x in v]
    if k == 'fn':
        return FUNCS[v]
    return REGEXES[v]


def digest(e):
    return hashlib.blake2b(json.dumps(e, sort_keys=True, ensure_ascii=True).encode(), digest_size=6).hexdigest()


def tname(v):
    """Type name written from the language reference (independent of value_type)."""
    if v is None:
        return 'null'
    if isinstance(v, str):
        return 'string'
    if isinstance(v, bool):
        return 'boolean'
    if isinstance(v, (int, float)):
        return 'number'
    if isinstance(v, datetime.date):
        return 'datetime'
    if isinstance(v, dict):
        return 'object'
    if isinstance(v, list):
        return 'array'
    if callable(v):
        return 'function'
    return 'regex'


def depth(v):
    if isinstance(v, list):
        return 1 + max([depth(x) for x in v], default=0)
    if isinstance(v, dict):
        return 1 + max([depth(x) for x in v.values()], default=0)
    return 0


# ---------------------------------------------------------------------------------------------------------------------
# The value pool
# ---------------------------------------------------------------------------------------------------------------------

def leaf_values():
    d = datetime.datetime
    nums = [0, 1, -1, 2, 3, 10, 255, -255, 2 ** 53, 2 ** 53 + 1, -(2 ** 53) - 1, 10 ** 30, -(10 ** 30), 2 ** 1024,
            0.0, -0.0, 1.0, -1.0, 2.0, 0.5, -0.5, 1.5, 0.1, 0.2, 0.30000000000000004, 0.3, 1e16, 1e300, -1e300, 5e-324, -5e-324,
            2.0 ** 53, 2.0 ** 53 + 2, float(10 ** 30), 1e-7, 123456.789, 3.0, 9007199254740993]
    strs = ['', 'a', 'A', 'ab', 'b', 'aa', 'a\x00', '\x00', ' ', 'z', '\xe9', 'e\u0301', '\uffff', '\U00010000', '\U0001f600', '\ud7ff', '\ue000',
            '10', '9', '1', 'null', 'true', 'array', 'number', 'object', 'string', 'Z', '~', 'a b', 'abc', 'abd', '"', "'", '\\', '\n']
    dts = [datetime.date(2020, 1, 1), d(2020, 1, 1), d(2020, 1, 1, 0, 0, 0, 1), d(2020, 1, 1, 0, 0, 0, 1000), d(2019, 12, 31, 23, 59, 59, 999999),
           d(2020, 1, 1, tzinfo=UTC), d(2020, 1, 1, 5, tzinfo=tz(300)), d(2019, 12, 31, 19, tzinfo=tz(-300)), d(2020, 1, 1, 5, 30, tzinfo=tz(330)),
           d(2020, 1, 1, 0, 0, 1, tzinfo=tz(1)), d(2020, 1, 1, 12, tzinfo=tz(-720)), d(2019, 12, 31, 12, tzinfo=tz(840)),
           datetime.date(1970, 1, 1), d(1970, 1, 1), d(1970, 1, 1, tzinfo=UTC), d(1969, 12, 31, 23, 59, 59, 999999), datetime.date(1969, 12, 31),
           datetime.date(1, 1, 1), d(1, 1, 1), d(9999, 12, 31, 23, 59, 59, 999999), datetime.date(9999, 12, 31), d(1900, 3, 1, tzinfo=UTC),
           datetime.date(2020, 2, 29), d(2020, 2, 29, 12), d(2020, 3, 1, tzinfo=tz(60)), d(2021, 11, 7, 5, 30, tzinfo=UTC), d(2021, 11, 7, 6, 30, tzinfo=UTC),
           d(2021, 11, 7, 1, 30), d(2021, 11, 7, 1, 30, fold=1), d(2021, 3, 14, 7, 30, tzinfo=UTC), d(2021, 3, 14, 2, 30), d(2038, 1, 19, 3, 14, 8),
           d(2020, 1, 1, 0, 0, 0, 999), d(2020, 6, 15, 12, 0, 0, 500000, tzinfo=tz(-420))]
    return [None, True, False] + nums + strs + dts + list(FUNCS) + list(REGEXES)


def fixed_containers():
    f = FUNCS
    return [
        [], [None], [[]], [[[]]], [[[[]]]], [0], [0.0], [1], [1.0], [1, 2], [1, 2.0], [2, 1], [1, [2, [3]]], [1, [2, [3.0]]], [1, [2, [4]]], [1, [2]],
        [None, None], ['a'], ['a', 'b'], ['b'], [True], [False], [True, False], [[], []], [[], [None]], [{}], [{}, []], [f[0]], [f[1]], [REGEXES[0]],
        [datetime.date(2020, 1, 1)], [datetime.datetime(2020, 1, 1, tzinfo=UTC)], [1, 'a', None, True, [], {}],
        {}, {'a': 1}, {'a': 1.0}, {'a': 2}, {'b': 1}, {'a': 1, 'b': 2}, {'b': 2, 'a': 1}, {'a': 2, 'b': 1}, {'b': 1, 'a': 2}, {'a': None}, {'': 0}, {'': None},
        {'a': {}}, {'a': []}, {'a': {'b': {'c': 1}}}, {'a': {'b': {'c': 1.0}}}, {'a': {'b': {'c': 2}}}, {'a': {'b': {}}}, {'a': [1, {'b': [2]}]},
        {'A': 1}, {'\xe9': 1}, {'z': 1}, {'\U0001f600': 1, '\uffff': 2}, {'\uffff': 2, '\U0001f600': 1}, {'aa': 1, 'a': 2}, {'a': 2, 'aa': 1},
        {'a': 1, 'b': 2, 'c': 3}, {'c': 3, 'b': 2, 'a': 1}, {'c': 3, 'a': 1, 'b': 2}, {'a': 1, 'b': 2, 'c': 4}, {'a': 1, 'c': 3}, {'a': f[0]}, {'a': f[1]},
        {'a': datetime.date(2020, 1, 1)}, {'a': datetime.datetime(2020, 1, 1)}, {'k': [1, 2]}, {'k': [1, 2.0]}, {'k': [1, 3]}, {'10': 1, '9': 2}, {'9': 2, '10': 1},
        {'x': None, 'y': None}, {'y': None, 'x': None}, {'x': None}, {'a': 1, 'b': None}, {'a': True}, {'a': 'a'},
    ]


def gen_value(rng, leaves, max_depth):
    r = rng.random()
    if max_depth == 0 or r < 0.35:
        return rng.choice(leaves)
    n = rng.choice([0, 1, 1, 2, 2, 3, 4])
    if r < 0.7:
        return [gen_value(rng, leaves, max_depth - 1) for _ in range(n)]
    keys = rng.sample(['a', 'b', 'c', '', 'aa', 'A', '\xe9', '\U0001f600', '\uffff', '10', '9', 'z'], n)
    return {k: gen_value(rng, leaves, max_depth - 1) for k in keys}


def respell(v):
    """The same value with every number in the other spelling (int <-> float) where that is exact."""
    if isinstance(v, bool) or v is None:
        return v
    if isinstance(v, int):
        return float(v) if abs(v) <= 2 ** 53 else v
    if isinstance(v, float):
        return int(v) if v == v and abs(v) != float('inf') and v.is_integer() else v
    if isinstance(v, list):
        return [respell(x) for x in v]
    if isinstance(v, dict):
        return {k: respell(x) for k, x in v.items()}
    return v


def shuffled_keys(v, rng):
    """The same value with every dict re-inserted in another order."""
    if isinstance(v, list):
        return [shuffled_keys(x, rng) for x in v]
    if isinstance(v, dict):
        items = list(v.items())
        rng.shuffle(items)
        return {k: shuffled_keys(x, rng) for k, x in items}
    return v


def build_pool(rng, size):
    leaves = leaf_values()
    pool = list(leaves) + fixed_containers()
    small = [v for v in leaves if not isinstance(v, (int, float)) or isinstance(v, bool) or abs(v) < 1000]
    seen = {digest(spec(v)) for v in pool}
    tries = 0
    while len(pool) < size and tries < 100000:
        tries += 1
        v = gen_value(rng, small if rng.random() < 0.7 else leaves, rng.choice([1, 2, 3, 3]))
        if not isinstance(v, (list, dict)):
            continue
        variants = [v]
        if rng.random() < 0.3:
            variants.append(respell(v))
        if rng.random() < 0.3:
            variants.append(shuffled_keys(v, rng))
        for w in variants:
            dg = digest(spec(w))
            if dg not in seen and len(pool) < size:
                seen.add(dg)
                pool.append(w)
    return pool


def sample_pool(rng, pool, n):
    """n pool values with every type (and every leaf category) represented."""
    if n >= len(pool):
        return list(pool)
    by_type = {}
    for v in pool:
        by_type.setdefault(tname(v), []).append(v)
    out = []
    per = max(2, n // (2 * len(by_type)))
    for t in sorted(by_type):
        out.extend(rng.sample(by_type[t], min(per, len(by_type[t]))))
    ids = {id(v) for v in out}
    rest = [v for v in pool if id(v) not in ids]
    out.extend(rng.sample(rest, max(0, n - len(out))))
    return out[:n]


# ---------------------------------------------------------------------------------------------------------------------
# The implementation, called the way scripts reach it
# ---------------------------------------------------------------------------------------------------------------------

class Impl:
    def __init__(self):
        m = fw.impl()
        self.value = m['value']
        self.runtime = m['runtime']
        self.library = m['library']
        self.parser = m['parser']
        self.globals = dict(self.library.SCRIPT_FUNCTIONS)
        self.options = {'globals': self.globals, 'maxStatements': MAXS}

    def cmp(self, a, b):
        try:
            return self.value.value_compare(a, b)
        except Exception as exc:  # pylint: disable=broad-except
            return 'EXC:' + type(exc).__name__

    def call(self, name, *args):
        """name(args...) through evaluate_expression (so through the call wrapper that turns failures into null)."""
        expr = {'function': {'name': name, 'args': [{'variable': f'x{i}'} for i in range(len(args))]}}
        try:
            return self.runtime.evaluate_expression(expr, self.options, {f'x{i}': a for i, a in enumerate(args)})
        except Exception as exc:  # pylint: disable=broad-except
            return 'EXC:' + type(exc).__name__

    def relop(self, op, a, b):
        expr = {'binary': {'op': op, 'left': {'variable': 'a'}, 'right': {'variable': 'b'}}}
        try:
            return self.runtime.evaluate_expression(expr, self.options, {'a': a, 'b': b})
        except Exception as exc:  # pylint: disable=broad-except
            return 'EXC:' + type(exc).__name__

    def script(self, text, variables):
        try:
            script = self.parser.parse_script(text)
            glob = dict(variables)
            return self.runtime.execute_script(script, {'globals': glob, 'maxStatements': MAXS})
        except Exception as exc:  # pylint: disable=broad-except
            return 'EXC:' + type(exc).__name__


RELOPS = {'==': lambda c: c == 0, '!=': lambda c: c != 0, '<=': lambda c: c <= 0, '<': lambda c: c < 0, '>=': lambda c: c >= 0, '>': lambda c: c > 0}
TYPE_ORDER = ['array', 'boolean', 'datetime', 'function', 'number', 'object', 'regex', 'string']


def sign(x):
    return -1 if x < 0 else (1 if x > 0 else 0)


def is_int(x):
    return isinstance(x, int) and not isinstance(x, bool)


# ---------------------------------------------------------------------------------------------------------------------
# Oracles written from the property statement. Each returns None (holds) or (expected, actual).
# ---------------------------------------------------------------------------------------------------------------------

def o_reflexive(im, a):
    r = im.cmp(a, a)
    return None if is_int(r) and r == 0 else (0, r)


def o_antisymmetric(im, a, b):
    x, y = im.cmp(a, b), im.cmp(b, a)
    ok = is_int(x) and is_int(y) and x in (-1, 0, 1) and y in (-1, 0, 1) and x == -y
    return None if ok else ('compare(a,b) = -compare(b,a), both in {-1,0,1}', [x, y])


def o_transitive(im, a, b, c):
    ab, bc, ac = im.cmp(a, b), im.cmp(b, c), im.cmp(a, c)
    if not (is_int(ab) and is_int(bc) and is_int(ac)):
        return ('integers', [ab, bc, ac])
    if ab <= 0 and bc <= 0:
        if ac > 0 or ((ab < 0 or bc < 0) and ac >= 0):
            return ('a<=b<=c implies a<=c (strict if one step is strict)', [ab, bc, ac])
    return None


def o_null_least(im, a):
    x, y = im.cmp(None, a), im.cmp(a, None)
    want = [0, 0] if a is None else [-1, 1]
    return None if [x, y] == want else (want, [x, y])


def o_cross_type(im, a, b):
    ta, tb = tname(a), tname(b)
    if ta == tb or a is None or b is None:
        return None
    want = -1 if TYPE_ORDER.index(ta) < TYPE_ORDER.index(tb) else 1
    r = im.cmp(a, b)
    return None if r == want else (want, r)


def o_datetime(im, a, b):
    """date / naive / aware datetimes are ordered by their normalised instant (date = its midnight, aware = local wall clock)"""
    want = sign(norm_us(a) - norm_us(b))
    r = im.cmp(a, b)
    return None if r == want else (want, r)


def o_same_type(im, a, b):
    """Two values of one type, one level of the definition unfolded: strings by code point, numbers by exact value, false < true,
    functions / regexes all equal, arrays and objects element by element (objects by key in code-point order, key before value) with the
    implementation's own answers for the elements, then by length."""
    t = tname(a)
    if t != tname(b) or t in ('null', 'datetime'):
        return None
    r = im.cmp(a, b)
    if t == 'string':
        ca, cb = [ord(c) for c in a], [ord(c) for c in b]
        want = -1 if ca < cb else (0 if ca == cb else 1)
    elif t == 'number':
        inf = float('inf')
        if a in (inf, -inf) or b in (inf, -inf):
            want = sign((a > b) - (a < b))
        else:
            want = sign(Fraction(a) - Fraction(b))
    elif t == 'boolean':
        want = sign(int(a) - int(b))
    elif t in ('function', 'regex'):
        want = 0
    else:
        if t == 'array':
            la, lb = list(a), list(b)
        else:
            ka = sorted(a, key=lambda k: [ord(c) for c in k])
            kb = sorted(b, key=lambda k: [ord(c) for c in k])
            la = [x for k in ka for x in (k, a[k])]
            lb = [x for k in kb for x in (k, b[k])]
        want = 0
        for x, y in zip(la, lb):
            c = im.cmp(x, y)
            if c != 0:
                want = c
                break
        if want == 0:
            want = sign(len(la) - len(lb))
    return None if r == want else (want, r)


def o_spelling(im, a, b):
    a2, b2 = respell(a), respell(b)
    base = im.cmp(a, b)
    got = [im.cmp(a2, b), im.cmp(a, b2), im.cmp(a2, b2), im.cmp(a, a2)]
    want = [base, base, base, 0]
    return None if got == want else (want, got)


def o_key_order(im, a, b, seed=0):
    import random  # local: deterministic from the given seed
    rng = random.Random(seed)
    a2 = shuffled_keys(a, rng)
    base = im.cmp(a, b)
    got = [im.cmp(a2, b), im.cmp(a, a2)]
    return None if got == [base, 0] else ([base, 0], got)


def o_relops(im, a, b):
    c = im.cmp(a, b)
    if not is_int(c):
        return ('integer', c)
    got = {op: im.relop(op, a, b) for op in RELOPS}
    want = {op: fn(c) for op, fn in RELOPS.items()}
    sc = im.call('systemCompare', a, b)
    if got != want or sc != c or any(type(v) is not bool for v in got.values()):
        return ({'ops': want, 'systemCompare': c}, {'ops': got, 'systemCompare': sc})
    return None


def ref_cmp(im):
    return functools.cmp_to_key(im.cmp)


def perm_of(out, inp):
    """Indices into inp such that out[k] is inp[perm[k]] (identity; equal immutable objects are taken in order) or None."""
    if not isinstance(out, list) or len(out) != len(inp):
        return None
    slots = {}
    for i, v in enumerate(inp):
        slots.setdefault(id(v), []).append(i)
    perm = []
    for v in out:
        lst = slots.get(id(v))
        if not lst:
            return None
        perm.append(lst.pop(0))
    return perm


def check_sorted_stable(perm, inp, cmpf):
    """ordered, permutation, stable - straight from the property statement"""
    if perm is None or sorted(perm) != list(range(len(inp))):
        return 'not a permutation of the input'
    for k in range(len(perm)):
        for m in range(k + 1, len(perm)):
            c = cmpf(inp[perm[k]], inp[perm[m]])
            if not is_int(c) or c > 0:
                return f'not ordered: positions {k},{m}'
            if c == 0 and perm[k] > perm[m]:
                return f'not stable: positions {k},{m}'
    return None


def o_sort(im, xs):
    arr = list(xs)
    out = im.call('arraySort', arr)
    if out is not arr:
        return ('the sorted input array', 'another object' if isinstance(out, list) else out)
    why = check_sorted_stable(perm_of(out, xs), xs, im.cmp)
    return None if why is None else ('ordered stable permutation', why)


def row_cmp(im, sorts):
    def f(r1, r2):
        for s in sorts:
            v1, v2 = r1.get(s[0]), r2.get(s[0])
            c = im.cmp(v2, v1) if (len(s) > 1 and s[1]) else im.cmp(v1, v2)
            if not is_int(c):
                return c
            if c != 0:
                return c
        return 0
    return f


def o_data_sort(im, rows, sorts):
    arr = list(rows)
    out = im.call('dataSort', arr, [list(s) for s in sorts])
    if out is not arr:
        return ('the sorted data array', 'another object' if isinstance(out, list) else out)
    why = check_sorted_stable(perm_of(out, rows), rows, row_cmp(im, sorts))
    return None if why is None else ('rows ordered by the sort keys, stable', why)


def o_minmax(im, xs):
    mx, mn = im.call('mathMax', *xs), im.call('mathMin', *xs)
    if not xs:
        return None if mx is None and mn is None else ([None, None], [spec_safe(mx), spec_safe(mn)])
    for name, res, sgn in (('mathMax', mx, 1), ('mathMin', mn, -1)):
        pos = next((i for i, v in enumerate(xs) if v is res), None)
        if pos is None:
            return (f'{name} returns one of its arguments', spec_safe(res))
        for i, v in enumerate(xs):
            c = im.cmp(v, res)
            if not is_int(c) or c * sgn > 0:
                return (f'{name} result is greatest/least', {'result_index': pos, 'beaten_by': i})
        first = next(i for i, v in enumerate(xs) if im.cmp(v, res) == 0)
        if xs[first] is not res and not _same_scalar(xs[first], res):
            return (f'{name} returns the first of equal arguments', {'result_index': pos, 'first_equal': first})
    return None


def _same_scalar(a, b):
    return type(a) is type(b) and not isinstance(a, (list, dict)) and a == b


def spec_safe(v):
    try:
        return spec(v)
    except Exception:  # pylint: disable=broad-except
        return repr(v)


def o_index_of(im, xs, needle, index):
    args = [list(xs), needle] + ([] if index is None else [index])
    got = im.call('arrayIndexOf', *args)
    start = 0 if index is None else index
    want = -1
    if start < len(xs):
        want = next((i for i in range(int(start), len(xs)) if im.cmp(xs[i], needle) == 0), -1)
    return None if got == want and is_int(got) else (want, got)


def o_last_index_of(im, xs, needle, index):
    args = [list(xs), needle] + ([] if index is None else [index])
    got = im.call('arrayLastIndexOf', *args)
    start = len(xs) - 1 if index is None else index
    want = -1
    if start < len(xs):
        want = next((i for i in range(int(start), -1, -1) if im.cmp(xs[i], needle) == 0), -1)
    return None if got == want and is_int(got) else (want, got)


ORACLES = {
    'reflexive': o_reflexive, 'antisymmetric': o_antisymmetric, 'transitive': o_transitive, 'null-least': o_null_least,
    'cross-type-by-name': o_cross_type, 'datetime-normalised-order': o_datetime, 'same-type-order': o_same_type, 'int-float-spelling': o_spelling, 'key-order': o_key_order, 'relops-sign': o_relops,
    'arraySort': o_sort, 'dataSort': o_data_sort, 'mathMinMax': o_minmax, 'arrayIndexOf': o_index_of, 'arrayLastIndexOf': o_last_index_of,
}


def run_oracle(ctx, im, name, *args):
    """Run one oracle; on failure record a witness whose input can be replayed. -> True if the property held."""
    try:
        res = ORACLES[name](im, *[a[1] if isinstance(a, tuple) and a and a[0] in ('raw', 'sorts') else a for a in args])
    except Exception as exc:  # pylint: disable=broad-except
        res = ('no exception', 'EXC:' + type(exc).__name__ + ': ' + str(exc)[:200])
    if res is None:
        return True
    ctx.witness(name, {'oracle': name, 'args': [spec_arg(a) for a in args], 'tz': os.environ.get('TZ', '')}, res[0], res[1])
    return False


def spec_arg(a):
    """top-level oracle arguments: values, lists of values, sort descriptions, indices"""
    if isinstance(a, tuple) and a and a[0] == 'raw':
        return {'raw': a[1]}
    if isinstance(a, tuple) and a and a[0] == 'sorts':
        return {'sorts': [[spec(s[0])] + list(s[1:]) for s in a[1]]}
    return {'value': spec(a)}


def unspec_arg(a):
    if 'sorts' in a:
        return [[unspec(s[0])] + list(s[1:]) for s in a['sorts']]
    return a['raw'] if 'raw' in a else unspec(a['value'])


# ---------------------------------------------------------------------------------------------------------------------
# Streams
# ---------------------------------------------------------------------------------------------------------------------

def load_corpus():
    path = os.path.join(fw.VERIF, 'harness', 'corpus', 'C11.jsonl')
    out = []
    if os.path.exists(path):
        with open(path, encoding='utf-8') as fh:
            for line in fh:
                line = line.strip()
                if line and not line.startswith('#'):
                    out.append(json.loads(line))
    return out


def matrix_stream(ctx, im, st, stream, pool, label):
    """All ordered pairs of `pool`: implementation vs model, plus the pairwise laws on the implementation."""
    n = len(pool)
    encs = [enc(v) for v in pool]
    digs = [digest(e) for e in encs]
    types = [tname(v) for v in pool]
    resp = ctx.driver.batch([{'op': 'matrix', 'pool': encs}])[0]
    model = resp.get('m')
    impl = [[im.cmp(a, b) for b in pool] for a in pool]
    for i in range(n):
        run_oracle(ctx, im, 'reflexive', pool[i])
        run_oracle(ctx, im, 'null-least', pool[i])
        for j in range(n):
            st.case([digs[i], digs[j]], nontrivial=(i != j), tags=[f'{types[i]}/{types[j]}' if types[i] <= types[j] else f'{types[j]}/{types[i]}',
                                                                  f'{label}:r={impl[i][j]}'])
            mij = model[i][j] if model else resp
            if impl[i][j] != mij:
                ctx.disagreements_checked += 1
                ctx.disagree(stream, {'a': spec(pool[i]), 'b': spec(pool[j]), 'tz': os.environ.get('TZ', '')}, impl[i][j], mij)
            else:
                ctx.disagreements_checked += 1
            x, y = impl[i][j], impl[j][i]
            if not (is_int(x) and is_int(y) and x in (-1, 0, 1) and x == -y):
                run_oracle(ctx, im, 'antisymmetric', pool[i], pool[j])
            if types[i] != types[j] and pool[i] is not None and pool[j] is not None:
                want = -1 if types[i] < types[j] else 1
                if x != want:
                    run_oracle(ctx, im, 'cross-type-by-name', pool[i], pool[j])
            if types[i] == 'datetime' and types[j] == 'datetime' and x != sign(norm_us(pool[i]) - norm_us(pool[j])):
                run_oracle(ctx, im, 'datetime-normalised-order', pool[i], pool[j])
            if types[i] == types[j]:
                run_oracle(ctx, im, 'same-type-order', pool[i], pool[j])
    return impl


def triples(ctx, im, st, pool, impl, idx):
    """Transitivity on all triples over the index set idx, from the implementation's own comparison matrix."""
    bad = 0
    cnt = 0
    for a in idx:
        ra = impl[a]
        for b in idx:
            ab = ra[b]
            if not is_int(ab) or ab > 0:
                cnt += len(idx)
                continue
            rb = impl[b]
            for c in idx:
                bc = rb[c]
                if is_int(bc) and bc <= 0:
                    ac = ra[c]
                    if not is_int(ac) or ac > 0 or ((ab < 0 or bc < 0) and ac >= 0):
                        if bad < 5:
                            run_oracle(ctx, im, 'transitive', pool[a], pool[b], pool[c])
                        bad += 1
            cnt += len(idx)
    st.evaluations += cnt
    st.hist['triples'] = st.hist.get('triples', 0) + cnt
    return bad


def streams(ctx):
    im = Impl()
    corpus = load_corpus()

    # ---- cmp: all ordered pairs of a pool, sampled/all triples --------------------------------------------------------
    st = ctx.stream('cmp', 'value_compare on all ordered pairs of a pool of values of all nine types (nesting <= 3, date / naive / aware datetimes, '
                           'int / float / bool, empty containers, key orders): implementation vs model + reflexive, antisymmetric, range, null least, '
                           'cross-type by name, same-type order (one level of the definition unfolded) and datetime normalised order on every pair; transitivity on triples; non-trivial = two different pool entries')
    rng = ctx.rng('cmp')
    pool = build_pool(rng, ctx.scale(300, 640))
    corpus_vals = []
    for c in corpus:
        if c.get('kind') == 'values':
            corpus_vals.extend(unspec(s) for s in c['values'])
    pool = corpus_vals + pool
    impl = matrix_stream(ctx, im, st, 'cmp', pool, 'pool')
    n = len(pool)
    tsub = list(range(len(corpus_vals))) + sorted(rng.sample(range(len(corpus_vals), n), ctx.scale(60, 120)))
    triples(ctx, im, st, pool, impl, tsub)
    # random triples over the whole pool
    trng = ctx.rng('triples')
    bad = 0
    nrand = ctx.scale(150000, 1500000)
    for _ in range(nrand):
        a, b, c = trng.randrange(n), trng.randrange(n), trng.randrange(n)
        ab, bc, ac = impl[a][b], impl[b][c], impl[a][c]
        if is_int(ab) and is_int(bc) and ab <= 0 and bc <= 0 and (not is_int(ac) or ac > 0 or ((ab < 0 or bc < 0) and ac >= 0)):
            if bad < 5:
                run_oracle(ctx, im, 'transitive', pool[a], pool[b], pool[c])
            bad += 1
    st.evaluations += nrand
    st.hist['triples'] = st.hist.get('triples', 0) + nrand
    st.exhaustive = False
    ctx.notes.append(f'cmp: pool {n} values ({len(corpus_vals)} from corpus), all {n * n} ordered pairs, all triples of a {len(tsub)}-value sub-pool, '
                     f'{nrand} random triples; depth histogram {hist([depth(v) for v in pool])}, types {hist([tname(v) for v in pool])}')

    # +-inf: implementation side only (not representable in the model)
    inf_pool = [float('inf'), float('-inf'), [float('inf')], {'a': float('-inf')}] + sample_pool(rng, pool, 40)
    im_inf = [[im.cmp(a, b) for b in inf_pool] for a in inf_pool]
    for i, a in enumerate(inf_pool):
        run_oracle(ctx, im, 'reflexive', a)
        for j, b in enumerate(inf_pool):
            x, y = im_inf[i][j], im_inf[j][i]
            if not (is_int(x) and is_int(y) and x in (-1, 0, 1) and x == -y):
                run_oracle(ctx, im, 'antisymmetric', a, b)
            run_oracle(ctx, im, 'cross-type-by-name', a, b)
            run_oracle(ctx, im, 'same-type-order', a, b)
    triples(ctx, im, st, inf_pool, im_inf, list(range(len(inf_pool))))

    # other time zones: the datetime part of the pool again with TZ switched (normalisation depends on the local zone)
    dts = [v for v in pool if depth(v) <= 1 and contains_dt(v)]
    old_tz = os.environ.get('TZ')
    for zone in ctx.scale(['America/New_York'], ['America/New_York', 'Asia/Kolkata', 'Pacific/Apia']):
        if not os.path.exists(os.path.join('/usr/share/zoneinfo', zone)):
            ctx.notes.append(f'zone {zone} not installed: skipped')
            continue
        try:
            os.environ['TZ'] = zone
            time.tzset()
            sub = dts[:ctx.scale(60, 140)]
            impl_z = matrix_stream(ctx, im, st, 'cmp', sub, zone)
            triples(ctx, im, st, sub, impl_z, list(range(len(sub))))
        finally:
            if old_tz is None:
                os.environ.pop('TZ', None)
            else:
                os.environ['TZ'] = old_tz
            time.tzset()

    # ---- spelling / key order (metamorphic, implementation) + model on single pairs ----------------------------------
    st2 = ctx.stream('relops', 'pairs through evaluate_expression: the six relational operators and systemCompare against the sign of value_compare '
                               '(oracle) and against the model; int/float re-spelling and dict key re-ordering leave every comparison unchanged; '
                               'non-trivial = two different values')
    prng = ctx.rng('relops')
    npairs = ctx.scale(4000, 24000)
    pairs = [(prng.randrange(n), prng.randrange(n)) for _ in range(npairs)]
    # bias towards pairs that compare equal or are close (same type)
    by_type = {}
    for i, v in enumerate(pool):
        by_type.setdefault(tname(v), []).append(i)
    for _ in range(npairs // 2):
        t = prng.choice(sorted(by_type))
        pairs.append((prng.choice(by_type[t]), prng.choice(by_type[t])))
    reqs = [{'op': 'cmp', 'a': enc(pool[i]), 'b': enc(pool[j])} for i, j in pairs]
    resps = ctx.driver.batch(reqs)
    for (i, j), resp in zip(pairs, resps):
        a, b = pool[i], pool[j]
        st2.case([digest(enc(a)), digest(enc(b))], nontrivial=(i != j), tags=[f'r={impl[i][j]}'])
        got = {op: im.relop(op, a, b) for op in RELOPS}
        got['r'] = im.call('systemCompare', a, b)
        ctx.compare('relops', {'a': spec(a), 'b': spec(b)}, got, {k: resp.get(k, resp) for k in list(RELOPS) + ['r']})
        run_oracle(ctx, im, 'relops-sign', a, b)
        run_oracle(ctx, im, 'int-float-spelling', a, b)
        run_oracle(ctx, im, 'key-order', a, b, ('raw', i * 7919 + j))
    # whole scripts (parse + execute) for literal-expressible values
    lit_pairs = [(a, b) for a, b in ((pool[i], pool[j]) for i, j in pairs) if literal(a) is not None and literal(b) is not None][:ctx.scale(300, 3000)]
    for a, b in lit_pairs:
        c = im.cmp(a, b)
        text = f'r = arrayNew(systemCompare({literal(a)}, {literal(b)}), ' + ', '.join(f'{literal(a)} {op} {literal(b)}' for op in RELOPS) + ')\nreturn r'
        got = im.script(text, {})
        want = [c] + [fn(c) for fn in RELOPS.values()] if is_int(c) else None
        st2.case(text, nontrivial=True, tags=['script'])
        if got != want:
            ctx.witness('script-relops', {'oracle': 'script-relops', 'text': text}, want, got if not isinstance(got, list) else got)

    # ---- sort ---------------------------------------------------------------------------------------------------------
    st3 = ctx.stream('sort', 'arraySort(array) on arrays of pool values with many equal-comparing but distinguishable elements (1 vs 1.0, two '
                             'functions, dicts in different key order, equal lists): implementation vs model permutation + ordered / permutation / '
                             'stable oracle; dataSort multi-key asc/desc with missing fields; non-trivial = length >= 2')
    srng = ctx.rng('sort')
    sort_cases = []
    for c in corpus:
        if c.get('kind') == 'sort':
            sort_cases.append([unspec(s) for s in c['values']])
    classes = equal_classes(pool, impl)
    for _ in range(ctx.scale(1500, 20000)):
        k = srng.choice([0, 1, 2, 3, 5, 8, 12, 20, 40, 70]) if srng.random() < 0.9 else srng.randrange(100, 200)
        mode = srng.random()
        if mode < 0.4:
            src = srng.choice(classes) + srng.choice(classes) + srng.choice(classes)   # few classes, many ties
        elif mode < 0.7:
            src = [pool[i] for i in by_type[srng.choice(sorted(by_type))]]
        else:
            src = pool
        xs = [clone(srng.choice(src)) for _ in range(k)]
        sort_cases.append(xs)
    # host-type pitfalls: arrays drawn from only two neighbouring Python classes (bool is an int; int vs float; str only;
    # date vs datetime) - a "fast path" keyed on isinstance would order these by Python's rules instead of value_compare
    pit_sources = [[True, False, 0, 1, 2, 0.5, 1.0, -1], [True, False, 0.0, 2.0, 0.5], [True, False], ['b', 'a', '', 'B', 'aa'],
                   [0, 1, 2, -1, 10**15], [datetime.date(2020, 1, 2), datetime.datetime(2020, 1, 1, 5), datetime.date(2019, 12, 31)],
                   [None, True, 0], [None, False, 0.0, '']]
    for _ in range(ctx.scale(300, 4000)):
        src = srng.choice(pit_sources)
        sort_cases.append([srng.choice(src) for _ in range(srng.choice([2, 3, 4, 6, 9]))])
    resps = ctx.driver.batch([{'op': 'sort', 'xs': [enc(v) for v in xs]} for xs in sort_cases])
    for xs, resp in zip(sort_cases, resps):
        st3.case([digest(enc(v)) for v in xs], nontrivial=len(xs) >= 2, tags=[f'len{bucket(len(xs))}'])
        arr = list(xs)
        out = im.call('arraySort', arr)
        ctx.compare('sort', {'values': [spec(v) for v in xs]}, perm_of(out, xs), resp.get('perm', resp))
        run_oracle(ctx, im, 'arraySort', xs)
    # dataSort
    fields = ['a', 'b', 'c']
    small_vals = [None, 0, 1, 1.0, 2, -1, 0.5, 'a', 'b', '', True, False, datetime.date(2020, 1, 1), datetime.datetime(2020, 1, 1), [1], [1.0], {'k': 1}]
    ds_cases = []
    for _ in range(ctx.scale(800, 10000)):
        rows = []
        for _r in range(srng.choice([0, 1, 2, 4, 7, 12, 25])):
            row = {}
            for f in srng.sample(fields + ['id'], 4):
                if f == 'id' or srng.random() < 0.85:
                    row[f] = srng.choice(small_vals[:8]) if srng.random() < 0.7 else srng.choice(small_vals)
            rows.append(row)
        sorts = [[srng.choice(fields + ['zz'])] + ([srng.random() < 0.5] if srng.random() < 0.8 else []) for _s in range(srng.choice([0, 1, 1, 2, 2, 3]))]
        ds_cases.append((rows, sorts))
    resps = ctx.driver.batch([{'op': 'dataSort', 'rows': [enc(r) for r in rows], 'sorts': sorts} for rows, sorts in ds_cases])
    for (rows, sorts), resp in zip(ds_cases, resps):
        st3.case([[digest(enc(r)) for r in rows], sorts], nontrivial=len(rows) >= 2 and len(sorts) >= 1, tags=[f'dataSort:keys{len(sorts)}'])
        arr = list(rows)
        out = im.call('dataSort', arr, [list(s) for s in sorts])
        ctx.compare('sort', {'rows': [spec(r) for r in rows], 'sorts': sorts}, perm_of(out, rows), resp.get('perm', resp))
        run_oracle(ctx, im, 'dataSort', rows, ('raw', sorts))

    # ---- min/max, indexOf ----------------------------------------------------------------------------------------------
    st4 = ctx.stream('minmax', 'mathMax / mathMin over 0..8 pool values (any types, null included, ties): implementation vs model + '
                               '"an argument, greatest/least, first among equals"; arrayIndexOf / arrayLastIndexOf with value needles and start '
                               'indices incl. out of range; non-trivial = at least two arguments / a non-empty array')
    mrng = ctx.rng('minmax')
    mm_cases = [[]]
    for _ in range(ctx.scale(2500, 30000)):
        k = mrng.choice([1, 2, 2, 3, 3, 4, 5, 8])
        mode = mrng.random()
        src = pool if mode < 0.4 else ([pool[i] for i in by_type[mrng.choice(sorted(by_type))]] if mode < 0.7 else mrng.choice(classes) + mrng.choice(classes))
        mm_cases.append([clone(mrng.choice(src)) for _ in range(k)])
    resps = ctx.driver.batch([{'op': 'minmax', 'xs': [enc(v) for v in xs]} for xs in mm_cases])
    for xs, resp in zip(mm_cases, resps):
        st4.case([digest(enc(v)) for v in xs], nontrivial=len(xs) >= 2, tags=[f'minmax:n{len(xs)}'])
        got = {'max': enc_safe(im.call('mathMax', *xs)), 'min': enc_safe(im.call('mathMin', *xs))}
        ctx.compare('minmax', {'values': [spec(v) for v in xs]}, got, {'max': resp.get('max', resp), 'min': resp.get('min', resp)})
        run_oracle(ctx, im, 'mathMinMax', xs)
    io_cases = []
    nonfn = [v for v in pool if not callable(v)]
    for _ in range(ctx.scale(2500, 30000)):
        k = mrng.choice([0, 1, 2, 3, 5, 8, 12])
        src = mrng.choice(classes) + mrng.choice(classes) + [mrng.choice(pool)] if mrng.random() < 0.7 else pool
        xs = [clone(mrng.choice(src)) for _ in range(k)]
        needle = mrng.choice([v for v in src if not callable(v)] or nonfn) if mrng.random() < 0.8 else mrng.choice(nonfn)
        index = None if mrng.random() < 0.4 else mrng.choice([0, 0, 1, 2, k - 1 if k else 0, k, k + 1, 1.0, 2.0])
        io_cases.append((xs, needle, index))
    reqs = []
    for xs, needle, index in io_cases:
        base = {'xs': [enc(v) for v in xs], 'v': enc(needle)}
        r1 = dict(base, op='indexOf')
        r2 = dict(base, op='lastIndexOf')
        if index is not None:
            r1['index'] = int(index)
            r2['index'] = int(index)
        reqs.extend([r1, r2])
    resps = ctx.driver.batch(reqs)
    for k, (xs, needle, index) in enumerate(io_cases):
        st4.case([[digest(enc(v)) for v in xs], digest(enc(needle)), index], nontrivial=len(xs) >= 1, tags=['indexOf:' + ('default' if index is None else 'index')])
        args = [needle] + ([] if index is None else [index])
        got = [im.call('arrayIndexOf', list(xs), *args), im.call('arrayLastIndexOf', list(xs), *args)]
        ctx.compare('minmax', {'values': [spec(v) for v in xs], 'needle': spec(needle), 'index': index}, got,
                    [resps[2 * k].get('r', resps[2 * k]), resps[2 * k + 1].get('r', resps[2 * k + 1])])
        run_oracle(ctx, im, 'arrayIndexOf', xs, needle, ('raw', index))
        run_oracle(ctx, im, 'arrayLastIndexOf', xs, needle, ('raw', index))

    # ---- SCALE axis: every consumer that takes a collection, at collection sizes 0 .. 1000 ---------------------------------------------
    ts = ctx.elapsed()
    scale_stream(ctx, im, pool, classes, by_type)
    ctx.notes.append(f'wall: scale stream {ctx.elapsed() - ts:.1f}s')

    # ---- tie keys, host-boundary values, histories (all after the stateless streams: a history never perturbs them) -------------------
    t0 = ctx.elapsed()
    tie_stream(ctx, im, pool, impl)
    t1 = ctx.elapsed()
    host_stream(ctx, im, pool)
    t2 = ctx.elapsed()
    history_stream(ctx, im)
    ctx.notes.append(f'wall: stateless streams up to {t0:.0f}s, tiekeys {t1 - t0:.1f}s, host {t2 - t1:.1f}s, history {ctx.elapsed() - t2:.1f}s')


def contains_dt(v):
    if isinstance(v, datetime.date):
        return True
    if isinstance(v, list):
        return any(contains_dt(x) for x in v)
    if isinstance(v, dict):
        return any(contains_dt(x) for x in v.values())
    return False


def hist(xs):
    h = {}
    for x in xs:
        h[x] = h.get(x, 0) + 1
    return dict(sorted(h.items(), key=lambda kv: str(kv[0])))


def bucket(n):
    return n if n <= 3 else ('4-8' if n <= 8 else ('9-20' if n <= 20 else '21+'))


def clone(v):
    """A distinct object for containers (so that sort stability is observable by identity)."""
    if type(v) is list:  # pylint: disable=unidiomatic-typecheck
        return [clone(x) for x in v]
    if type(v) is dict:  # pylint: disable=unidiomatic-typecheck
        return {k: clone(x) for k, x in v.items()}
    if isinstance(v, list):
        c = copy.copy(v)
        c[:] = [clone(x) for x in v]
        return c
    if isinstance(v, dict):
        c = copy.copy(v)
        for k, x in v.items():
            c[k] = clone(x)
        return c
    return v


def enc_safe(v):
    try:
        return enc(v)
    except Exception:  # pylint: disable=broad-except
        return {'unencodable': repr(v)[:100]}


def equal_classes(pool, impl):
    """Groups of pool values the implementation compares equal (size >= 2 first), used to build tie-rich inputs."""
    n = len(pool)
    seen = set()
    out = []
    for i in range(n):
        if i in seen:
            continue
        grp = [j for j in range(i, n) if impl[i][j] == 0 and impl[j][i] == 0]
        seen.update(grp)
        if len(grp) >= 2:
            out.append([pool[j] for j in grp])
    singles = [[v] for v in pool[:40]]
    return out + singles


def literal(v):
    """BareScript source text of a value, or None when it has no literal form used here."""
    if v is None:
        return 'null'
    if isinstance(v, bool):
        return 'true' if v else 'false'
    if isinstance(v, int):
        return str(v) if 0 <= v < 10 ** 15 else (f'(0 - {-v})' if -10 ** 15 < v < 0 else None)
    if isinstance(v, float):
        if v in (0.5, 1.5, 0.1, 0.2, 0.3, 1.0, 2.0, 3.0, 123456.789):
            return repr(v)
        return None
    if isinstance(v, str):
        return "'" + v + "'" if re.fullmatch(r'[A-Za-z0-9 ~]*', v) else None
    if isinstance(v, list):
        parts = [literal(x) for x in v]
        return None if any(p is None for p in parts) else 'arrayNew(' + ', '.join(parts) + ')'
    if isinstance(v, dict):
        parts = []
        for k, x in v.items():
            kk, xx = literal(k), literal(x)
            if kk is None or xx is None:
                return None
            parts.extend([kk, xx])
        return 'objectNew(' + ', '.join(parts) + ')'
    return None


# ---------------------------------------------------------------------------------------------------------------------
# The reference comparison: the property statement as a program (independent of value_compare and of the Lean model)
# ---------------------------------------------------------------------------------------------------------------------

def ref_compare(a, b):
    """null first; different types by type name; strings by code point, numbers by exact value, false < true, datetimes by normalised
    instant, functions / regexes all equal; arrays element-wise then by length; objects as their (key, value) sequence in key order."""
    ta, tb = tname(a), tname(b)
    if ta == 'null' or tb == 'null':
        return 0 if ta == tb else (-1 if ta == 'null' else 1)
    if ta != tb:
        return -1 if ta < tb else 1
    if ta == 'string':
        ca, cb = [ord(c) for c in a], [ord(c) for c in b]
        return -1 if ca < cb else (0 if ca == cb else 1)
    if ta == 'number':
        inf = float('inf')
        if a in (inf, -inf) or b in (inf, -inf):
            return sign((a > b) - (a < b))
        if type(a) is int and type(b) is int:  # pylint: disable=unidiomatic-typecheck
            return (a > b) - (a < b)
        return sign(Fraction(a) - Fraction(b))
    if ta == 'boolean':
        return sign(int(a) - int(b))
    if ta == 'datetime':
        return sign(norm_us(a) - norm_us(b))
    if ta in ('function', 'regex'):
        return 0
    if ta == 'array':
        la, lb = list(a), list(b)
    else:
        ka = sorted(a, key=lambda k: [ord(c) for c in k])
        kb = sorted(b, key=lambda k: [ord(c) for c in k])
        la = [x for k in ka for x in (str.__str__(k), a[k])]
        lb = [x for k in kb for x in (str.__str__(k), b[k])]
    for x, y in zip(la, lb):
        c = ref_compare(x, y)
        if c != 0:
            return c
    return sign(len(la) - len(lb))


class RefImpl:
    """Stands in for Impl where an oracle only needs `cmp` (so the consumer oracles can be run against the reference)."""
    cmp = staticmethod(ref_compare)


# ---------------------------------------------------------------------------------------------------------------------
# SCALE: the consumers that take a COLLECTION (arraySort with / without a compare function, dataSort with 1..3 sort fields,
# mathMin / mathMax with many arguments, arrayIndexOf / arrayLastIndexOf in long arrays) at collection sizes 0 .. 1000 (thorough: .. 4097).
# The statement has no size bound; a consumer that switches strategy at a size threshold (runs / chunks / blocks / a key-based
# fast path) is only exercised by inputs beyond that threshold, whatever the threshold is.
# ---------------------------------------------------------------------------------------------------------------------

SCALE_SIZES = [0, 1, 2, 9, 10, 11, 16, 17, 64, 65, 100, 101, 127, 128, 129, 256, 300, 1000]
SCALE_SIZES_THOROUGH = sorted(SCALE_SIZES + [3, 4, 5, 7, 8, 31, 32, 33, 63, 99, 255, 257, 500, 511, 512, 513, 999, 1001, 1023, 1024, 1025, 2000, 4097])

SCALE_PRELUDE = '''
function c11sfwd(a, b):
    return systemCompare(a, b)
endfunction

function c11srev(a, b):
    return systemCompare(b, a)
endfunction

function c11sfirst(a, b):
    return systemCompare(arrayGet(a, 0), arrayGet(b, 0))
endfunction

function c11sfirstrev(a, b):
    return systemCompare(arrayGet(b, 0), arrayGet(a, 0))
endfunction
'''

# compare functions of the scale stream: name -> (direction, compares element 0 of array rows only, defined in a script)
SCALE_FNS = {'fwd': (1, False, False), 'rev': (-1, False, False), 'first': (1, True, False), 'firstrev': (-1, True, False),
             'sfwd': (1, False, True), 'srev': (-1, False, True), 'sfirst': (1, True, True), 'sfirstrev': (-1, True, True)}


def scale_order(fn, cmpf):
    """the order a compare function of SCALE_FNS asks for, over the comparison cmpf"""
    sgn, first, _ = SCALE_FNS[fn]
    if first:
        return lambda x, y: _neg(sgn, cmpf(x[0], y[0]))
    return lambda x, y: _neg(sgn, cmpf(x, y))


def _neg(sgn, c):
    return sgn * c if is_int(c) else c


def scale_sort_call(im, arr, fn):
    """arraySort(arr) / arraySort(arr, fn) the way a script reaches it"""
    if fn is None:
        return im.call('arraySort', arr)
    sgn, first, script = SCALE_FNS[fn]
    if not script:
        if first:
            return im.call('arraySort', arr, lambda args, options: sgn * im.value.value_compare(args[0][0], args[1][0]))
        return im.call('arraySort', arr, HCmp(im, sgn))
    cache = im.__dict__.setdefault('scale_scripts', {})
    try:
        if fn not in cache:
            cache[fn] = im.parser.parse_script(SCALE_PRELUDE + f'\nreturn arraySort(xs, c11{fn})\n')
        return im.runtime.execute_script(cache[fn], {'globals': {'xs': arr}, 'maxStatements': 5000000})
    except Exception as exc:  # pylint: disable=broad-except
        return 'EXC:' + type(exc).__name__


def check_sorted_stable_scale(perm, inp, cmpf, strides=True):
    """ordered, permutation, stable on a long result: all pairs up to 17 elements; beyond that every pair of positions that is a power
    of two apart (adjacent pairs suffice when cmpf is transitive - the other strides do not rely on that); strides=False: adjacent only"""
    n = len(inp)
    if perm is None or sorted(perm) != list(range(n)):
        return 'not a permutation of the input'
    if n <= 17:
        return check_sorted_stable(perm, inp, cmpf)
    stride = 1
    while stride < n:
        for k in range(n - stride):
            m = k + stride
            c = cmpf(inp[perm[k]], inp[perm[m]])
            if not is_int(c) or c > 0:
                return f'not ordered: positions {k},{m}'
            if c == 0 and perm[k] > perm[m]:
                return f'not stable: positions {k},{m}'
        if not strides:
            break
        stride *= 2
    return None


def o_sort_scale(im, xs, fn=None):
    """arraySort of a long array, without / with a (well-behaved) compare function: the same array object, an ordered stable permutation
    under value_compare AND under the reference comparison (in the order the compare function asks for)"""
    arr = list(xs)
    out = scale_sort_call(im, arr, fn)
    if out is not arr:
        return ('the sorted input array', 'another object' if isinstance(out, list) else spec_safe(out))
    perm = perm_of(out, xs)
    why = check_sorted_stable_scale(perm, xs, scale_order(fn or 'fwd', im.cmp))
    if why is None:
        why = check_sorted_stable_scale(perm, xs, scale_order(fn or 'fwd', ref_compare), strides=False)
        why = why and why + ' (reference comparison)'
    return None if why is None else (f'ordered stable permutation ({len(xs)} elements, compare function {fn})', why)


def o_data_sort_scale(im, rows, sorts):
    """dataSort of many rows: the same array object, ordered by the sort fields in their directions, a permutation, stable - under
    value_compare AND under the reference comparison"""
    arr = list(rows)
    out = im.call('dataSort', arr, [list(s) for s in sorts])
    if out is not arr:
        return ('the sorted data array', 'another object' if isinstance(out, list) else spec_safe(out))
    perm = perm_of(out, rows)
    why = check_sorted_stable_scale(perm, rows, row_cmp(im, sorts))
    if why is None:
        why = check_sorted_stable_scale(perm, rows, row_cmp(RefImpl, sorts), strides=False)
        why = why and why + ' (reference comparison)'
    return None if why is None else (f'{len(rows)} rows ordered by the sort keys {sorts}, stable', why)


def o_minmax_ref(im, xs):
    """mathMax / mathMin of many arguments against the reference comparison: an argument, greatest / least, the first among equals"""
    mx, mn = im.call('mathMax', *xs), im.call('mathMin', *xs)
    if not xs:
        return None if mx is None and mn is None else ([None, None], [spec_safe(mx), spec_safe(mn)])
    for name, res, sgn in (('mathMax', mx, 1), ('mathMin', mn, -1)):
        best = 0
        for i in range(1, len(xs)):
            if ref_compare(xs[i], xs[best]) * sgn > 0:
                best = i
        if xs[best] is not res and not _same_scalar(xs[best], res):
            return (f'{name} of {len(xs)} arguments returns the first {"greatest" if sgn > 0 else "least"} one: argument {best}',
                    {'result': spec_safe(res), 'result_index': next((i for i, v in enumerate(xs) if v is res), None)})
    return None


def o_index_of_ref(im, xs, needle, index):
    """arrayIndexOf / arrayLastIndexOf in a long array against the reference comparison: the first / last equal position from the start index"""
    args = [needle] + ([] if index is None else [index])
    got = [im.call('arrayIndexOf', list(xs), *args), im.call('arrayLastIndexOf', list(xs), *args)]
    eq = [i for i, v in enumerate(xs) if ref_compare(v, needle) == 0]
    n = len(xs)
    if index is None:
        want = [eq[0] if eq else -1, eq[-1] if eq else -1]
    elif index >= n:
        want = [-1, -1]
    else:
        want = [next((i for i in eq if i >= index), -1), next((i for i in reversed(eq) if i <= index), -1)]
    return None if got == want and all(is_int(g) for g in got) else (want, got)


SCALE_LEADS = [[1, 1.0], [2, 2.0], [0, 0.0, -0.0], [None], ['a'], ['b'], [''], [True], [False], [[1], [1.0]], [{'k': 1}, {'k': 1.0}],
               [datetime.date(2020, 1, 1), datetime.datetime(2020, 1, 1)], [-1, -1.0], ['aa'], [[]], [{}], [0.5]]
SCALE_PITFALLS = [[True, False, 0, 1, 2, 0.5, 1.0, -1], [True, False, 0.0, 2.0, 0.5], [True, False], ['b', 'a', '', 'B', 'aa'],
                  [0, 1, 2, -1, 10 ** 15], [datetime.date(2020, 1, 2), datetime.datetime(2020, 1, 1, 5), datetime.date(2019, 12, 31)],
                  [None, True, 0], [None, False, 0.0, ''], [1, True, 1.0, '1', [1]]]
SCALE_FAMILIES = ['ties', 'mixed', 'onetype', 'numbers', 'strings', 'pitfall', 'rows']
SCALE_ARRANGEMENTS = ['random', 'random', 'random', 'asc', 'desc', 'asc-tail', 'runs', 'allsame']


def scale_values(rng, fam, n, pool, classes, by_type):
    """n values of one family (the arrangement is applied afterwards)"""
    if fam == 'rows':
        d1, d2 = rng.choice([1, 2, 3, 8]), rng.choice([1, 2, 5, max(1, n)])
        leads = rng.sample(SCALE_LEADS, d1)
        return [[clone(rng.choice(rng.choice(leads))), rng.randrange(d2), i] for i in range(n)]
    if fam == 'numbers':
        m = rng.choice([1, 2, 5, max(1, n), 4 * n + 1])
        out = []
        for _ in range(n):
            x = rng.randrange(-m, m + 1)
            r = rng.random()
            out.append(x if r < 0.5 else (float(x) if r < 0.8 else x + 0.5))
        return out
    if fam == 'strings':
        m = rng.choice([1, 2, 3])
        return [''.join(rng.choice('ab\x00\xe9\uffff\U00010000') for _ in range(rng.randrange(m + 1))) for _ in range(n)]
    if fam == 'ties':
        src = rng.choice(classes) + rng.choice(classes) + rng.choice(classes)
    elif fam == 'onetype':
        src = [pool[i] for i in by_type[rng.choice(sorted(by_type))]]
    elif fam == 'pitfall':
        src = rng.choice(SCALE_PITFALLS)
    else:
        src = pool
    return [clone(rng.choice(src)) for _ in range(n)]


def scale_arrange(rng, xs, how, cmpf):
    """the values in a given arrangement w.r.t. the order cmpf: as generated, ascending, descending, ascending with a disturbed tail,
    ascending runs one after the other, one value n times (distinct instances for containers)"""
    n = len(xs)
    if how == 'random' or n < 2:
        return xs
    if how == 'allsame':
        return [clone(xs[0]) for _ in range(n)]
    key = functools.cmp_to_key(cmpf)
    if how == 'asc':
        return sorted(xs, key=key)
    if how == 'desc':
        return sorted(xs, key=key, reverse=True)
    if how == 'asc-tail':
        out = sorted(xs, key=key)
        k = min(n - 1, rng.choice([1, 2, 3, max(1, n // 10)]))
        tail = out[n - k - 1:]
        rng.shuffle(tail)
        return out[:n - k - 1] + tail[::-1]
    run = rng.choice([2, 8, 32, 64, 100])
    out = []
    for i in range(0, n, run):
        out.extend(sorted(xs[i:i + run], key=key))
    return out


def scale_rows(rng, n):
    """n data rows with MANY duplicates in the leading sort fields: field a holds members of 1 / 2 / 3 / 8 classes of equal-comparing
    values (in different spellings: 1 / 1.0, date / datetime, equal containers), field b one of 1 / 2 / 5 / n numbers, c any of n, id = row number"""
    d1, d2 = rng.choice([1, 2, 3, 8]), rng.choice([1, 2, 5, max(1, n)])
    leads = rng.sample(SCALE_LEADS, d1)
    pmiss = rng.choice([0, 0, 0.05, 0.3])
    rows = []
    for i in range(n):
        row = {}
        if rng.random() >= pmiss:
            row['a'] = clone(rng.choice(rng.choice(leads)))
        if rng.random() >= pmiss:
            x = rng.randrange(d2)
            row['b'] = x if rng.random() < 0.7 else float(x)
        row['c'] = rng.randrange(max(1, n))
        row['id'] = i
        rows.append(row)
    return rows


def scale_sorts(rng, nf):
    fields = ['a', 'b', 'c'][:nf]
    r = rng.random()
    if r < 0.15:
        rng.shuffle(fields)
    elif r < 0.25:
        fields[rng.randrange(nf)] = 'zz'      # a field no row has: all rows tie on it
    return [[f] + ([rng.random() < 0.5] if rng.random() < 0.85 else []) for f in fields]


def _unwrap(a):
    return a[1] if isinstance(a, tuple) and a and a[0] in ('raw', 'sorts') else a


def scale_fails(im, name, raw):
    """None (the property holds on this input) or (expected, actual)"""
    try:
        return ORACLES[name](im, *raw)
    except Exception as exc:  # pylint: disable=broad-except
        return ('no exception', 'EXC:' + type(exc).__name__ + ': ' + str(exc)[:200])


SCALE_PLAIN_LIMIT = 12000       # the framework keeps a witness of up to 20000 characters replayable


def scale_witness(ctx, im, name, args, res):
    """A failing input of a collection oracle -> a replayable witness: the collection (first argument) is reduced by removing chunks
    while the oracle still fails (bounded effort; an input at a size threshold cannot shrink); a witness that is still long is stored packed
    (zlib + base64 of the same JSON `args`) because the framework truncates long witnesses."""
    raw = [_unwrap(a) for a in args]
    xs = list(raw[0])
    budget = 80
    chunk = len(xs) // 2
    while chunk >= 1 and budget > 0:
        i = 0
        while i < len(xs) and budget > 0:
            cand = xs[:i] + xs[i + chunk:]
            budget -= 1
            r = scale_fails(im, name, [cand] + raw[1:])
            if r is not None:
                xs, res = cand, r
            else:
                i += chunk
        chunk //= 2
    spec_args = [spec_arg(xs)] + [spec_arg(a) for a in args[1:]]
    inp = {'oracle': name, 'args': spec_args, 'tz': os.environ.get('TZ', ''), 'collection_size': len(xs)}
    text = json.dumps(spec_args, ensure_ascii=True, separators=(',', ':'))
    if len(text) > SCALE_PLAIN_LIMIT:
        del inp['args']
        inp['packed_args'] = base64.b64encode(zlib.compress(text.encode('ascii'), 9)).decode('ascii')
        inp['note'] = 'packed_args = base64(zlib(JSON)) of the argument list in the format of "args" (the collection is too long to be kept as text)'
    ctx.witness(name, inp, res[0], res[1])


def scale_stream(ctx, im, pool, classes, by_type):
    sizes = ctx.scale(SCALE_SIZES, SCALE_SIZES_THOROUGH)
    st = ctx.stream('scale', 'SCALE axis - every consumer of the comparison that takes a collection, at collection sizes '
                             f'{sizes}: arraySort without a compare function (families: few classes of equal-comparing but distinguishable '
                             'values, all types mixed, one type, numbers int / float with few or many duplicates, strings, bool / int / float '
                             'look-alikes, array rows [k1, k2, i]; arrangements: as generated, ascending, descending, ascending with a disturbed '
                             'tail, ascending runs, one value n times) and with a compare function (host callable and script function; forward, '
                             'reverse, by element 0 of array rows so that most rows tie); dataSort with 1, 2, 3 sort fields in mixed directions over rows '
                             'with many duplicates in the leading fields (1 / 2 / 3 / 8 distinct first-field values in different spellings, missing '
                             'fields, a sort field no row has; as generated, pre-sorted on the first field, fully sorted, reversed); mathMin / mathMax '
                             'with that many arguments (the extreme first / last / in the middle / several times); arrayIndexOf / arrayLastIndexOf in '
                             'arrays that long (needle absent / first / last / middle / repeated / in another spelling; start index none, 0, at, after, '
                             'last, length). Implementation vs model (permutation, min / max, index; compare-function sorts are host-only: the '
                             'model has no function calls) + the oracles of the statement under value_compare AND under the reference '
                             'comparison: same array object, ordered (all pairs up to 17 elements, beyond that all pairs of positions a power '
                             'of two apart), permutation, stable; an argument that is least / greatest and the first such; the first / last '
                             'equal position. non-trivial = at least two elements / rows / arguments')
    rng = ctx.rng('scale')
    reps = ctx.scale(2, 4)
    cases = []       # (kind, payload, model request or None)
    for n in sizes:
        for _rep in range(reps if n <= 300 else max(1, reps // 3)):
            # arraySort without a compare function: every family once
            for fam in SCALE_FAMILIES:
                xs = scale_arrange(rng, scale_values(rng, fam, n, pool, classes, by_type), rng.choice(SCALE_ARRANGEMENTS), ref_compare)
                cases.append(('arraySort', (xs, None, fam)))
            if _rep == 0:
                # every look-alike source at every size: arrays that are homogeneous for Python (all int / float / bool instances, all str, all date
                # instances) are what a size-triggered native-sort fast path would be keyed on
                for src in SCALE_PITFALLS:
                    xs = scale_arrange(rng, [rng.choice(src) for _ in range(n)], rng.choice(SCALE_ARRANGEMENTS), ref_compare)
                    cases.append(('arraySort', (xs, None, 'pitfall')))
            # arraySort with a compare function
            for fn in sorted(SCALE_FNS):
                first = SCALE_FNS[fn][1]
                fam = 'rows' if first else rng.choice(SCALE_FAMILIES)
                xs = scale_values(rng, fam, n, pool, classes, by_type)
                xs = scale_arrange(rng, xs, rng.choice(SCALE_ARRANGEMENTS), scale_order(fn, ref_compare))
                cases.append(('arraySort-fn', (xs, fn, fam)))
            # dataSort: 1, 2, 3 sort fields x two duplicate profiles
            for nf in (1, 2, 3, rng.choice([2, 3])):
                rows = scale_rows(rng, n)
                sorts = scale_sorts(rng, nf)
                how = rng.choice(['random', 'random', 'lead', 'asc', 'desc'])
                if how == 'lead':
                    rows = scale_arrange(rng, rows, 'asc', row_cmp(RefImpl, sorts[:1]))
                elif how != 'random':
                    rows = scale_arrange(rng, rows, how, row_cmp(RefImpl, sorts))
                cases.append(('dataSort', (rows, sorts, how)))
            # mathMin / mathMax with n arguments
            for fam in ('ties', 'mixed', 'numbers', 'rows', 'pitfall'):
                base = scale_values(rng, fam, n, pool, classes, by_type)
                srt = sorted(base, key=functools.cmp_to_key(ref_compare))
                for how in ('asis', 'first', 'last', 'middle', 'twice'):
                    xs = list(base)
                    if n >= 2 and how != 'asis':
                        for ext in (srt[0], srt[-1]):       # a least and a greatest argument: moved to the given place / given a second, distinguishable copy
                            at = next((i for i, v in enumerate(xs) if v is ext), None)
                            if at is None:
                                continue
                            if how == 'twice':
                                xs[(at + 1 + rng.randrange(n - 1)) % n] = clone(respell(ext)) if rng.random() < 0.5 else clone(ext)
                            else:
                                xs.insert({'first': 0, 'last': n - 1, 'middle': n // 2}[how], xs.pop(at))
                    elif how != 'asis':
                        continue
                    cases.append(('minmax', (xs, fam, how)))
            # arrayIndexOf / arrayLastIndexOf in an array of n elements
            for fam in ('rows', 'numbers', rng.choice(['ties', 'mixed', 'pitfall', 'strings'])):
                xs = scale_values(rng, fam, n, pool, classes, by_type)
                cands = [i for i, v in enumerate(xs) if not callable(v)]
                for where in ('absent', 'first', 'last', 'middle', 'any'):     # where the needle is taken from x two start indices
                    if where == 'absent' or not cands:
                        needle = rng.choice(['c11-absent', -12345.5, [['c11-absent']], {'c11': 'absent'}])
                        p = 0
                    else:
                        p = {'first': 0, 'last': n - 1, 'middle': n // 2}.get(where, rng.randrange(n))
                        if callable(xs[p]):
                            p = min(cands, key=lambda i, p=p: abs(i - p))
                        needle = clone(xs[p]) if rng.random() < 0.6 else clone(respell(xs[p]))
                    for index in [None, rng.choice([0, p, p + 1, max(0, p - 1), max(0, n - 1), n, n // 2, float(n // 2), rng.randrange(n + 1)])]:
                        cases.append(('indexOf', (xs, needle, index, where)))
    # the model
    reqs, slots = [], []
    encd = []
    ecache = {}
    for kind, payload in cases:
        if id(payload[0]) not in ecache:
            ecache[id(payload[0])] = [enc(v) for v in payload[0]]      # (the arrays stay alive in `cases`)
        e = ecache[id(payload[0])]
        if kind == 'indexOf':
            e = [e, enc(payload[1])]
        encd.append(e)
        first = len(reqs)
        if kind == 'arraySort':
            reqs.append({'op': 'sort', 'xs': e})
        elif kind == 'dataSort':
            reqs.append({'op': 'dataSort', 'rows': e, 'sorts': payload[1]})
        elif kind == 'minmax':
            reqs.append({'op': 'minmax', 'xs': e})
        elif kind == 'indexOf' and (payload[2] is None or len(payload[0]) <= 129):       # long arrays: half of the queries go to the model
            base = {'xs': e[0], 'v': e[1]}
            r1, r2 = dict(base, op='indexOf'), dict(base, op='lastIndexOf')
            if payload[2] is not None:
                r1['index'] = int(payload[2])
                r2['index'] = int(payload[2])
            reqs.extend([r1, r2])
        slots.append((first, len(reqs)))
    resps = ctx.driver.batch(reqs)
    fired = {}

    def oracle(name, *args):
        if fired.get(name, 0) >= 3:       # at most three (long) witnesses per oracle
            return
        res = scale_fails(im, name, [_unwrap(a) for a in args])
        if res is not None:
            fired[name] = fired.get(name, 0) + 1
            scale_witness(ctx, im, name, list(args), res)

    def model(case, got, want):
        ctx.disagreements_checked += 1
        if got != want:
            ctx.disagree('scale', case(), got, want)

    for (kind, payload), e, (lo, hi) in zip(cases, encd, slots):
        resp = resps[lo:hi]
        n = len(payload[0])
        dg = digest(e)
        if kind == 'arraySort':
            xs, _fn, fam = payload
            st.case([kind, dg], nontrivial=n >= 2, tags=[f'arraySort:n{n}', f'arraySort:{fam}'])
            arr = list(xs)
            out = im.call('arraySort', arr)
            model(lambda xs=xs: {'values': [spec(v) for v in xs]}, perm_of(out, xs), resp[0].get('perm', resp[0]))
            oracle('arraySort-scale', xs)
        elif kind == 'arraySort-fn':
            xs, fn, fam = payload
            st.case([kind, dg, fn], nontrivial=n >= 2, tags=[f'arraySort-fn:n{n}', f'arraySort-fn:{fn}'])
            oracle('arraySort-scale', xs, ('raw', fn))
        elif kind == 'dataSort':
            rows, sorts, how = payload
            st.case([kind, dg, sorts], nontrivial=n >= 2, tags=[f'dataSort:n{n}', f'dataSort:keys{len(sorts)}', f'dataSort:{how}'])
            arr = list(rows)
            out = im.call('dataSort', arr, [list(s) for s in sorts])
            model(lambda rows=rows, sorts=sorts: {'rows': [spec(r) for r in rows], 'sorts': sorts}, perm_of(out, rows), resp[0].get('perm', resp[0]))
            oracle('dataSort-scale', rows, ('raw', sorts))
        elif kind == 'minmax':
            xs, fam, how = payload
            st.case([kind, dg], nontrivial=n >= 2, tags=[f'minmax:n{n}', f'minmax:extreme-{how}'])
            got = {'max': enc_safe(im.call('mathMax', *xs)), 'min': enc_safe(im.call('mathMin', *xs))}
            model(lambda xs=xs: {'values': [spec(v) for v in xs]}, got, {'max': resp[0].get('max', resp[0]), 'min': resp[0].get('min', resp[0])})
            oracle('mathMinMax', xs)
            oracle('mathMinMax-ref', xs)
        else:
            xs, needle, index, where = payload
            st.case([kind, dg, index], nontrivial=n >= 1, tags=[f'indexOf:n{n}', f'indexOf:{where}'])
            args = [needle] + ([] if index is None else [index])
            got = [im.call('arrayIndexOf', list(xs), *args), im.call('arrayLastIndexOf', list(xs), *args)]
            if resp:
                model(lambda xs=xs, needle=needle, index=index: {'values': [spec(v) for v in xs], 'needle': spec(needle), 'index': index}, got,
                      [resp[0].get('r', resp[0]), resp[1].get('r', resp[1])])
            oracle('arrayIndexOf', xs, needle, ('raw', index))
            oracle('arrayLastIndexOf', xs, needle, ('raw', index))
            oracle('arrayIndexOf-ref', xs, needle, ('raw', index))
    ctx.notes.append(f'scale: sizes {sizes}, {len(cases)} cases ({hist([c[0] for c in cases])}), {len(reqs)} model requests')


# ---------------------------------------------------------------------------------------------------------------------
# Tie keys: DIFFERENT objects that compare EQUAL, as the earlier keys of a multi-key sort with a later key deciding
# ---------------------------------------------------------------------------------------------------------------------

def tie_classes(pool, impl):
    """Groups of >= 2 distinguishable values that the comparison calls equal: all functions, all regexes, 1 / 1.0, 0 / 0.0 / -0.0,
    2**53 as int / float, a date / its midnight / aware datetimes of the same local instant, equal containers that are distinct
    instances (other key order, other number spelling) - directly, and nested in an array / an object / two levels."""
    base = [g for g in equal_classes(pool, impl) if len(g) >= 2]
    base.append(list(FUNCS))
    base.append(list(REGEXES))
    base.append([0, 0.0, -0.0])
    base.append([datetime.date(2020, 1, 1), datetime.datetime(2020, 1, 1), HDate(2020, 1, 1)])
    out = []
    for g in base:
        g = g[:8]
        out.append(g)
        out.append([[x] for x in g])
        out.append([{'k': x} for x in g])
        out.append([[0, {'k': [x]}] for x in g])
    return out


def gen_tie_rows(rng, classes, fields):
    """rows whose earlier sort fields hold members of one or two tie classes and whose last field decides"""
    cls = [rng.choice(classes) for _ in range(len(fields) - 1)]
    extra = rng.choice(classes)
    nrows = rng.choice([2, 3, 4, 6, 9, 14])
    rows = []
    for _ in range(nrows):
        row = {}
        for f, g in zip(fields, cls):
            r = rng.random()
            if r < 0.8:
                row[f] = clone(rng.choice(g))
            elif r < 0.9:
                row[f] = clone(rng.choice(extra))
            # else: the field is missing (null)
        row[fields[-1]] = rng.choice([0, 1, 2, 3, 1.0, 2.0, 'a', None])
        rows.append(row)
    return rows


def tie_stream(ctx, im, pool, impl):
    st = ctx.stream('tiekeys', 'multi-key sorts whose EARLIER keys hold different objects that compare equal (different functions, different '
                               'regexes, 1 vs 1.0, 0 vs -0.0, date vs datetime at midnight vs aware datetime of the same instant, equal arrays / '
                               'objects that are distinct instances, directly or nested) so that only a LATER key decides: dataSort with 2..4 '
                               'sort fields (asc / desc, missing fields), arraySort of rows spelled as arrays [k1, k2, d] and as objects '
                               '{a: k1, b: d}, mathMin / mathMax and arrayIndexOf over such rows: implementation vs model permutation + '
                               'ordered / permutation / stable oracle w.r.t. value_compare AND w.r.t. the reference comparison; '
                               'non-trivial = at least two rows and a tie on the first key')
    rng = ctx.rng('tiekeys')
    classes = tie_classes(pool, impl)
    ds_cases, as_cases = [], []
    for c in load_corpus():
        if c.get('kind') == 'datasort':
            ds_cases.append(([unspec(r) for r in c['rows']], c['sorts']))
    for _ in range(ctx.scale(700, 7000)):
        nf = rng.choice([2, 2, 3, 3, 4])
        fields = rng.sample(['a', 'b', 'c', 'd', 'e'], nf)
        rows = gen_tie_rows(rng, classes, fields)
        sorts = [[f] + ([rng.random() < 0.5] if rng.random() < 0.8 else []) for f in fields]
        ds_cases.append((rows, sorts))
        mode = rng.random()
        if mode < 0.5:
            as_cases.append([[clone(r.get(f)) for f in fields] for r in rows])
        else:
            as_cases.append([clone(r) for r in rows])
    reqs = [{'op': 'dataSort', 'rows': [enc(r) for r in rows], 'sorts': sorts} for rows, sorts in ds_cases]
    reqs += [{'op': 'sort', 'xs': [enc(v) for v in xs]} for xs in as_cases]
    reqs += [{'op': 'minmax', 'xs': [enc(v) for v in xs[:6]]} for xs in as_cases]
    resps = ctx.driver.batch(reqs)
    nd = len(ds_cases)
    for (rows, sorts), resp in zip(ds_cases, resps[:nd]):
        f0 = sorts[0][0]
        tie = len(rows) >= 2 and any(ref_compare(rows[0].get(f0), r.get(f0)) == 0 for r in rows[1:])
        st.case([[digest(enc(r)) for r in rows], sorts], nontrivial=tie, tags=[f'dataSort:keys{len(sorts)}', 'first-key-tie' if tie else 'no-tie'])
        arr = list(rows)
        out = im.call('dataSort', arr, [list(s) for s in sorts])
        perm = perm_of(out, rows)
        ctx.compare('tiekeys', {'rows': [spec(r) for r in rows], 'sorts': sorts}, perm, resp.get('perm', resp))
        run_oracle(ctx, im, 'dataSort', rows, ('raw', sorts))
        run_oracle(ctx, im, 'dataSort-ref', rows, ('raw', sorts))
    for xs, resp, resp2 in zip(as_cases, resps[nd:nd + len(as_cases)], resps[nd + len(as_cases):]):
        st.case([digest(enc(v)) for v in xs], nontrivial=len(xs) >= 2, tags=['arraySort:' + ('array-rows' if isinstance(xs[0], list) else 'object-rows')])
        arr = list(xs)
        out = im.call('arraySort', arr)
        perm = perm_of(out, xs)
        ctx.compare('tiekeys', {'values': [spec(v) for v in xs]}, perm, resp.get('perm', resp))
        run_oracle(ctx, im, 'arraySort', xs)
        run_oracle(ctx, im, 'arraySort-ref', xs)
        ys = xs[:6]
        got = {'max': enc_safe(im.call('mathMax', *ys)), 'min': enc_safe(im.call('mathMin', *ys))}
        ctx.compare('tiekeys', {'minmax': [spec(v) for v in ys]}, got, {'max': resp2.get('max', resp2), 'min': resp2.get('min', resp2)})
        run_oracle(ctx, im, 'mathMinMax', ys)
        needle = clone(rng.choice(xs))
        run_oracle(ctx, im, 'arrayIndexOf', xs, needle, ('raw', None))
        run_oracle(ctx, im, 'arrayLastIndexOf', xs, needle, ('raw', None))


def o_data_sort_ref(im, rows, sorts):
    arr = list(rows)
    out = im.call('dataSort', arr, [list(s) for s in sorts])
    why = check_sorted_stable(perm_of(out, rows), rows, row_cmp(RefImpl, sorts))
    return None if why is None else ('rows ordered by the sort keys under the reference comparison, stable', why)


def o_sort_ref(im, xs):
    arr = list(xs)
    out = im.call('arraySort', arr)
    why = check_sorted_stable(perm_of(out, xs), xs, ref_compare)
    return None if why is None else ('ordered stable permutation under the reference comparison', why)


# ---------------------------------------------------------------------------------------------------------------------
# Host-boundary values (stateless): subclasses of int / float / str / list / dict / date / datetime, enum members, zone-aware
# and sub-millisecond datetimes, unusual callables
# ---------------------------------------------------------------------------------------------------------------------

def host_values():
    d = datetime.datetime
    od = collections.OrderedDict
    vals = [
        HInt(0), HInt(1), HInt(2), HInt(-1), HInt(2 ** 53 + 1), HInt(10 ** 30), HFloat(0.0), HFloat(-0.0), HFloat(1.0), HFloat(0.5), HFloat(2.0 ** 53),
        Color.ZERO, Color.RED, Color.GREEN, Color.BIG, Perm.X, Perm.W, Perm.R,
        HStr(''), HStr('a'), HStr('b'), HStr('aa'), HStr('\uffff'), HStr('\U00010000'), Name.EMPTY, Name.A, Name.B, Name.HIGH,
        HList(), HList([1]), HList([1, 2]), HList([HInt(1), 2.0]), HList([[1]]), [Color.RED, 'a'], [Name.A, 1], HList([None]), [HList(), HList()],
        HDict(), HDict(a=1), HDict(a=1, b=2), od([('b', 2), ('a', 1)]), od([('a', 1), ('b', 2)]), od([('a', 2)]), collections.defaultdict(list, {'a': [1]}),
        collections.defaultdict(list), collections.Counter({'a': 1, 'b': 2}), collections.Counter('ab'), {'a': HInt(1)}, {HStr('a'): 1}, {Name.A: 1, Name.B: 2},
        {'b': Color.GREEN, 'a': Color.RED}, HDict(a=HList([1, HDict()])), {'a': od([('z', 1), ('b', 2)])},
        HDate(2020, 1, 1), HDateTime(2020, 1, 1), HDateTime(2020, 1, 1, 0, 0, 0, 1), HDateTime(2020, 1, 1, tzinfo=UTC), HDateTime(2020, 1, 1, 5, 30, tzinfo=tz(330)),
        d(2020, 1, 1, 0, 0, 0, 1), d(2020, 1, 1, 0, 0, 0, 999), d(2020, 1, 1, 0, 0, 0, 1000), d(2020, 1, 1, 0, 0, 0, 1001), d(2020, 1, 1, 0, 0, 0, 999999),
        d(2020, 1, 1, 0, 0, 0, 1, tzinfo=UTC), d(2020, 1, 1, 0, 0, 0, 2, tzinfo=tz(60)), d(2020, 1, 1, 1, 0, 0, 1, tzinfo=tz(60)),
        d(2020, 1, 1, 0, 0, 0, 500, tzinfo=tz(-1)), d(2019, 12, 31, 23, 59, 0, 500, tzinfo=tz(-1)),
    ]
    if zoneinfo is not None:
        for zone, args in (('Europe/Berlin', (2020, 1, 1, 1)), ('Europe/Berlin', (2020, 7, 1, 2)), ('America/New_York', (2021, 11, 7, 1, 30)),
                           ('Asia/Kolkata', (2020, 1, 1, 5, 30, 0, 1)), ('Pacific/Apia', (2011, 12, 31, 0)), ('UTC', (2020, 1, 1))):
            try:
                zi = zoneinfo.ZoneInfo(zone)
            except Exception:  # pylint: disable=broad-except
                continue
            vals.append(d(*args, tzinfo=zi))
            if zone == 'America/New_York':
                vals.append(d(*args, tzinfo=zi, fold=1))
    return vals + list(FUNCS[6:])


def host_stream(ctx, im, pool):
    st = ctx.stream('host', 'host-boundary values (HOST ONLY for the spelling: the model receives the base-type value of each, so the comparison '
                            'with the model IS the oracle "a subclass instance / enum member compares like its base value"): instances of '
                            'subclasses of int, float, str, list, dict (OrderedDict, defaultdict, Counter), date, datetime; IntEnum / IntFlag / str-Enum '
                            'members; ZoneInfo-aware and sub-millisecond datetimes; callable objects, bound methods, classes, callables with default / '
                            'variadic parameters - mixed with their base twins and ordinary values: all ordered pairs vs the model + all pair laws, '
                            'all triples, relational operators, arraySort / dataSort / mathMin / mathMax / arrayIndexOf oracles; '
                            'base-equivalence: every consumer answers the same on the host value and on its base twin; non-trivial = two different values')
    rng = ctx.rng('host')
    hv = host_values()
    twins = [to_base(v) for v in hv if not callable(v)]
    hpool = hv + twins + sample_pool(rng, pool, ctx.scale(50, 120))
    impl = matrix_stream(ctx, im, st, 'host', hpool, 'host')
    n = len(hpool)
    triples(ctx, im, st, hpool, impl, list(range(len(hv))) + sorted(rng.sample(range(len(hv), n), min(n - len(hv), ctx.scale(40, 120)))))
    # base equivalence of the comparison itself (also against the reference)
    bases = [to_base(v) for v in hpool]
    for i, a in enumerate(hpool):
        for j, b in enumerate(hpool):
            want = ref_compare(bases[i], bases[j])
            if impl[i][j] != want:
                ctx.witness('host-base-equivalence', {'oracle': 'host-base-equivalence', 'args': [spec_arg(a), spec_arg(b)], 'tz': os.environ.get('TZ', '')},
                            want, impl[i][j])
    by_type = {}
    for i, v in enumerate(hpool):
        by_type.setdefault(tname(v), []).append(i)
    # relational operators, spelling, key order
    npairs = ctx.scale(1500, 15000)
    for _ in range(npairs):
        if rng.random() < 0.5:
            i, j = rng.randrange(len(hv)), rng.randrange(n)
        else:
            t = tname(hpool[rng.randrange(len(hv))])
            i, j = rng.choice(by_type[t]), rng.choice(by_type[t])
        if rng.random() < 0.5:
            i, j = j, i
        a, b = hpool[i], hpool[j]
        st.case(['relops', digest(spec(a)), digest(spec(b))], nontrivial=(i != j), tags=['relops'])
        run_oracle(ctx, im, 'relops-sign', a, b)
        run_oracle(ctx, im, 'int-float-spelling', a, b)
        run_oracle(ctx, im, 'key-order', a, b, ('raw', i * 7919 + j))
    # consumers over arrays of host values (ties between a host value and its twin are the interesting part)
    classes = equal_classes(hpool, impl)
    sort_cases = []
    for _ in range(ctx.scale(500, 8000)):
        k = rng.choice([2, 3, 5, 8, 12, 20])
        mode = rng.random()
        src = hv if mode < 0.3 else (rng.choice(classes) + rng.choice(classes) + rng.choice(classes) if mode < 0.7
                                     else [hpool[i] for i in by_type[rng.choice(sorted(by_type))]])
        sort_cases.append([clone(rng.choice(src)) for _ in range(k)])
    resps = ctx.driver.batch([{'op': 'sort', 'xs': [enc(v) for v in xs]} for xs in sort_cases])
    for xs, resp in zip(sort_cases, resps):
        st.case(['sort'] + [digest(spec(v)) for v in xs], nontrivial=True, tags=['arraySort'])
        arr = list(xs)
        out = im.call('arraySort', arr)
        ctx.compare('host', {'values': [spec(v) for v in xs]}, perm_of(out, xs), resp.get('perm', resp))
        run_oracle(ctx, im, 'arraySort', xs)
        run_oracle(ctx, im, 'arraySort-ref', xs)
        run_oracle(ctx, im, 'mathMinMax', xs[:6])
        needle = clone(rng.choice(xs))
        if not callable(needle):
            index = rng.choice([None, None, 0, 1, HInt(1), Color.RED, HFloat(1.0), 1.0])
            if index is None or index < len(xs):
                iarg = ('raw', index) if index is None or host_kind(index) is None else index
                run_oracle(ctx, im, 'arrayIndexOf', xs, needle, iarg)
                run_oracle(ctx, im, 'arrayLastIndexOf', xs, needle, iarg)
    # dataSort over host rows (dict subclasses as rows, host values as field values, str subclasses as field names)
    fvals = [v for v in hv if not callable(v)] + twins
    for _ in range(ctx.scale(300, 5000)):
        rows = []
        for _r in range(rng.choice([2, 3, 5, 8])):
            row = rng.choice([dict, HDict, collections.OrderedDict])()
            for f in rng.sample(['a', 'b', 'id'], rng.choice([2, 3])):
                row[f if rng.random() < 0.8 else HStr(f)] = rng.choice(fvals) if rng.random() < 0.7 else rng.choice([0, 1, 2, None, 'a'])
            rows.append(row)
        sorts = [[rng.choice(['a', 'b', 'id', HStr('a'), HStr('b')])] + ([rng.random() < 0.5] if rng.random() < 0.8 else []) for _s in range(rng.choice([1, 2, 2, 3]))]
        sorts_rt = [[spec(s[0])] + s[1:] for s in sorts]
        st.case(['dataSort', [digest(spec(r)) for r in rows], sorts_rt], nontrivial=True, tags=['dataSort'])
        run_oracle(ctx, im, 'dataSort', rows, ('sorts', sorts))
        run_oracle(ctx, im, 'dataSort-ref', rows, ('sorts', sorts))
    ctx.notes.append(f'host: {len(hv)} host values + {len(twins)} base twins + pool sample = {n} values, all {n * n} ordered pairs and all triples')


def o_host_base(im, a, b):
    want = ref_compare(to_base(a), to_base(b))
    got = im.cmp(a, b)
    return None if got == want and is_int(got) else (want, got)


# ---------------------------------------------------------------------------------------------------------------------
# Histories: the comparison is a function of the CURRENT values only - whatever happened before in this process, on
# these options, in this or an earlier run (faulting sorts, aborted runs, mutations, nested sorts)
# ---------------------------------------------------------------------------------------------------------------------
#
# A history is JSON: {'consts': [spec, ...], 'runs': [{'mode': 'script' | 'expr', 'options': 'reuse' | 'fresh', 'maxs': n, 'builtins': bool,
# 'tz': zone | None, 'steps': [step, ...]}, ...]}. The variables v0..vN live in ONE globals dict for the whole history. Steps:
#   ['new', i, c, how]            vi = constant c (how: 'val' host-supplied deep copy | 'lit' literal expression | 'json' jsonParse)
#   ['set', i, key, c] ['del', i, key] ['setv', i, key, j]     objectSet / objectDelete / objectSet(vi, key, vj) with j < i (no cycles)
#   ['aset', i, ix, c] ['push', i, c] ['pop', i] ['pushv', i, j]   arraySet / arrayPush / arrayPop / arrayPush(vi, vj) with j < i
#   ['setin', i, ix, key, c]      objectSet(arrayGet(vi, ix), key, c): a row / element object is changed in place inside its array
#   ['obs', [i, j, ...], mask]    observe: snapshots of the variables + the consumers selected by mask on them (see h_obs_text)
#   ['rsort', [i...], fn]         arraySort(arrayNew(vi...), fn) with a well-behaved compare function (script or host callable)
#   ['dsort', [i...], sorts]      dataSort(arrayNew(vi...), sorts) (a fault when one of the variables is not an object)
#   ['sortvar', i]                arraySort(vi) in place     ['idxin', i, j]  arrayIndexOf / arrayLastIndexOf(vi, vj)
#   ['isort', mutstep, obsstep]   a sort whose compare function mutates a variable and observes on every call
#   ['fault', kind, [i...], k]    a library call that fails (see H_FAULTS) - it returns null or aborts the run, the history goes on
#   ['poison', i, where, p]       a POISON element p (H_POISONS: an element no comparison survives) is put INTO the persisting container vi:
#                                 where = key (objectSet) | index (arraySet) | 'push' (arrayPush) | 'wrap' (vi itself is nested beyond the
#                                 recursion limit around its old value: p = 'deep' by a host function, 'deepscript' by a script loop).
#                                 While a variable is poisoned every consumer on it fails (fault kinds H_PFAULTS: the consumers on the
#                                 variables themselves, not on temporaries) and its observations are not judged (h_snap -> H_POISONED; the
#                                 failing step itself is outside the property / known finding F36). The poison is then overwritten IN PLACE
#                                 (aset / set / pop) and the same container objects are observed again in both operand orders.

H_PRELUDE = '''
function c11sloppy(a, b):
    if a < b:
        return -1
    endif
    if a > b:
        return 1
    endif
endfunction

function c11rev(a, b):
    return systemCompare(b, a)
endfunction

function c11fwd(a, b):
    return systemCompare(a, b)
endfunction

function c11slow(a, b):
    c11t = 1
    c11t = 2
    return systemCompare(a, b)
endfunction

function c11nested(a, b):
    c11t = arraySort(arrayNew(b, a))
    return systemCompare(a, b)
endfunction

function c11nestedFault(a, b):
    c11t = arraySort(arrayNew(b, a, b), c11sloppy)
    return systemCompare(a, b)
endfunction

function c11deepen(x, n):
    c11i = 0
    while c11i < n:
        x = arrayNew(x)
        c11i = c11i + 1
    endwhile
    return x
endfunction
'''

H_FAULTS = ['sloppy', 'retstr', 'raise', 'none', 'abort', 'badsig0', 'badsig1', 'badsig3', 'deepsort', 'deepop', 'deepcall', 'deepindex', 'nan',
            'dsrow', 'dssorts', 'dsfield', 'args', 'args2', 'index', 'matchraise', 'slow', 'nestedfault']
# consumers on the variables THEMSELVES (no temporaries around them except where the consumer needs an array): faults while a variable is poisoned
H_PFAULTS = ['pcmp', 'pcmp1', 'pops', 'popsr', 'peq', 'pidx', 'pminmax', 'psort', 'psortfn', 'pdsort', 'pdsortv', 'psortvar', 'pidxvar']
H_POISONS = ['deep', 'dtmax', 'dtmin', 'raisestr']
H_POISONED = '\x00c11-poisoned'
H_OKFNS = {'c11rev': -1, 'c11fwd': 1, 'c11nested': 1, 'c11hostobj': 1, 'c11hostrev': -1, 'c11hostkw': 1, 'c11hostmethod': 1}
H_DEEP = 1500


def V(i):
    """an operand: variable number i, or ['c', k] = the (immutable scalar) constant k"""
    return f'c11val({i[1]})' if isinstance(i, list) else f'v{i}'


def json_text(v):
    """jsonParse('...') text of a plain JSON value without characters that need escaping, or None"""
    try:
        text = json.dumps(v, allow_nan=False)
    except (TypeError, ValueError):
        return None
    return f"jsonParse('{text}')" if re.fullmatch(r'[-A-Za-z0-9 .,:{}\[\]"]*', text) else None


def is_plain_json(v):
    if v is None or type(v) in (bool, int, float, str):
        return True
    if type(v) is list:  # pylint: disable=unidiomatic-typecheck
        return all(is_plain_json(x) for x in v)
    if type(v) is dict:  # pylint: disable=unidiomatic-typecheck
        return all(type(k) is str and is_plain_json(x) for k, x in v.items())
    return False


def h_obs_text(tag, vs, mask):
    a, b = V(vs[0]), V(vs[1])
    allv = ', '.join(V(i) for i in vs)
    parts = []
    if mask & 1:
        parts += ["'cmp'", f'systemCompare({a}, {b})', "'rcmp'", f'systemCompare({b}, {a})']
    if mask & 2:
        parts += ["'ops'", 'arrayNew(' + ', '.join(f'{a} {op} {b}' for op in RELOPS) + ')']
    if mask & 4:
        parts += ["'idx'", f'arrayIndexOf(arrayNew({b}, {a}), {a})', "'lidx'", f'arrayLastIndexOf(arrayNew({a}, {b}), {a})']
    if mask & 8:
        parts += ["'min'", f'c11which(mathMin({allv}), {allv})', "'max'", f'c11which(mathMax({allv}), {allv})']
    if mask & 16:
        parts += ["'sort'", f'c11perm(arraySort(arrayNew({allv})), {allv})']
    snaps = ', '.join(f'c11snap({V(i)})' for i in vs)
    return f"c11emit(arrayNew('obs', {tag}, arrayNew({snaps}), objectNew({', '.join(parts)})))"


def h_fault_text(kind, vs, k, invar=None):
    """invar: the failing call works on this persisting array variable itself instead of on a temporary array"""
    arr = 'arrayNew(' + ', '.join([V(i) for i in vs] + [V(vs[0]), '3', '1', '3', '2', '1']) + ')'
    objs = ', '.join(V(i) for i in vs)
    rows = f'arrayNew({objs}, 1, {objs}, null)'
    rows2 = f'arrayNew({objs}, {objs})'
    if invar is not None:
        arr = rows = rows2 = V(invar)
    pa, pb = V(vs[0]), V(vs[1] if len(vs) > 1 else vs[0])
    pobjs = ', '.join(V(i) for i in vs[-1:] + vs[:-1])      # the last one (a bystander that is not poisoned) first: its comparisons succeed before the call fails
    return {
        'pcmp': f'arrayNew(systemCompare({pa}, {pb}), systemCompare({pb}, {pa}))',
        'pcmp1': f'systemCompare({pa}, {pb})',
        'pops': 'arrayNew(' + ', '.join(f'{pa} {op} {pb}' for op in RELOPS) + ')',
        'popsr': 'arrayNew(' + ', '.join(f'{pb} {op} {pa}' for op in RELOPS) + ')',
        'peq': f'arrayNew({pa} == {pb}, {pa} != {pb})',
        'pidx': f'arrayNew(arrayIndexOf(arrayNew({pb}), {pa}), arrayLastIndexOf(arrayNew({pa}), {pb}))',
        'pminmax': f'arrayNew(mathMin({pa}, {pb}), mathMax({pa}, {pb}))',
        'psort': f'arraySort(arrayNew({pobjs}))',
        'psortfn': f'arraySort(arrayNew({pobjs}), c11fwd)',
        'pdsort': f"dataSort(arrayNew(objectNew('a', {pa}), objectNew('a', {pb})), arrayNew(arrayNew('a')))",
        'pdsortv': f"dataSort(arrayNew({pobjs}), arrayNew(arrayNew('a'), arrayNew('b', true), arrayNew('c')))",     # the variables themselves are the rows
        'psortvar': f'arraySort({arr})',
        'pidxvar': f'arrayNew(arrayIndexOf({arr}, {pa}), arrayLastIndexOf({arr}, {pb}))',
        'sloppy': f'arraySort({arr}, c11sloppy)',
        'retstr': f"arraySort({arr}, c11kthfn({k}, 'str'))",
        'raise': f"arraySort({arr}, c11kthfn({k}, 'raise'))",
        'none': f"arraySort({arr}, c11kthfn({k}, 'none'))",
        'abort': f"arraySort({arr}, c11kthfn({k}, 'abort'))",
        'badsig0': f'arraySort({arr}, c11bad0)',
        'badsig1': f'arraySort({arr}, c11bad1)',
        'badsig3': f'arraySort({arr}, c11bad3)',
        'deepsort': f'arraySort(arrayNew({objs}, c11deep(0), {objs}, c11deep(1)))',
        'deepop': f'arrayNew(c11deep(0) < c11deep(1), c11deep(0) == c11deep(1), arrayNew({objs}, c11deep(0)) >= arrayNew({objs}, c11deep(1)))',
        'deepcall': f'arrayNew(systemCompare(c11deep(0), c11deep(1)), mathMax({objs}, c11deep(0), c11deep(1)), mathMin(c11deep(0), c11deep(1), {objs}))',
        'deepindex': f'arrayNew(arrayIndexOf(arrayNew({objs}, c11deep(0)), c11deep(1)), arrayLastIndexOf(arrayNew(c11deep(0), {objs}), c11deep(1)))',
        'nan': f'arrayNew(arraySort(arrayNew(c11nan(), {objs}, 1, c11nan(), {objs})), mathMin(c11nan(), {objs}), c11nan() < {V(vs[0])})',
        'dsrow': f"dataSort({rows}, arrayNew(arrayNew('a'), arrayNew('b', true)))",
        'dssorts': f'dataSort({rows2}, arrayNew(1))',
        'dsfield': f'dataSort({rows2}, arrayNew(arrayNew({V(vs[0])})))',
        'args': 'arraySort(1)',
        'args2': f'arraySort({arr}, 1)',
        'index': f'arrayNew(arrayIndexOf({arr}, 1, 99), arrayLastIndexOf({arr}, 1, 99))',
        'matchraise': f"arrayIndexOf({arr}, c11kthfn({k}, 'raise'))",
        'slow': f'arraySort({arr}, c11slow)',
        'nestedfault': f'arraySort({arr}, c11nestedFault)',
    }[kind]


class HCompiler:
    """steps -> BareScript text; assigns a tag to every emitting step"""

    def __init__(self, consts):
        self.consts = consts
        self.tag = 0
        self.meta = {}      # tag -> step

    def next_tag(self, step):
        self.tag += 1
        self.meta[self.tag] = step
        return self.tag

    def expr(self, step):
        """-> (target variable or None, expression text, tag or None) for single-expression steps"""
        k = step[0]
        if k == 'new':
            _, i, c, how = step
            value = self.consts[c]
            text = None
            if how == 'lit' and is_plain_json(value):
                text = literal(value)
            elif how == 'json' and is_plain_json(value):
                text = json_text(value)
            return V(i), text or f'c11val({c})', None
        if k == 'set':
            return None, f"objectSet({V(step[1])}, '{step[2]}', c11val({step[3]}))", None
        if k == 'del':
            return None, f"objectDelete({V(step[1])}, '{step[2]}')", None
        if k == 'setv':
            return None, f"objectSet({V(step[1])}, '{step[2]}', {V(step[3])})", None
        if k == 'aset':
            return None, f'arraySet({V(step[1])}, {step[2]}, c11val({step[3]}))', None
        if k == 'setin':
            return None, f"objectSet(arrayGet({V(step[1])}, {step[2]}), '{step[3]}', c11val({step[4]}))", None
        if k == 'push':
            return None, f'arrayPush({V(step[1])}, c11val({step[2]}))', None
        if k == 'pop':
            return None, f'arrayPop({V(step[1])})', None
        if k == 'pushv':
            return None, f'arrayPush({V(step[1])}, {V(step[2])})', None
        if k == 'obs':
            tag = self.next_tag(step)
            return None, h_obs_text(tag, step[1], step[2]), tag
        if k == 'rsort':
            tag = self.next_tag(step)
            allv = ', '.join(V(i) for i in step[1])
            snaps = ', '.join(f'c11snap({V(i)})' for i in step[1])
            return None, f"c11emit(arrayNew('rsort', {tag}, arrayNew({snaps}), c11perm(arraySort(arrayNew({allv}), {step[2]}), {allv})))", tag
        if k == 'dsort':
            tag = self.next_tag(step)
            allv = ', '.join(V(i) for i in step[1])
            snaps = ', '.join(f'c11snap({V(i)})' for i in step[1])
            sorts = 'arrayNew(' + ', '.join('arrayNew(' + ', '.join([f"'{s[0]}'"] + (['true' if s[1] else 'false'] if len(s) > 1 else [])) + ')' for s in step[2]) + ')'
            return None, f"c11emit(arrayNew('dsort', {tag}, arrayNew({snaps}), c11perm(dataSort(arrayNew({allv}), {sorts}), {allv})))", tag
        if k == 'sortvar':
            tag = self.next_tag(step)
            a = V(step[1])
            fn = f', {step[2]}' if len(step) > 2 and step[2] else ''
            return None, f"c11emit(arrayNew('sortvar', {tag}, arrayNew(c11snap({a})), c11perm2(c11shallow({a}), arraySort({a}{fn}))))", tag
        if k == 'dsortvar':
            tag = self.next_tag(step)
            a = V(step[1])
            sorts = 'arrayNew(' + ', '.join('arrayNew(' + ', '.join([f"'{s[0]}'"] + (['true' if s[1] else 'false'] if len(s) > 1 else [])) + ')' for s in step[2]) + ')'
            return None, f"c11emit(arrayNew('dsortvar', {tag}, arrayNew(c11snap({a})), c11perm2(c11shallow({a}), dataSort({a}, {sorts}))))", tag
        if k == 'idxin':
            tag = self.next_tag(step)
            a, x = V(step[1]), V(step[2])
            return None, f"c11emit(arrayNew('idxin', {tag}, arrayNew(c11snap({a}), c11snap({x})), arrayNew(arrayIndexOf({a}, {x}), arrayLastIndexOf({a}, {x}))))", tag
        if k == 'fault':
            return None, h_fault_text(step[1], step[2], step[3], step[4] if len(step) > 4 else None), None
        if k == 'poison':
            _, i, where, p = step
            if where == 'wrap':
                return V(i), (f'c11deepen({V(i)}, {H_DEEP})' if p == 'deepscript' else f'c11wrap({V(i)}, {H_DEEP})'), None
            pv = f"c11poison('{p}')"
            if where == 'push':
                return None, f'arrayPush({V(i)}, {pv})', None
            if isinstance(where, str):
                return None, f"objectSet({V(i)}, '{where}', {pv})", None
            return None, f'arraySet({V(i)}, {where}, {pv})', None
        raise ValueError(f'unknown step {step!r}')

    def lines(self, step):
        """-> script lines of any step"""
        if step[0] == 'isort':
            tag = self.next_tag(step)
            body = []
            for sub in step[1:]:
                target, text, _ = self.expr(sub)
                body.append('    ' + (f'{target} = {text}' if target else text))
            return [f'function c11in{tag}(a, b):'] + body + ['    return systemCompare(a, b)', 'endfunction',
                                                              f"c11emit(arrayNew('isort', {tag}, arrayNew(), arraySort(arrayNew(3, 1, 2, 1, 0, 2), c11in{tag})))"]
        target, text, _ = self.expr(step)
        return [f'{target} = {text}' if target else text]


def h_emitting(step):
    return step[0] in ('obs', 'rsort', 'dsort', 'sortvar', 'dsortvar', 'idxin', 'isort')


def h_is_int(x):
    return isinstance(x, int) and not isinstance(x, bool)


def h_check_record(rec, step, add, model):
    """One emitted record against the reference comparison of the snapshots. add(field, expected, actual); model(request, got, pick)."""
    kind, snaps, res = rec[0], rec[2], rec[3]
    if any(isinstance(s, str) and s == H_POISONED for s in snaps):
        return      # an operand still holds a poison element: outside the property (and known finding F36) - nothing is claimed
    if kind == 'obs':
        c = ref_compare(snaps[0], snaps[1])
        if 'cmp' in res:
            if not (h_is_int(res['cmp']) and res['cmp'] == c):
                add('systemCompare(l, r)', c, res['cmp'])
            if not (h_is_int(res['rcmp']) and res['rcmp'] == -c):
                add('systemCompare(r, l)', -c, res['rcmp'])
        if 'ops' in res:
            want = [fn(c) for fn in RELOPS.values()]
            if res['ops'] != want or any(type(x) is not bool for x in res['ops']):
                add('operators ' + ' '.join(RELOPS), want, res['ops'])
        if 'cmp' in res and 'ops' in res and isinstance(res['ops'], list) and len(res['ops']) == 6:
            got = dict(zip(RELOPS, res['ops']))
            got['r'] = res['cmp']
            model({'op': 'cmp', 'a': enc(snaps[0]), 'b': enc(snaps[1])}, got, lambda resp: {k: resp.get(k, resp) for k in list(RELOPS) + ['r']})
        if 'idx' in res:
            want = [0 if c == 0 else 1, 1 if c == 0 else 0]
            if [res['idx'], res['lidx']] != want:
                add('arrayIndexOf([r, l], l), arrayLastIndexOf([l, r], l)', want, [res['idx'], res['lidx']])
        for name, sgn in (('min', -1), ('max', 1)):
            if name in res:
                got = res[name]
                ok = isinstance(got, list) and got and any(all(ref_compare(snaps[g], s) * sgn >= 0 for s in snaps) for g in got)
                if not ok:
                    add(f'math{name.capitalize()}: index of a {"least" if sgn < 0 else "greatest"} argument', 'an extremal argument', got)
        if 'min' in res and 'max' in res and isinstance(res['min'], list) and isinstance(res['max'], list) and res['min'] and res['max']:
            got = {'max': enc(snaps[res['max'][0]]), 'min': enc(snaps[res['min'][0]])}
            model({'op': 'minmax', 'xs': [enc(s) for s in snaps]}, got, lambda resp: {'max': resp.get('max', resp), 'min': resp.get('min', resp)})
        if 'sort' in res:
            why = check_sorted_stable(res['sort'], snaps, ref_compare)
            if why is not None:
                add('arraySort: ordered stable permutation', 'ordered stable permutation', [why, res['sort']])
            model({'op': 'sort', 'xs': [enc(s) for s in snaps]}, res['sort'], lambda resp: resp.get('perm', resp))
    elif kind == 'rsort':
        sgn = H_OKFNS[step[2]]
        why = check_sorted_stable(res, snaps, lambda x, y: sgn * ref_compare(x, y))
        if why is not None:
            add(f'arraySort with compare function {step[2]}: ordered stable permutation', 'ordered stable permutation', [why, res])
    elif kind == 'dsort':
        if all(isinstance(s, dict) for s in snaps):
            sorts = step[2]
            why = check_sorted_stable(res, snaps, row_cmp(RefImpl, sorts))
            if why is not None:
                add('dataSort: rows ordered by the sort keys, stable', 'ordered stable permutation', [why, res])
            model({'op': 'dataSort', 'rows': [enc(s) for s in snaps], 'sorts': sorts}, res, lambda resp: resp.get('perm', resp))
    elif kind == 'sortvar':
        if isinstance(snaps[0], list):
            sgn = H_OKFNS[step[2]] if len(step) > 2 and step[2] else 1
            why = check_sorted_stable(res, snaps[0], lambda x, y: sgn * ref_compare(x, y))
            if why is not None:
                add('arraySort(variable) in place: ordered stable permutation', 'ordered stable permutation', [why, res])
            if sgn == 1:
                model({'op': 'sort', 'xs': [enc(s) for s in snaps[0]]}, res, lambda resp: resp.get('perm', resp))
    elif kind == 'dsortvar':
        if isinstance(snaps[0], list) and all(isinstance(r, dict) for r in snaps[0]):
            why = check_sorted_stable(res, snaps[0], row_cmp(RefImpl, step[2]))
            if why is not None:
                add('dataSort(variable) in place: rows ordered by the sort keys, stable', 'ordered stable permutation', [why, res])
            model({'op': 'dataSort', 'rows': [enc(r) for r in snaps[0]], 'sorts': step[2]}, res, lambda resp: resp.get('perm', resp))
    elif kind == 'idxin':
        arr, x = snaps
        if isinstance(arr, list):
            eq = [i for i, y in enumerate(arr) if ref_compare(y, x) == 0]
            want = [eq[0] if eq else -1, eq[-1] if eq else -1]
            if res != want:
                add('arrayIndexOf / arrayLastIndexOf(array variable, value)', want, res)
    elif kind == 'isort':
        if not (isinstance(res, list) and len(res) == 6 and all(type(x) in (int, float) for x in res) and [float(x) for x in res] == [0.0, 1.0, 1.0, 2.0, 2.0, 3.0]):
            add('arraySort([3, 1, 2, 1, 0, 2], observing compare function)', [0, 1, 1, 2, 2, 3], spec_safe(res))


class HistoryRunner:
    def __init__(self, im):
        self.im = im
        self.prelude = im.parser.parse_script(H_PRELUDE)
        deep = []
        for _ in range(2):
            x = []
            for _d in range(H_DEEP):
                x = [x]
            deep.append(x)
        self.deep = deep

    def host_globals(self, consts, records):
        im = self.im

        def kthfn(args, options):  # pylint: disable=unused-argument
            k, mode = args
            state = {'n': 0}

            def fn(fargs, foptions):  # pylint: disable=unused-argument
                state['n'] += 1
                if state['n'] >= k:
                    if mode == 'raise':
                        raise ValueError('c11: the compare function failed')
                    if mode == 'abort':
                        raise im.runtime.BareScriptRuntimeError('c11: the compare function aborted the run')
                    if mode == 'none':
                        return None
                    if mode == 'str':
                        return 'x'
                if len(fargs) < 2:
                    return False        # used as a match function: no match until it fails
                return im.value.value_compare(fargs[0], fargs[1])
            return fn

        def which(args, options):  # pylint: disable=unused-argument
            res = args[0]
            return [i for i, x in enumerate(args[1:]) if x is res or _same_scalar(x, res)]

        def emit(args, options):  # pylint: disable=unused-argument
            records.append(args[0])

        hostobj = HCmp(im, 1)
        scalars = {}

        def val(args, options):  # pylint: disable=unused-argument
            k = int(args[0])
            if k in scalars:
                return scalars[k]
            v = unspec(consts[k])
            if not isinstance(v, (list, dict)):
                scalars[k] = v      # an immutable constant is ONE host object (identity is how results are matched to arguments)
            return v

        return {
            'c11val': val,
            'c11snap': lambda args, options: h_snap(args[0]),
            'c11poison': lambda args, options: h_poison(args[0]),
            'c11wrap': lambda args, options: h_wrap(args[0], int(args[1])),
            'c11shallow': lambda args, options: list(args[0]) if isinstance(args[0], list) else None,
            'c11emit': emit,
            'c11which': which,
            'c11perm': lambda args, options: perm_of(args[0], args[1:]),
            'c11perm2': lambda args, options: perm_of(args[1], args[0]) if isinstance(args[0], list) else args[1],
            'c11deep': lambda args, options: self.deep[int(args[0])],
            'c11nan': lambda args, options: float('nan'),
            'c11kthfn': kthfn,
            'c11bad0': lambda: 0,
            'c11bad1': lambda args: 0,
            'c11bad3': lambda args, options, extra: 0,
            'c11hostobj': hostobj,
            'c11hostrev': functools.partial(_host_cmp, im, -1),
            'c11hostkw': lambda args, options=None, *rest, **kw: im.value.value_compare(args[0], args[1]),
            'c11hostmethod': hostobj.method,
        }

    def run(self, hist):
        """-> (failures, model cases [(case, got, request, pick)], stats)"""
        im = self.im
        consts = hist['consts']
        records = []
        glob = self.host_globals(consts, records)
        shared = {'globals': glob, 'maxStatements': MAXS}
        failures, mcases = [], []
        stats = {'records': 0, 'aborted': 0, 'steps': 0}
        comp = HCompiler([unspec(c) for c in consts])
        old_tz = os.environ.get('TZ')
        tz_changed = False
        try:
            im.runtime.execute_script(self.prelude, shared)
            for rix, run in enumerate(hist['runs']):
                if run.get('tz'):
                    os.environ['TZ'] = run['tz']
                    time.tzset()
                    tz_changed = True
                opts = shared if run.get('options', 'reuse') == 'reuse' else {'globals': glob}
                opts['maxStatements'] = run.get('maxs', MAXS)
                first = len(records)
                expected_tags = []
                aborted = False
                if run.get('mode', 'script') == 'script':
                    lines = []
                    for step in run['steps']:
                        t0 = comp.tag
                        lines.extend(comp.lines(step))
                        if h_emitting(step):
                            expected_tags.append(t0 + 1)
                    try:
                        im.runtime.execute_script(im.parser.parse_script('\n'.join(lines) + '\n'), opts)
                    except im.runtime.BareScriptRuntimeError:
                        aborted = True
                    except Exception as exc:  # pylint: disable=broad-except
                        aborted = True
                        failures.append({'run': rix, 'field': 'host exception out of execute_script', 'expected': 'no exception', 'actual': f'{type(exc).__name__}: {exc}'[:200]})
                else:
                    opts['statementCount'] = 0
                    for step in run['steps']:
                        t0 = comp.tag
                        try:
                            if step[0] == 'isort':
                                im.runtime.execute_script(im.parser.parse_script('\n'.join(comp.lines(step)) + '\n'), opts)
                            else:
                                target, text, _ = comp.expr(step)
                                val = im.runtime.evaluate_expression(im.parser.parse_expression(text), opts, None, run.get('builtins', True))
                                if target:
                                    glob[target] = val
                            if h_emitting(step):
                                expected_tags.append(t0 + 1)
                        except im.runtime.BareScriptRuntimeError:
                            stats['aborted'] += 1
                        except Exception as exc:  # pylint: disable=broad-except
                            if step[0] != 'fault':
                                failures.append({'run': rix, 'step': step, 'field': 'host exception out of evaluate_expression', 'expected': 'no exception',
                                                 'actual': f'{type(exc).__name__}: {exc}'[:200]})
                stats['steps'] += len(run['steps'])
                stats['aborted'] += int(aborted)
                new = records[first:]
                seen = set()
                for rec in new:
                    stats['records'] += 1
                    tag = rec[1]
                    seen.add(tag)
                    step = comp.meta.get(tag)

                    def add(field, expected, actual, rec=rec, step=step):
                        failures.append({'run': rix, 'step': step, 'operands': [spec_safe(s) for s in rec[2]], 'field': field, 'expected': expected, 'actual': actual})

                    def model(request, got, pick, rec=rec, step=step):
                        mcases.append(({'step': step, 'operands': [spec_safe(s) for s in rec[2]]}, got, request, pick))
                    try:
                        h_check_record(rec, step, add, model)
                    except Exception as exc:  # pylint: disable=broad-except
                        add('the observation has the expected shape', 'a record', f'{type(exc).__name__}: {exc}'[:200])
                if not aborted:
                    for tag in expected_tags:
                        if tag not in seen:
                            failures.append({'run': rix, 'step': comp.meta.get(tag), 'field': 'the observation step produced a record', 'expected': 'a record', 'actual': None})
        finally:
            if tz_changed:
                if old_tz is None:
                    os.environ.pop('TZ', None)
                else:
                    os.environ['TZ'] = old_tz
                time.tzset()
        return failures, mcases, stats


def h_wrap(v, n):
    for _ in range(n):
        v = [v]
    return v


def h_poison(p):
    """a fresh poison element: no comparison in which it takes part returns"""
    if p == 'deep':
        return h_wrap([], H_DEEP)                                               # RecursionError (needs a 'deep' partner at the same place)
    if p == 'dtmax':
        return datetime.datetime.max.replace(tzinfo=tz(-23 * 60))               # OverflowError in value_normalize_datetime (known finding F36)
    if p == 'dtmin':
        return datetime.datetime.min.replace(tzinfo=tz(23 * 60))
    if p == 'raisestr':
        return HRaiseStr('a')                                                   # ValueError from the host value's own comparison
    raise ValueError(p)


def h_is_poison(x):
    return type(x) is HRaiseStr or (isinstance(x, datetime.datetime) and x.tzinfo is not None and (x.year <= 1 or x.year >= 9999))  # pylint: disable=unidiomatic-typecheck


def h_snap(v, limit=100):
    """a deep copy of the current value of a variable for the oracles (sharing preserved) - or H_POISONED when a poison element is inside
    (nested deeper than `limit`, an aware datetime at the edge of the range, a host value that refuses comparison)"""
    stack = [(v, 0)]
    seen = set()
    while stack:
        x, d = stack.pop()
        if d > limit or h_is_poison(x):
            return H_POISONED
        if isinstance(x, (list, dict)):
            if id(x) in seen:
                continue
            seen.add(id(x))
            stack.extend((y, d + 1) for y in (x.values() if isinstance(x, dict) else x))
    return copy.deepcopy(v)


def _host_cmp(im, sgn, args, options):  # pylint: disable=unused-argument
    return sgn * im.value.value_compare(args[0], args[1])


class HCmp:
    """a callable host object used as a compare function"""

    def __init__(self, im, sgn):
        self.im = im
        self.sgn = sgn

    def __call__(self, args, options=None, *rest, **kwargs):  # pylint: disable=keyword-arg-before-vararg
        return self.sgn * self.im.value.value_compare(args[0], args[1])

    def method(self, args, options):  # pylint: disable=unused-argument
        return self.sgn * self.im.value.value_compare(args[0], args[1])


H_KEYS = ['a', 'b', 'c']
H_ZONES = ['America/New_York', 'Asia/Kolkata', 'UTC']


def h_scalars():
    d = datetime.datetime
    return [None, True, False, 0, 1, 2, 5, 1.0, 2.0, 0.5, -1, 'a', 'b', '', datetime.date(2020, 1, 1), d(2020, 1, 1), d(2020, 1, 1, tzinfo=UTC),
            d(2020, 1, 1, 1, tzinfo=tz(60)), d(2020, 1, 2)]


def h_host_scalars():
    return [HInt(1), HFloat(1.0), Color.RED, Color.GREEN, HStr('a'), Name.A, Name.B, HDate(2020, 1, 1), HDateTime(2020, 1, 1, tzinfo=UTC)]


def h_value(rng, kind, hostish, depth=1):
    sc = h_scalars()[:14] if rng.random() < 0.8 else h_scalars()
    if hostish and rng.random() < 0.4:
        sc = h_host_scalars()

    def member():
        if depth > 0 and rng.random() < 0.25:
            return h_value(rng, rng.choice(['obj', 'arr']), hostish, depth - 1)
        return rng.choice(sc[:8]) if rng.random() < 0.6 else rng.choice(sc)
    if kind == 'sc':
        return rng.choice(sc)
    if kind == 'rows':
        out = [{k: (rng.choice(sc[:8]) if rng.random() < 0.7 else rng.choice(sc)) for k in rng.sample(H_KEYS, rng.choice([1, 2, 3]))} for _ in range(rng.choice([2, 3, 4]))]
        if rng.random() < 0.2:
            out.insert(rng.randrange(len(out) + 1), rng.choice([1, 'a', None, [1]]))
        return out
    if kind == 'strs':
        return [rng.choice(['a', 'b', '', 'a', 1, 1.0, True, None]) for _ in range(rng.choice([2, 3, 4]))]
    if kind == 'arr':
        out = [member() for _ in range(rng.choice([0, 1, 2, 2, 3]))]
        return HList(out) if hostish and rng.random() < 0.3 else out
    keys = rng.sample(H_KEYS, rng.choice([1, 2, 2, 3]))
    out = {k: member() for k in keys}
    if hostish and rng.random() < 0.4:
        out = rng.choice([HDict, collections.OrderedDict, lambda d: collections.defaultdict(list, d)])(out)
    return out


class HGen:
    """Random histories from motifs; the motif 'reobs' (observe, mutate, observe the same variables again) is the core."""

    def __init__(self, rng, hostish=False, zones=(), poison=0.0):
        self.rng = rng
        self.poison = poison        # probability that a motif is the poisoned-containers motif (0: the generator draws exactly as before)
        self.hostish = hostish
        self.zones = list(zones)
        self.consts = []
        self.kinds = {}
        self.nvars = rng.choice([3, 4, 4, 5])

    def const(self, v):
        s = spec(v)
        for i, c in enumerate(self.consts):
            if c == s:
                return i
        self.consts.append(s)
        return len(self.consts) - 1

    def new(self, i, like=None):
        rng = self.rng
        if like is not None and rng.random() < 0.5:
            self.kinds[i] = self.kinds[like[1]]
            return ['new', i, like[2], rng.choice(['val', 'lit', 'json'])]
        # the first variables always cover the kinds: two objects, an array of scalars / a mixed array, an array of rows / ...
        template = ['obj', 'obj', rng.choice(['strs', 'strs', 'arr']), rng.choice(['rows', 'rows', 'arr', 'obj'])]
        kind = template[i] if i < len(template) and i not in self.kinds else rng.choice(['obj', 'obj', 'obj', 'obj', 'arr', 'arr', 'rows', 'strs', 'sc'])
        value = h_value(rng, kind, self.hostish)
        self.kinds[i] = kind
        return ['new', i, self.const(value), rng.choice(['val', 'val', 'lit', 'json'])]

    def scalar_operand(self):
        return ['c', self.const(self.rng.choice(['a', 'b', '', 1, 1.0, 0, True, None, 2, 5]))]

    def mutate(self, i=None):
        rng = self.rng
        if i is None:
            i = rng.randrange(self.nvars)
        kind = self.kinds.get(i, 'sc')
        lower = list(range(i))
        if kind == 'obj':
            r = rng.random()
            if r < 0.6 or (not lower and r < 0.85):
                return ['set', i, rng.choice(H_KEYS), self.const(h_value(rng, rng.choice(['sc', 'sc', 'sc', 'arr', 'obj']), self.hostish, 0))]
            if r < 0.85:
                return ['setv', i, rng.choice(H_KEYS), rng.choice(lower)]
            return ['del', i, rng.choice(H_KEYS)]
        if kind in ('rows', 'arr') and rng.random() < (0.4 if kind == 'rows' else 0.12):
            return ['setin', i, rng.choice([0, 0, 1, 2]), rng.choice(H_KEYS), self.const(h_value(rng, 'sc', self.hostish, 0))]
        if kind == 'rows':
            r = rng.random()
            if r < 0.3:
                return ['push', i, self.const(h_value(rng, 'obj', self.hostish, 0) if rng.random() < 0.7 else rng.choice([1, 'a', None]))]
            if r < 0.6:
                return ['aset', i, rng.choice([0, 1, 2]), self.const(h_value(rng, 'obj', self.hostish, 0))]
            if r < 0.8 and lower:
                return ['pushv', i, rng.choice(lower)]
            return ['pop', i]
        if kind == 'strs':
            r = rng.random()
            fam = ['a', 'b', '', 'a', 'b', 1, 1.0, True, None, 2]
            if r < 0.6:
                return ['aset', i, rng.choice([0, 0, 1, 1, 2, 3]), self.const(rng.choice(fam))]
            if r < 0.8:
                return ['push', i, self.const(rng.choice(fam))]
            return ['pop', i]
        if kind == 'arr':
            r = rng.random()
            if r < 0.35:
                return ['push', i, self.const(h_value(rng, 'sc', self.hostish, 0))]
            if r < 0.7:
                return ['aset', i, rng.choice([0, 0, 1, 2]), self.const(h_value(rng, rng.choice(['sc', 'sc', 'arr', 'obj']), self.hostish, 0))]
            if r < 0.85 and lower:
                return ['pushv', i, rng.choice(lower)]
            return ['pop', i]
        return self.new(i)

    def vars_(self, k, prefer=None):
        rng = self.rng
        out = []
        prefer = {'arr': ('arr', 'rows', 'strs'), 'rows': ('rows',), 'obj': ('obj',), 'strs': ('strs',)}.get(prefer)
        for _ in range(k):
            if prefer is not None and rng.random() < 0.7:
                cand = [i for i in range(self.nvars) if self.kinds.get(i) in prefer]
                if cand:
                    out.append(rng.choice(cand))
                    continue
            out.append(rng.randrange(self.nvars))
        return out

    def mask(self, heal=0.12):
        rng = self.rng
        m = 0
        for bit in (1, 2, 4, 8):
            if rng.random() < 0.6:
                m |= bit
        if rng.random() < heal:
            m |= 16
        return m or 3

    def obs(self, vs=None):
        rng = self.rng
        if vs is None:
            vs = self.vars_(rng.choice([2, 2, 3]), rng.choice(['obj', 'obj', 'arr', None]))
            if rng.random() < 0.12:
                vs[rng.randrange(len(vs))] = self.scalar_operand()
        return ['obs', vs, self.mask()]

    def fault(self, kind=None):
        rng = self.rng
        kind = kind or rng.choice(H_FAULTS)
        step = ['fault', kind, self.vars_(rng.choice([1, 2, 3]), 'obj'), rng.choice([1, 2, 3, 4, 6])]
        arrs = [i for i in range(self.nvars) if self.kinds.get(i) in ('arr', 'rows', 'strs')]
        if arrs and rng.random() < 0.3:
            step.append(rng.choice(arrs))       # the failing call works on a persisting array variable (a later retry sees the same array)
        return step

    def poisoned(self):
        """Two (or four) persisting containers that start as equal copies get a poison element at the same place; consumers run on the
        variables themselves and fail; the poison is overwritten in place with ordinary, mostly different, values; every consumer is
        observed again on the SAME container objects in both operand orders."""
        rng = self.rng
        shape = rng.choice(['arr', 'arr', 'obj', 'obj', 'wrap'] + (['nested', 'nested', 'rows'] if self.nvars >= 4 else []) + ['holder'])
        i, j = (0, 1) if shape in ('nested', 'rows', 'holder') else sorted(rng.sample(range(self.nvars), 2))
        if rng.random() < 0.5 and shape not in ('nested', 'rows', 'holder'):
            i, j = j, i
        fam = rng.choice([[1, 2, 3, 1.0], ['a', 'b', 'c', ''], [1, 'a', None, True], [0, 1, 2, 5]])
        steps = []
        if shape in ('obj', 'rows') or (shape in ('nested', 'holder') and rng.random() < 0.5):
            base = {k: rng.choice(fam) for k in rng.sample(H_KEYS, rng.choice([1, 2, 3]))}
            where = rng.choice(H_KEYS)
            kind = 'obj'
        else:
            base = [rng.choice(fam) for _ in range(rng.choice([1, 1, 2, 3]))]
            where = rng.choice(list(range(len(base))) + ['push'])
            kind = 'strs'
        if shape == 'wrap':
            where = 'wrap'
            kind = 'arr'
        c = self.const(base)
        for v in (i, j):
            steps.append(['new', v, c, rng.choice(['val', 'val', 'lit', 'json'])])
            self.kinds[v] = kind
        # the poison (both sides, or one side and a partner of the same type on the other)
        p = 'deep' if shape == 'wrap' else rng.choice(H_POISONS)
        partner = {'dtmax': datetime.datetime(2024, 2, 29, 12), 'dtmin': datetime.date(2020, 1, 1), 'raisestr': 'b'}.get(p)

        def put(v, value_const):
            if where == 'push':
                return ['push', v, value_const]
            return ['set' if isinstance(where, str) else 'aset', v, where, value_const]
        first, second = (i, j) if rng.random() < 0.5 else (j, i)
        steps.append(['poison', first, where, p])
        steps.append(['poison', second, where, p] if partner is None or rng.random() < 0.5 else put(second, self.const(partner)))
        # holders: the containers are met further down in the comparison of other persisting containers
        outer = [i, j]
        invar = None
        if shape in ('nested', 'rows'):
            hk = rng.choice(H_KEYS)
            hc = self.const({} if rng.random() < 0.5 else {hk: 0, 'id': 7})
            for v, inner in ((2, i), (3, j)):
                steps += [['new', v, hc, rng.choice(['val', 'lit'])], ['setv', v, hk, inner]]
                self.kinds[v] = 'obj'
            outer = [2, 3]
        elif shape == 'holder':
            steps += [['new', 2, self.const([]), 'val'], ['pushv', 2, j], ['pushv', 2, i]]
            if rng.random() < 0.5:
                steps.append(['pushv', 2, j])
            self.kinds[2] = 'arr'
            invar = 2
        # the failing consumers
        for _ in range(rng.choice([1, 1, 2, 3])):
            fk = rng.choice(H_PFAULTS)
            vs = list(outer) if rng.random() < 0.7 else [i, j]
            if rng.random() < 0.5:
                vs.reverse()
            steps.append(['fault', fk, vs, 1] + ([invar] if invar is not None and fk in ('psortvar', 'pidxvar', 'psort') else []))
        # the poison is overwritten in place
        x, y = rng.sample(fam, 2) if rng.random() < 0.85 else [fam[0], fam[0]]
        for v, val in ((i, x), (j, y)):
            if where == 'wrap':
                steps.append(['aset', v, 0, self.const(val)])
            elif where == 'push':
                steps.append(['pop', v])
                if rng.random() < 0.7:
                    steps.append(['push', v, self.const(val)])
                elif kind == 'strs':
                    steps.append(['aset', v, 0, self.const(val)])
            else:
                steps.append(put(v, self.const(val)))
        # every consumer again on the same objects, both operand orders
        pairs = [[i, j], [j, i]] + ([[outer[0], outer[1]], [outer[1], outer[0]]] if outer != [i, j] else [])
        rng.shuffle(pairs)
        for pr in pairs:
            steps.append(['obs', pr, 31 if rng.random() < 0.7 else self.mask(0.5)])
        if shape == 'rows':
            steps += [['dsort', [2, 3], [[hk]]], ['dsort', [3, 2], [[hk, True], ['id']]]]
        if kind == 'obj' and rng.random() < 0.5:
            steps += [['dsort', [i, j], [[where]]], ['dsort', [j, i], [[where, True]]]]
        if invar is not None:
            steps += [['idxin', invar, i], ['idxin', invar, j], ['sortvar', invar] + ([rng.choice(sorted(H_OKFNS))] if rng.random() < 0.3 else []),
                      ['idxin', invar, i]]
        if rng.random() < 0.5:
            # a second change of one side: the order of the pair flips / a tie appears
            v = rng.choice([i, j])
            if where == 'wrap' or (kind == 'strs' and where != 'push'):
                steps.append(['aset', v, 0 if where == 'wrap' else where, self.const(rng.choice(fam))])
            elif kind == 'obj':
                steps.append(['set', v, where, self.const(rng.choice(fam))])
            else:
                steps.append(['push', v, self.const(rng.choice(fam))])
            steps += [['obs', [i, j], 31], ['obs', [j, i], 31]]
        return steps

    def motif(self, first):
        rng = self.rng
        if self.poison and rng.random() < self.poison:
            return self.poisoned()
        r = rng.random()
        if r < (0.55 if first else 0.2):
            f = self.fault()
            steps = [f]
            if len(f) > 4 and rng.random() < 0.7:
                # the failing call worked on a persisting array: try again on the SAME array with a good compare function / none
                if self.kinds.get(f[4]) == 'rows' and rng.random() < 0.6:
                    steps.append(['dsortvar', f[4], [[k] for k in rng.sample(H_KEYS, 2)]])
                else:
                    steps.append(['sortvar', f[4]] + ([rng.choice(sorted(H_OKFNS))] if rng.random() < 0.7 else []))
            return steps
        r = rng.random()
        if r < 0.16:
            # observe - mutate an operand - the SAME observation again, for the consumers that are steps of their own
            kind = rng.choice(['dsort', 'dsort', 'dsortvar', 'dsortvar', 'sortvar', 'sortvar', 'rsort'])
            sorts = [[k] + ([rng.random() < 0.5] if rng.random() < 0.7 else []) for k in rng.sample(H_KEYS, rng.choice([1, 2, 2]))]
            if kind == 'dsort':
                x = ['dsort', self.vars_(rng.choice([2, 3, 4]), 'obj'), sorts]
                targets = x[1]
            elif kind == 'dsortvar':
                x = ['dsortvar', self.vars_(1, 'rows')[0], sorts]
                targets = [x[1]]
            elif kind == 'sortvar':
                x = ['sortvar', self.vars_(1, 'arr')[0]] + ([rng.choice(sorted(H_OKFNS))] if rng.random() < 0.4 else [])
                targets = [x[1]]
            else:
                x = ['rsort', self.vars_(rng.choice([2, 3, 4])), rng.choice(sorted(H_OKFNS))]
                targets = x[1]
            steps = [x]
            for _ in range(rng.choice([1, 1, 2])):
                steps.append(self.mutate(rng.choice(targets)))
            steps.append(list(x))
            return steps
        if r < 0.24:
            # the same, for a search in a persisting array variable: search, change the array or the needle, search again
            x = rng.randrange(self.nvars) if rng.random() < 0.5 else self.scalar_operand()
            arr = self.vars_(1, 'strs' if isinstance(x, list) else 'arr')[0]
            steps = [['idxin', arr, x]]
            for _ in range(rng.choice([1, 1, 2])):
                steps.append(self.mutate(arr if isinstance(x, list) else rng.choice([arr, arr, x])))
            steps.append(['idxin', arr, x])
            return steps
        if r < 0.5:
            o = self.obs()
            steps = [o]
            for _ in range(rng.choice([1, 1, 2])):
                steps.append(self.mutate(rng.choice([i for i in o[1] if not isinstance(i, list)] or [0])))
            steps.append(['obs', list(o[1]), self.mask()])
            return steps
        if r < 0.56:
            return [self.obs()]
        if r < 0.64:
            return [self.mutate()]
        if r < 0.68:
            return [['rsort', self.vars_(rng.choice([2, 3, 4])), rng.choice(sorted(H_OKFNS))]]
        if r < 0.74:
            return [['dsort', self.vars_(rng.choice([2, 3, 4]), 'obj'), [[k] + ([rng.random() < 0.5] if rng.random() < 0.7 else []) for k in rng.sample(H_KEYS, rng.choice([1, 2]))]]]
        if r < 0.77:
            return [['sortvar', self.vars_(1, 'arr')[0]] + ([rng.choice(sorted(H_OKFNS))] if rng.random() < 0.5 else [])]
        if r < 0.8:
            return [['dsortvar', self.vars_(1, 'rows')[0], [[k] + ([rng.random() < 0.5] if rng.random() < 0.7 else []) for k in rng.sample(H_KEYS, rng.choice([1, 2]))]]]
        if r < 0.86:
            return [['idxin', self.vars_(1, 'arr')[0], rng.randrange(self.nvars) if rng.random() < 0.6 else self.scalar_operand()]]
        if r < 0.93:
            i = self.vars_(1, 'obj')[0]
            mut = ['set', i, rng.choice(H_KEYS), self.const(h_value(rng, 'sc', self.hostish, 0))] if self.kinds.get(i, 'obj') == 'obj' \
                else ['aset', i, 0, self.const(h_value(rng, 'sc', self.hostish, 0))]
            return [['isort', mut, ['obs', [i, rng.randrange(self.nvars)], self.mask(0) & 15 or 3]]]
        return [self.new(rng.randrange(self.nvars))]

    def history(self):
        rng = self.rng
        runs = []
        nruns = rng.choice([1, 1, 2, 2, 3])
        first = True
        for r in range(nruns):
            steps = []
            if r == 0:
                prev = None
                for i in range(self.nvars):
                    st = self.new(i, prev if i == 1 else None)      # v1 often starts as an equal copy of v0
                    steps.append(st)
                    prev = st
            run = {'mode': rng.choice(['script', 'script', 'expr']), 'options': rng.choice(['reuse', 'reuse', 'fresh']), 'maxs': MAXS,
                   'builtins': rng.random() < 0.7, 'tz': rng.choice(self.zones) if self.zones and rng.random() < 0.08 else None}
            if r > 0 or rng.random() < 0.5:
                if rng.random() < 0.12:
                    # a run that is aborted by the statement limit somewhere inside a sort with a script compare function
                    run['mode'] = 'script'
                    run['maxs'] = len(steps) + rng.choice([3, 8, 15, 30, 60])
                    steps.append(self.obs())
                    steps.append(self.fault(rng.choice(['slow', 'nestedfault', 'sloppy'])))
                    steps.append(self.obs())
                    run['steps'] = steps
                    runs.append(run)
                    first = False
                    continue
            for _ in range(rng.choice([2, 3, 4, 5, 6])):
                steps.extend(self.motif(first))
                first = False
            run['steps'] = steps
            runs.append(run)
        return {'consts': self.consts, 'runs': runs}


def directed_histories():
    """Every fault kind x {same run, next run} x {script, expr} x {reused, fresh options}: equal objects o, p; the fault with o, p inside the
    failing call; observe; mutate o; observe again; make o equal to a third object; observe; mutate p; observe; only then a successful sort."""
    out = []
    consts = [spec({'a': 1, 'b': 5}), spec(2), spec({'a': 2, 'b': 5}), spec(9), spec([1, {'a': 1}]), spec(7),
              spec(['a', 'b', 1, 'a', 2, 1]), spec('a'), spec('b'), spec([{'a': 2, 'b': 1}, {'a': 1, 'b': 2}, 1, {'a': 1, 'b': 1}]), spec(1)]
    for kind in H_FAULTS:
        for variant in range(8):
            mode = 'script' if variant & 1 == 0 else 'expr'
            split = bool(variant & 2)
            options = 'reuse' if variant & 4 == 0 else 'fresh'
            if kind == 'slow' and not (mode == 'script'):
                continue
            setup = [['new', 0, 0, 'lit'], ['new', 1, 0, 'val'], ['new', 3, 4, 'val']]
            fault = [['fault', kind, [0, 1, 3], 2 + variant % 3]]
            rest = [['obs', [0, 1], 15], ['set', 0, 'a', 1], ['obs', [0, 1], 15], ['new', 2, 2, 'json'], ['obs', [0, 2], 15], ['set', 1, 'a', 3],
                    ['obs', [0, 1], 15], ['obs', [1, 2, 0], 15], ['aset', 3, 0, 5], ['idxin', 3, 0], ['obs', [3, 3], 7], ['pushv', 3, 0],
                    ['pushv', 3, 1], ['set', 1, 'c', 5], ['idxin', 3, 1], ['obs', [2, 1, 0], 31],
                    # a persisting array of scalars: search, overwrite in place (same length), search again; sort it with a failing compare
                    # function, then again with a good one and with none
                    ['new', 4, 6, 'val'], ['idxin', 4, ['c', 7]], ['idxin', 4, ['c', 10]], ['aset', 4, 0, 8], ['idxin', 4, ['c', 7]], ['idxin', 4, ['c', 8]],
                    ['aset', 4, 2, 8], ['idxin', 4, ['c', 10]], ['obs', [['c', 7], ['c', 8]], 15], ['fault', kind, [0, 1], 2, 4], ['sortvar', 4, 'c11rev'],
                    ['sortvar', 4, 'c11hostobj'], ['sortvar', 4], ['idxin', 4, ['c', 7]],
                    # a persisting array of rows with a non-object row: dataSort fails; remove the row; dataSort again
                    ['new', 5, 9, 'val'], ['dsortvar', 5, [['a'], ['b', True]]], ['fault', 'dsrow', [0], 1, 5], ['aset', 5, 2, 0], ['dsortvar', 5, [['a'], ['b', True]]],
                    ['setin', 5, 0, 'a', 3], ['dsortvar', 5, [['a'], ['b', True]]], ['setin', 5, 2, 'b', 3], ['dsortvar', 5, [['a'], ['b', True]]],
                    ['dsort', [0, 1, 2], [['a'], ['b']]], ['set', 0, 'a', 5], ['dsort', [0, 1, 2], [['a'], ['b']]], ['set', 2, 'b', 10], ['dsort', [0, 1, 2], [['a'], ['b']]],
                    ['fault', kind, [0, 1], 2, 5], ['dsortvar', 5, [['b'], ['a']]], ['sortvar', 5], ['sortvar', 5, 'c11fwd']]
            run = {'mode': mode, 'options': options, 'maxs': MAXS, 'builtins': True, 'tz': None}
            if kind == 'slow':
                runs = [dict(run, steps=setup + [['obs', [0, 1], 15]] + fault, maxs=12 + variant), dict(run, steps=rest)]
            elif split:
                runs = [dict(run, steps=setup + [['obs', [0, 1], 3]] + fault), dict(run, steps=rest)]
            else:
                runs = [dict(run, steps=setup + [['obs', [0, 1], 3]] + fault + rest)]
            out.append({'consts': consts, 'runs': runs})
    return out


def directed_poison_histories():
    """Every poison x {array element, pushed element, object member, object inside object, array inside object, both inside a persisting
    array, the variable itself nested beyond the limit (host-built / built by a script loop)} x every failing consumer (H_PFAULTS) x
    {script, expr} x {same run, next run on fresh options}: equal copies x, y; poison at the same place; the consumer fails on the variables
    themselves; the poison is overwritten in place by 1 / 2; all consumers in both operand orders; x is changed again so that the order flips;
    all consumers again."""
    out = []
    vals = [1, 2, 3]
    arr, obj = [5, 0, 'a'], {'a': 5, 'b': 0, 'c': 'a'}
    consts = [spec(v) for v in vals] + [spec(arr), spec(obj), spec({}), spec([]), spec(datetime.datetime(2024, 2, 29, 12)), spec('b'), spec({'id': 1, 'b': 0}),
                                        spec(datetime.datetime(2024, 2, 29, 11, tzinfo=UTC)), spec(datetime.datetime(2024, 2, 29, 13, 30, tzinfo=tz(150))), spec('a')]
    C_ARR, C_OBJ, C_EARR, C_DT, C_STR, C_ROW, C_AW1, C_AW2, C_STRA = 3, 4, 6, 7, 8, 9, 10, 11, 12
    shapes = ['elem', 'push', 'member', 'objobj', 'arrobj', 'holder', 'wrap', 'wrapscript']
    n = 0
    for shape in shapes:
        for p in (['deep'] if shape == 'wrap' else ['deepscript'] if shape == 'wrapscript' else H_POISONS):
            for fk in H_PFAULTS:
                if fk in ('psortvar', 'pidxvar') and shape != 'holder':
                    continue
                n += 1
                variant = n % 4
                mode = 'script' if variant & 1 == 0 or shape == 'wrapscript' else 'expr'
                split = bool(variant & 2)
                isobj = shape in ('member', 'objobj')
                base = C_OBJ if isobj else C_ARR
                where = {'elem': 1, 'push': 'push', 'member': 'b', 'objobj': 'b', 'arrobj': 1, 'holder': 1}.get(shape, 'wrap')
                setup = [['new', 0, base, 'val'], ['new', 1, base, 'lit' if n % 3 else 'val']]
                partner = {'dtmax': C_DT, 'dtmin': C_DT, 'raisestr': C_STR}.get(p)

                def put(v, c, where=where, isobj=isobj):
                    return ['push', v, c] if where == 'push' else ['set' if isobj else 'aset', v, where if where != 'wrap' else 0, c]
                setup.append(['poison', n % 2, where, p])
                setup.append(['poison', 1 - n % 2, where, p] if partner is None or n % 5 < 2 else put(1 - n % 2, partner))
                outer, invar = [0, 1], None
                if shape in ('objobj', 'arrobj'):
                    setup += [['new', 2, C_ROW, 'val'], ['setv', 2, 'a', 0], ['new', 3, C_ROW, 'lit'], ['setv', 3, 'a', 1]]
                    outer = [2, 3]
                elif shape == 'holder':
                    setup += [['new', 2, C_EARR, 'val'], ['pushv', 2, 1], ['pushv', 2, 0], ['pushv', 2, 1]]
                    invar = 2
                # a bystander: a container that is never poisoned takes part in the failing call (its comparisons succeed before the call fails)
                if shape in ('objobj', 'arrobj'):
                    setup += [['new', 4, C_ROW, 'val'], ['set', 4, 'a', base]]
                    change4 = [['set', 4, 'id', 2]]
                else:
                    setup.append(['new', 4, base, 'val'])
                    change4 = [['push', 4, 2]] if where == 'push' else [put(4, 2)]
                vs = (list(outer) if n % 7 else list(reversed(outer))) + [4]
                fault = [['fault', fk, vs, 1] + ([invar] if invar is not None and fk in ('psortvar', 'pidxvar') else [])]
                heal = ([['pop', 0], ['pop', 1]] if where == 'push' else []) + [put(0, 0), put(1, 1)] + change4
                pairs = [[0, 1], [1, 0]] + ([[outer[0], outer[1]], [outer[1], outer[0]]] if outer != [0, 1] else []) + [[outer[0], 4], [4, outer[1]]]
                if n % 2:
                    pairs.reverse()
                look = [['obs', pr, 31] for pr in pairs]
                # ... and the comparison of unrelated values of the poison's type is what it was (equal instants in two zones, a naive one, strings)
                look += [['obs', [['c', C_AW1], ['c', C_AW2]], 15], ['obs', [['c', C_AW2], ['c', C_DT]], 15], ['obs', [['c', C_STRA], ['c', C_STR]], 15]]
                if shape in ('objobj', 'arrobj'):
                    look += [['dsort', [2, 3, 4], [['a']]], ['dsort', [4, 3, 2], [['a', True], ['id']]]]
                if shape == 'member':
                    look += [['dsort', [0, 1, 4], [['a'], ['b']]], ['dsort', [4, 1, 0], [['b', True], ['c']]]]
                # the very calls that failed, again, before anything else (same arguments in the same order: the bystander first)
                again = [['dsort', vs[-1:] + vs[:-1], [['a'], ['b', True], ['c']]]] if isobj or shape == 'arrobj' else []
                look = again + [['obs', vs[-1:] + vs[:-1], 31]] + look
                if invar is not None:
                    look += [['idxin', 2, 0], ['idxin', 2, 1], ['sortvar', 2], ['idxin', 2, 0]]
                flip = [['pop', 0], put(0, 2)] if where == 'push' else [put(0, 2)]
                rest = heal + look + flip + look
                run = {'mode': mode, 'options': 'reuse', 'maxs': 3 * MAXS if shape == 'wrapscript' else MAXS, 'builtins': True, 'tz': None}
                if split:
                    runs = [dict(run, steps=setup + fault), dict(run, steps=rest, options='fresh' if n % 8 >= 4 else 'reuse')]
                else:
                    runs = [dict(run, steps=setup + fault + rest)]
                out.append({'consts': consts, 'runs': runs})
    return out


def history_fails(hist):
    """Run one history on the working tree; True if an observation contradicts the reference comparison."""
    failures, _m, _s = HistoryRunner(Impl()).run(hist)
    return bool(failures)


_H_WORKER = r'''
import json, os, select, signal, sys
sys.path.insert(0, sys.argv[1])
import fw, extract
extract._CACHE['mods'] = extract.fresh_import()
from props import C11


def isolated(h):
    # run one history in a fork of this pristine state
    r, w = os.pipe()
    pid = os.fork()
    if pid == 0:
        code = b'!'
        try:
            os.close(r)
            code = b'1' if C11.history_fails(h) else b'0'
        except BaseException:
            code = b'!'
        finally:
            os.write(w, code)
            os._exit(0)
    os.close(w)
    ready, _, _ = select.select([r], [], [], 30)
    data = os.read(r, 1) if ready else b''
    if not ready:
        os.kill(pid, signal.SIGKILL)
    os.waitpid(pid, 0)
    os.close(r)
    return {b'1': True, b'0': False}.get(data)


req = json.load(sys.stdin)
if req['cmd'] == 'eval':
    json.dump([isolated(h) for h in req['hists']], sys.stdout)
else:
    h = req['hist']
    budget = 400
    changed = True
    while changed and budget > 0:
        changed = False
        for k in C11.h_deletion_keys(h):
            c = C11.h_remove(h, [tuple(k)])
            budget -= 1
            if c['runs'] and isolated(c):
                h = c
                changed = True
                break
            if budget <= 0:
                break
    json.dump(h, sys.stdout)
'''


def _h_worker(req, timeout):
    env = dict(os.environ)
    env.setdefault('BARE_SCRIPT_PY_VERIF', '1')
    try:
        res = subprocess.run([sys.executable, '-c', _H_WORKER, os.path.join(fw.VERIF, 'harness')], input=json.dumps(req), capture_output=True,
                             text=True, timeout=timeout, check=False, env=env)
    except subprocess.TimeoutExpired:
        return None
    if res.returncode != 0:
        return None
    try:
        return json.loads(res.stdout)
    except ValueError:
        return None


def fresh_history_fails(hists, timeout=300):
    """Each history in its OWN fresh interpreter state (a fresh process imports the working tree once, every history then runs in a fork
    of that pristine state) -> [True (fails) | False | None (crashed / timed out)]"""
    if not hists:
        return []
    out = _h_worker({'cmd': 'eval', 'hists': hists}, timeout)
    return out if isinstance(out, list) and len(out) == len(hists) else [None] * len(hists)


def h_remove(hist, keys):
    """the history without the runs ('run', r) / steps (r, s) named in keys"""
    keys = set(keys)
    runs = []
    for r, run in enumerate(hist['runs']):
        if ('run', r) in keys:
            continue
        steps = [st for s, st in enumerate(run['steps']) if (r, s) not in keys]
        if steps:
            runs.append(dict(run, steps=steps))
    return dict(hist, runs=runs)


def h_deletion_keys(hist):
    """one run or one step (coarse first, late steps first)"""
    keys = []
    if len(hist['runs']) > 1:
        keys.extend(('run', r) for r in range(len(hist['runs'])))
    for r, run in enumerate(hist['runs']):
        keys.extend((r, s) for s in range(len(run['steps']) - 1, -1, -1))
    return keys


def h_shrink(hist, timeout=300):
    """Greedy one-removal shrinking (runs, then steps, restarted after every success); every candidate is judged in a fresh interpreter
    state (a fork of a pristine process), never in this, possibly polluted, process."""
    out = _h_worker({'cmd': 'shrink', 'hist': hist}, timeout)
    return out if isinstance(out, dict) and out.get('runs') else hist


def history_stream(ctx, im, budget=None, stop_at_first=False, rng_name='history'):
    st = ctx.stream('history', 'histories in ONE process over ONE globals object: variables holding objects / arrays (nested, shared, host subclasses) are '
                               'observed (snapshot + systemCompare both ways, the six operators, arrayIndexOf / arrayLastIndexOf, mathMin / mathMax, '
                               'arraySort, a random subset each time), mutated (objectSet / objectDelete / arraySet / arrayPush / arrayPop, also from inside a '
                               'compare function during a sort) and observed again, around library calls that FAIL half-way and let the script continue: '
                               'arraySort whose compare function returns null for equal elements / a string / raises / raises at the k-th call / has the '
                               'wrong signature / aborts the run (BareScriptRuntimeError, statement limit), sorts and comparisons of arrays nested beyond '
                               'the recursion limit, NaN inside a sort, dataSort over non-object rows / malformed sort lists, argument errors, nested sorts; '
                               'spread over 1-3 runs (execute_script of a whole text, or statement by statement through evaluate_expression with and without '
                               'builtins) on re-used or fresh options, with an occasional TZ switch. Oracle: every observation equals the reference '
                               'comparison of the snapshots (current values only); model: every observation is also sent to the Lean model (the model '
                               'has no history - that is the point). The failing calls themselves are host-only. POISONED CONTAINERS (implementation-side '
                               'oracle: the Lean model has no process state and cannot express a comparison that does not return): two persisting containers '
                               '(array / object / object inside object / array inside object / both inside a persisting array / the variable itself) that '
                               'start as equal copies get a poison element at the same place - a host timezone-aware datetime within a day of datetime.min / '
                               'datetime.max (the failing comparison itself is known finding F36 and is not judged), an array nested beyond the recursion '
                               'limit (host-built or built by a script loop), a host string whose comparison raises; then a consumer (systemCompare, the six '
                               'operators in either order, arrayIndexOf / LastIndexOf, mathMin / mathMax, arraySort with / without compare function, dataSort, '
                               'arraySort / arrayIndexOf on the persisting array that holds them) FAILS on the variables themselves; the poison is overwritten '
                               'IN PLACE (arraySet / arrayPop + arrayPush / objectSet) so that the containers differ; every consumer is observed again on '
                               'the SAME objects in BOTH operand orders (antisymmetry, agreement with the reference comparison, == / != consistency, sort '
                               'ordered), the order is flipped by another in-place change and observed again. non-trivial = the history has a '
                               'fault before an observation')
    runner = HistoryRunner(im)
    rng = ctx.rng(rng_name)
    zones = [z for z in H_ZONES if os.path.exists(os.path.join('/usr/share/zoneinfo', z))]
    hists = []
    for c in load_corpus():
        if c.get('kind') == 'history':
            hists.append(('corpus', c['history']))
    hists.extend(('directed', h) for h in directed_histories())
    dpois = directed_poison_histories()
    if budget is not None:
        prng0 = ctx.rng(rng_name + '-poison-pick')
        dpois = prng0.sample(dpois, min(len(dpois), 120))
    hists.extend(('directed-poison', h) for h in dpois)
    nrand = budget if budget is not None else ctx.scale(1200, 30000)
    for k in range(nrand):
        hists.append(('random', HGen(rng, hostish=(k % 4 == 3), zones=zones).history()))
    prng = ctx.rng(rng_name + '-poison')
    npois = budget // 4 if budget is not None else ctx.scale(300, 6000)
    for k in range(npois):
        hists.append(('random-poison', HGen(prng, hostish=(k % 4 == 3), zones=zones, poison=0.35).history()))
    mcases = []
    mcap = ctx.scale(25000, 150000)     # observations sent to the model (the reference oracle runs on all of them)
    failed = []
    recent = []
    totals = {'records': 0, 'aborted': 0, 'steps': 0}
    for origin, hist in hists:
        failures, mc, stats = runner.run(hist)
        for k in stats:
            totals[k] += stats[k]
        kinds = [s[1] for run in hist['runs'] for s in run['steps'] if s[0] == 'fault']
        pois = [f'poison:{s[3]}@{s[2] if s[2] in ("push", "wrap") else ("member" if isinstance(s[2], str) else "element")}'
                for run in hist['runs'] for s in run['steps'] if s[0] == 'poison']
        totals['poisoned'] = totals.get('poisoned', 0) + int(bool(pois))
        st.case(hist, nontrivial=bool(kinds) and stats['records'] > 0,
                tags=[origin, f'runs{len(hist["runs"])}'] + [f'fault:{k}' for k in kinds] + pois + [f'mode:{run["mode"]}/{run["options"]}' for run in hist['runs']])
        st.evaluations += stats['records']
        if failures:
            failed.append((hist, failures, list(recent)))
            if stop_at_first or len(failed) >= 40:
                break
        elif len(mcases) < mcap:
            mcases.extend(mc)
        recent = (recent + [hist])[-3:]
    st.hist['observations'] = totals['records']
    st.hist['aborted-runs-or-steps'] = totals['aborted']
    st.hist['histories-with-poisoned-containers'] = totals.get('poisoned', 0)
    ctx.notes.append(f'history: {len(hists)} histories ({sum(1 for o, _ in hists if o == "directed")} directed, {nrand} random, '
                     f'{len(dpois)} directed + {npois} random with poisoned containers), {totals["steps"]} steps, '
                     f'{totals["records"]} observations, {totals["aborted"]} aborted runs/steps, {len(mcases)} observations compared with the model')
    # the model on the observations of the clean histories
    if mcases and ctx.driver is not None:
        resps = ctx.driver.batch([m[2] for m in mcases])
        for (case, got, _req, pick), resp in zip(mcases, resps):
            ctx.compare('history', case, got, pick(resp))
    # failures -> witnesses (the first one is re-established and shrunk in fresh interpreter states)
    for n, (hist, failures, before) in enumerate(failed):
        f = failures[0]
        note = 'as found'
        if n == 0:
            cands = [hist] + [h_concat(before[-k:] + [hist]) for k in range(1, len(before) + 1)]
            verdicts = fresh_history_fails(cands)
            pick = next((c for c, v in zip(cands, verdicts) if v), None)
            if pick is not None:
                hist = h_shrink(pick)
                ff, _m, _s = HistoryRunner(Impl()).run(hist)
                f = ff[0] if ff else f
                note = 'fails in a fresh interpreter; shrunk'
            else:
                note = 'failed in the check process; not reproduced in a fresh interpreter (state left by earlier histories of the stream?)'
        ctx.witness('history', {'oracle': 'history', 'history': hist, 'tz': os.environ.get('TZ', ''), 'note': note, 'failed': shorten_failure(f)},
                    f.get('expected'), f.get('actual'))
    return bool(failed)


def shorten_failure(f):
    return {k: f.get(k) for k in ('run', 'step', 'field', 'operands')}


def h_concat(hists):
    """several histories one after the other as one history (constants renumbered)"""
    consts, runs = [], []
    for h in hists:
        off = len(consts)
        consts.extend(h['consts'])
        for run in h['runs']:
            runs.append(dict(run, steps=[h_shift(s, off) for s in run['steps']]))
    return {'consts': consts, 'runs': runs}


def h_shift(step, off):
    k = step[0]
    if k == 'new':
        return [k, step[1], step[2] + off, step[3]]
    if k in ('set', 'aset'):
        return [k, step[1], step[2], step[3] + off]
    if k == 'push':
        return [k, step[1], step[2] + off]
    if k == 'setin':
        return [k, step[1], step[2], step[3], step[4] + off]
    if k == 'isort':
        return [k] + [h_shift(s, off) for s in step[1:]]
    return step


ORACLES.update({'dataSort-ref': o_data_sort_ref, 'arraySort-ref': o_sort_ref, 'host-base-equivalence': o_host_base})
ORACLES.update({'arraySort-scale': o_sort_scale, 'dataSort-scale': o_data_sort_scale, 'mathMinMax-ref': o_minmax_ref, 'arrayIndexOf-ref': o_index_of_ref})


# ---------------------------------------------------------------------------------------------------------------------
# search / replay
# ---------------------------------------------------------------------------------------------------------------------

def search(ctx):
    """Directed search for a failing input of the property on the implementation: the laws on a fresh, larger pool (all pairs, all
    triples of a sub-pool), then every consumer oracle on tie-rich inputs."""
    im = Impl()
    rng = ctx.rng('search')
    if history_stream(ctx, im, budget=ctx.scale(2500, 20000), stop_at_first=True, rng_name='history-search'):
        return
    pool = build_pool(rng, ctx.scale(260, 500))
    n = len(pool)
    impl = [[im.cmp(a, b) for b in pool] for a in pool]
    for i in range(n):
        if not run_oracle(ctx, im, 'reflexive', pool[i]) or not run_oracle(ctx, im, 'null-least', pool[i]):
            return
        for j in range(n):
            x, y = impl[i][j], impl[j][i]
            if not (is_int(x) and is_int(y) and x in (-1, 0, 1) and x == -y):
                run_oracle(ctx, im, 'antisymmetric', pool[i], pool[j])
                return
            if not run_oracle(ctx, im, 'cross-type-by-name', pool[i], pool[j]):
                return
    st = ctx.stream('search', 'directed search after a broken obligation')
    if triples(ctx, im, st, pool, impl, sorted(rng.sample(range(n), min(n, ctx.scale(120, 200))))):
        return
    classes = equal_classes(pool, impl)
    for _ in range(ctx.scale(3000, 20000)):
        i, j = rng.randrange(n), rng.randrange(n)
        src = rng.choice(classes) + rng.choice(classes) + [pool[i], pool[j]]
        xs = [clone(rng.choice(src)) for _ in range(rng.choice([2, 3, 5, 9, 30, 70]))]
        ok = (run_oracle(ctx, im, 'relops-sign', pool[i], pool[j]) and run_oracle(ctx, im, 'int-float-spelling', pool[i], pool[j])
              and run_oracle(ctx, im, 'key-order', pool[i], pool[j], ('raw', i)) and run_oracle(ctx, im, 'arraySort', xs)
              and run_oracle(ctx, im, 'mathMinMax', xs[:6]) and run_oracle(ctx, im, 'arrayIndexOf', xs, pool[i] if not callable(pool[i]) else None, ('raw', None))
              and run_oracle(ctx, im, 'arrayLastIndexOf', xs, pool[j] if not callable(pool[j]) else None, ('raw', None)))
        if not ok:
            return
        rows = [{'a': rng.choice([None, 1, 1.0, 2, 'a']), 'b': rng.choice([None, 1, 2, 'b']), 'id': k} for k in range(rng.choice([2, 5, 12]))]
        if not run_oracle(ctx, im, 'dataSort', rows, ('raw', [['a', rng.random() < 0.5], ['b', rng.random() < 0.5]])):
            return


def replay(witness):
    im = Impl()
    inp = witness['input']
    zone = inp.get('tz') or None
    old = os.environ.get('TZ')
    try:
        if zone:
            os.environ['TZ'] = zone
            time.tzset()
        if inp['oracle'] == 'script-relops':
            return im.script(inp['text'], {}) != witness['expected']
        if inp['oracle'] == 'history':
            return bool(HistoryRunner(im).run(inp['history'])[0])
        if 'packed_args' in inp:
            inp = dict(inp, args=json.loads(zlib.decompress(base64.b64decode(inp['packed_args'])).decode('ascii')))
        args = [unspec_arg(a) for a in inp['args']]
        try:
            return ORACLES[inp['oracle']](im, *args) is not None
        except Exception:  # pylint: disable=broad-except
            return True
    finally:
        if zone:
            if old is None:
                os.environ.pop('TZ', None)
            else:
                os.environ['TZ'] = old
            time.tzset()
