"""C10 - source layout does not change the parsed program (plus the line scanners / message formatter delivered for C06)."""

import contextlib
import copy
import glob
import hashlib
import itertools
import json
import os
import re
from fractions import Fraction

import fw

ID = 'C10'
LEVEL = 'proof'
LEAN_TARGETS = ['BareProofs.C10Pins', 'BareProofs.C10', 'BareProofs.C06Caret', 'BareProofs.C10Ws']
DRIVER = 'drv_c10'
DRIVER_ROOT = 'Drv.C10'
GEN = ['Regex']
THEOREMS = [
    'C10.patterns_pinned', 'C10.space_not_word',
    'C10.splitLines_no_newline', 'C10.split_join', 'C10.crlf_eq_lf', 'C10.crlf_eq_lf_text',
    'C10.split_chunks_exact', 'C10.chunking_irrelevant', 'C10.chunking_keepends_irrelevant',
    'C10.mirror_eq_spec_lines', 'C10.mirror_eq_spec_lines_string', 'C10.comment_blank_insertion', 'C10.comment_insertion_shift',
    'C10.continuation_join', 'C10.logical_lines_compositional', 'C10.scriptLines_eq', 'C10.scriptLines_chunks',
    'C10.leading_ws_irrelevant_shape', 'C10.leading_ws_irrelevant_stmt', 'C10.leading_ws_irrelevant', 'C10.trailing_ws_irrelevant_partial', 'C10.keyword_line_layout',
    'C06.caret_under_same_char', 'C06.caret_row', 'C06.caret_in_range',
    # BareProofs/C10Ws.lean (+ C10WsLemmas.lean): the layout theorems for the actual expression parser model, unconditional
    'C10.isPySpace_eq_isSpace', 'C10.parseUnary_rel', 'C10.lead_respects', 'C10.gap_respects', 'C10.gap_of_topLevelAt',
    'C10.parseExpr_fuel', 'C10.parseExpr_leading_blanks', 'C10.parseExpr_skips_leading_blanks',
    'C10.leading_ws_irrelevant_parseExpr', 'C10.leading_ws_irrelevant_classify',
    'C10.parseExpr_gap', 'C10.parseExpr_trailing_blanks', 'C10.shape_append_ws', 'C10.trailing_ws_irrelevant',
    'C10.parseExpr_blank_stretch', 'C10.parseExpr_blank_stretch_at', 'C10.classifyL_gap', 'C10.shape_assign_replace',
    'C10.continuation_break_line', 'C10.continuation_break_irrelevant', 'C10.continuation_break_irrelevant_assign',
]
ASSUMPTIONS = [
    'CPython re engine: each anchored statement pattern is re-implemented by a hand-written recogniser (Scan.lean); tied by the '
    'decided pin C10.patterns_pinned on Gen/Regex (the pattern sources the recognisers were written for) + the classify stream',
    'Unicode tables: Text.isSpace (29 code points) and Text.isWord (range table) are those of CPython 3.12 / Unicode 15.0; '
    'compared with re \\s, str.strip() and re \\w for every code point on every run (stream charclass, exhaustive)',
    'Lines contain no "\\n" (theorem C10.splitLines_no_newline): "." / "$" subtleties of re about a final newline never arise',
    'Scan.classify instantiated with ExprParse.parseExpr is compared on every line, non-ASCII word characters and digits included '
    '(ExprScan has the Unicode \\w / \\d: Text.isWord, Rx.digitRanges with the digit values; c06x stream rx-classes compares \\d with re '
    'for every code point)',
    'classify is parametric in parseExpr; the hypothesis SkipsLeadingBlanks of leading_ws_irrelevant is DISCHARGED for the expression parser '
    'model ExprParse.parseExpr (C10.parseExpr_skips_leading_blanks), as are trailing blanks for every statement kind '
    '(C10.trailing_ws_irrelevant; exclusion: a line ending in "=") and the stretching of a blank outside string literals / bracketed '
    'names (C10.parseExpr_gap); through classify the latter is a theorem for assignments and conditional on "the statement pattern '
    'captures the same groups" for the other kinds (C10.classifyL_gap, hypothesis h3)',
]
TRUSTED = ['the regex proxies that record which statement pattern matched (harness, in-process, restored after each stream)']

WS_PLAIN = ['', ' ', '  ', '    ', '\t', '        ', ' \t']
WS_EXOTIC = ['\x0b', '\x0c', '\x1c', '\x1d', '\x1e', '\x1f', '\x85', '\xa0', '\u1680', '\u2000', '\u2003', '\u200a', '\u2028',
             '\u2029', '\u202f', '\u205f', '\u3000', '\r']
COMMENTS = ['', '   ', '\t', '#', '# a comment', '    # indented comment', '# ends with a backslash \\', '#\\', ' \t ', "# 'quote", '# x = 1',
            '# page \x0c break = 2', '# ls \u2028 x = 3', '\x0c', '\x0c# after a form feed', '# cr \r y = 4', '\u2028', '# nel \x85 \\', '\x1e# rs']
BLOCK_ERRORS = {
    'function': 'Missing endfunction statement', 'endfunction': 'No matching function definition', 'if': 'Missing endif statement',
    'elif': 'No matching if statement', 'else': 'No matching if statement', 'endif': 'No matching if statement',
    'while': 'Missing endwhile statement', 'endwhile': 'No matching while statement', 'for': 'Missing endfor statement',
    'endfor': 'No matching for statement', 'break': 'Break statement outside of loop', 'continue': 'Continue statement outside of loop',
}
STATEMENT_REGEXES = [
    ('_R_SCRIPT_ASSIGNMENT', 'assign'), ('_R_SCRIPT_FUNCTION_BEGIN', 'function'), ('_R_SCRIPT_FUNCTION_END', 'endfunction'),
    ('_R_SCRIPT_IF_BEGIN', 'if'), ('_R_SCRIPT_IF_ELSE_IF', 'elif'), ('_R_SCRIPT_IF_ELSE', 'else'), ('_R_SCRIPT_IF_END', 'endif'),
    ('_R_SCRIPT_WHILE_BEGIN', 'while'), ('_R_SCRIPT_WHILE_END', 'endwhile'), ('_R_SCRIPT_FOR_BEGIN', 'for'), ('_R_SCRIPT_FOR_END', 'endfor'),
    ('_R_SCRIPT_BREAK', 'break'), ('_R_SCRIPT_CONTINUE', 'continue'), ('_R_SCRIPT_LABEL', 'label'), ('_R_SCRIPT_JUMP', 'jump'),
    ('_R_SCRIPT_RETURN', 'return'), ('_R_SCRIPT_INCLUDE', 'include'), ('_R_SCRIPT_INCLUDE_SYSTEM', 'include'),
]


# ---------------------------------------------------------------------------------------------------------------------
# The implementation, observed
# ---------------------------------------------------------------------------------------------------------------------

# start lines an embedding application may pass (1-based default, 0-based, offsets into a larger document, negative offsets)
START_LINES = [1, 0, 0, -1, -2, -3, -7, 2, 3, 57, 10 ** 6, -(10 ** 6)]


def P():
    return fw.impl()['parser']


def run_parse(chunks, start=1):
    """parse_script -> ('ok', model) | ('err', error, line, column, lineNumber) | ('exc', class name)"""
    parser = P()
    try:
        return ('ok', parser.parse_script(chunks, start))
    except parser.BareScriptParserError as exc:
        return ('err', exc.error, exc.line, exc.column_number, exc.line_number)
    except Exception as exc:  # pylint: disable=broad-except
        return ('exc', type(exc).__name__)


def run_expr(text):
    parser = P()
    try:
        return ('ok', parser.parse_expression(text))
    except parser.BareScriptParserError as exc:
        return ('err', exc.error, exc.column_number)
    except Exception as exc:  # pylint: disable=broad-except
        return ('exc', type(exc).__name__)


class _Proxy:
    """Stands in for a module-level compiled pattern and records every .match call."""

    def __init__(self, real, name, log):
        self._real = real
        self._name = name
        self._log = log

    def match(self, string, *args):
        m = self._real.match(string, *args)
        self._log.append((self._name, string, m))
        return m

    def __getattr__(self, key):
        return getattr(self._real, key)


@contextlib.contextmanager
def recording(names):
    """Replace parser.<name> by recording proxies; yields the shared log list."""
    parser = P()
    log = []
    saved = {}
    try:
        for name in names:
            saved[name] = getattr(parser, name)
            setattr(parser, name, _Proxy(saved[name], name, log))
        yield log
    finally:
        for name, real in saved.items():
            setattr(parser, name, real)


def impl_logical_lines(chunks):
    """The logical lines the implementation hands to its statement cascade (every one is first offered to the assignment pattern)."""
    with recording(['_R_SCRIPT_ASSIGNMENT']) as log:
        out = run_parse(chunks)
    return [s for _, s, _ in log], out


def impl_shape(line):
    """Which statement pattern matched first for a one-line script, with its groups -> the protocol form of Scan.Shape."""
    parser = P()
    with recording([n for n, _ in STATEMENT_REGEXES]) as log:
        out = run_parse([line])
    offered = [e for e in log if e[0] == '_R_SCRIPT_ASSIGNMENT']
    if len(offered) != 1 or offered[0][1] != line:
        return None, out
    hit = next(((n, m) for n, _, m in log if m is not None), None)
    if hit is None:
        return {'kind': 'expr'}, out
    name, m = hit
    kind = dict(STATEMENT_REGEXES)[name]
    g = m.groupdict()
    shape = {'kind': kind}
    if kind == 'assign':
        shape.update(name=g['name'], off=m.start('expr'), expr=g['expr'])
    elif kind == 'function':
        shape.update(name=g['name'], args=parser._R_SCRIPT_FUNCTION_ARG_SPLIT.split(g['args']) if g['args'] is not None else [],
                     lastArgArray=g['lastArgArray'] is not None, **{'async': g['async'] is not None})
    elif kind in ('if', 'elif', 'while'):
        shape.update(off=m.start('expr'), expr=g['expr'])
    elif kind == 'for':
        shape.update(value=g['value'], index=g['index'], off=m.start('values'), expr=g['values'])
    elif kind == 'label':
        shape.update(name=g['name'])
    elif kind in ('jump', 'return'):
        if kind == 'jump':
            shape.update(name=g['name'])
        if g['expr']:
            shape.update(off=m.start('expr'), expr=g['expr'])
    elif kind == 'include':
        system = name == '_R_SCRIPT_INCLUDE_SYSTEM'
        shape.update(url=g['url'] if system else parser._R_EXPR_STRING_ESCAPE.sub('\\1', g['url']), system=system)
    return shape, out


def expected_single_line_outcome(line, shape):
    """What parse_script([line]) must yield given the MODEL's shape (expression texts parsed by the implementation)."""
    kind = shape['kind']
    if kind == 'elif':
        return ('err', BLOCK_ERRORS[kind], line, 1, 1)    # 'No matching if statement' is raised before the condition is parsed
    etext = line if kind == 'expr' else shape.get('expr')
    off = 0 if kind == 'expr' else shape.get('off', 0)
    expr = None
    if etext is not None:
        res = run_expr(etext)
        if res[0] == 'err':
            return ('err', res[1], line, off + res[2], 1)
        if res[0] == 'exc':
            return res
        expr = res[1]
    if kind in BLOCK_ERRORS:
        return ('err', BLOCK_ERRORS[kind], line, 1, 1)
    if kind == 'assign':
        stmt = {'expr': {'name': shape['name'], 'expr': expr}}
    elif kind == 'expr':
        stmt = {'expr': {'expr': expr}}
    elif kind == 'label':
        stmt = {'label': shape['name']}
    elif kind == 'jump':
        stmt = {'jump': {'label': shape['name']}}
        if expr is not None:
            stmt['jump']['expr'] = expr
    elif kind == 'return':
        stmt = {'return': {} if expr is None else {'expr': expr}}
    else:
        stmt = {'include': {'includes': [{'url': shape['url'], 'system': True} if shape['system'] else {'url': shape['url']}]}}
    return ('ok', {'statements': [stmt]})


def canon_expr(e):
    """Implementation expression model -> protocol form (numbers as exact [num, den])."""
    (k, v), = e.items()
    if k == 'number':
        fr = Fraction(v)
        return {'number': [fr.numerator, fr.denominator]}
    if k in ('string', 'variable'):
        return {k: v}
    if k == 'group':
        return {'group': canon_expr(v)}
    if k == 'unary':
        return {'unary': {'expr': canon_expr(v['expr']), 'op': v['op']}}
    if k == 'binary':
        return {'binary': {'left': canon_expr(v['left']), 'op': v['op'], 'right': canon_expr(v['right'])}}
    return {'function': {'args': [canon_expr(a) for a in v.get('args', [])], 'name': v['name']}}


def round_numbers(e):
    """Model expression (exact decimal value of each literal) -> each literal rounded to the double float(text) yields."""
    if not isinstance(e, dict) or len(e) != 1:
        return e
    (k, v), = e.items()
    if k == 'number':
        fr = Fraction(v[0] / v[1]) if v[1] != 1 else Fraction(float(v[0]))
        return {'number': [fr.numerator, fr.denominator]}
    if k in ('string', 'variable'):
        return e
    if k == 'group':
        return {'group': round_numbers(v)}
    if k == 'unary':
        return {'unary': {'expr': round_numbers(v['expr']), 'op': v['op']}}
    if k == 'binary':
        return {'binary': {'left': round_numbers(v['left']), 'op': v['op'], 'right': round_numbers(v['right'])}}
    return {'function': {'args': [round_numbers(a) for a in v['args']], 'name': v['name']}}


def expected_line(line, shape):
    """The classified line (Line with parsed expressions, or error + column) from the implementation's own groups."""
    kind = shape['kind']
    etext = line if kind == 'expr' else shape.get('expr')
    out = {k: v for k, v in shape.items() if k not in ('off', 'expr')}
    if etext is not None:
        res = run_expr(etext)
        if res[0] == 'err':
            return {'error': res[1], 'column': (0 if kind == 'expr' else shape['off']) + res[2]}
        if res[0] == 'exc':
            return {'exc': res[1]}
        out['expr'] = canon_expr(res[1])
    return out


def jsonable(x):
    return json.loads(json.dumps(x, default=str))


# ---------------------------------------------------------------------------------------------------------------------
# Program generator (grammar-directed; canonical logical lines: no indentation, single blanks between tokens)
# ---------------------------------------------------------------------------------------------------------------------

IDENTS = ['a', 'b', 'c', 'x', 'y', 'i', 'n', 'foo', 'bar_1', '_t', 'value', 'arr', 'ifx', 'returned', 'jumper', 'endifx', 'inn', 'forx', 'e1']
FUNCS = ['arrayNew', 'arrayPush', 'mathMax', 'stringNew', 'f1', 'gg', 'systemLog', 'objectGet']
STR_BODIES = ['', 'abc', 'a b', '  two  blanks ', '#not a comment', 'colon: here:', 'paren ) (', "it\\'s", 'back\\\\', 'x = 1', 'tab\there',
              'jump x', 'endif', ' \\\\', 'http://u/?a=1&b=2', '"dq"', 'ends with escaped backslash \\\\', 'return', "\\'", ' ', '...', '<x>',
              # characters other text APIs treat as line boundaries or blanks (never line ends / token separators inside a literal)
              'ls\u2028ps\u2029', 'ff\x0cvt\x0b', 'rs\x1e gs\x1d fs\x1c', 'nel\x85', 'cr\rmid', 'nbsp\xa0 ideographic\u3000', 'zw\u200b bom\ufeff']
DSTR_BODIES = ['', 'abc', "it's", 'say \\"hi\\"', ' # : ) ', 'a  b']
NUMBERS = ['0', '1', '2', '10', '3.14', '1e+3', '7.', '42']
BINOPS = ['**', '*', '/', '%', '+', '-', '<=', '<', '>=', '>', '==', '!=', '&&', '||']
LABELS = ['lbl', 'top', 'done_1', 'L2']
URLS = ["'lib.bare'", "'a b.bare'", "'it\\'s.bare'", '<args.bare>', '<unittest.bare>', "'http://x/y.bare?z=1'", "'#.bare'", "'x\\\\'"]


def gen_atom(rng):
    r = rng.random()
    if r < 0.35:
        return rng.choice(IDENTS)
    if r < 0.55:
        return rng.choice(NUMBERS)
    if r < 0.85:
        return "'" + rng.choice(STR_BODIES) + "'"
    if r < 0.93:
        return '"' + rng.choice(DSTR_BODIES) + '"'
    return '[' + rng.choice(['a b', 'x', 'odd \\] name']) + ']'


def gen_expr(rng, depth=0):
    r = rng.random()
    if depth >= 3 or r < 0.35:
        return gen_atom(rng)
    if r < 0.62:
        return gen_expr(rng, depth + 1) + ' ' + rng.choice(BINOPS) + ' ' + gen_expr(rng, depth + 1)
    if r < 0.70:
        return rng.choice(['!', '-', '! ', '- ']) + gen_atom(rng)
    if r < 0.88:
        args = [gen_expr(rng, depth + 1) for _ in range(rng.choice([0, 1, 1, 2, 3]))]
        if not args:
            return rng.choice(FUNCS) + rng.choice(['()', '()', ' ()', '( )'])
        return rng.choice(FUNCS) + rng.choice(['(', '(', ' (', '( ']) + ', '.join(args) + rng.choice([')', ')', ' )'])
    return '(' + gen_expr(rng, depth + 1) + ')'


def gen_call(rng):
    args = [gen_expr(rng, 1) for _ in range(rng.choice([0, 1, 2]))]
    return rng.choice(FUNCS) + '(' + ', '.join(args) + ')'


def gen_block(rng, depth, in_loop, top, kinds):
    lines = []
    for _ in range(rng.randint(1, 4 if depth else 6)):
        r = rng.random()
        if r < 0.28:
            kinds.add('assign')
            lines.append(rng.choice(IDENTS) + ' = ' + gen_expr(rng))
        elif r < 0.40:
            kinds.add('call')
            lines.append(gen_call(rng))
        elif r < 0.52 and depth < 3:
            kinds.add('if')
            lines.append('if ' + gen_expr(rng) + ':')
            lines += gen_block(rng, depth + 1, in_loop, False, kinds)
            for _ in range(rng.choice([0, 0, 1, 2])):
                kinds.add('elif')
                lines.append('elif ' + gen_expr(rng) + ':')
                lines += gen_block(rng, depth + 1, in_loop, False, kinds)
            if rng.random() < 0.5:
                kinds.add('else')
                lines.append(rng.choice(['else:', 'else :']))
                lines += gen_block(rng, depth + 1, in_loop, False, kinds)
            lines.append('endif')
        elif r < 0.60 and depth < 3:
            kinds.add('while')
            lines.append('while ' + gen_expr(rng) + ':')
            lines += gen_block(rng, depth + 1, True, False, kinds)
            lines.append('endwhile')
        elif r < 0.68 and depth < 3:
            kinds.add('for')
            head = 'for ' + rng.choice(IDENTS) + (rng.choice([', ', ' , ', ',']) + rng.choice(IDENTS) if rng.random() < 0.4 else '')
            lines.append(head + ' in ' + gen_expr(rng) + ':')
            lines += gen_block(rng, depth + 1, True, False, kinds)
            lines.append('endfor')
        elif r < 0.73 and in_loop:
            kinds.add('break/continue')
            lines.append(rng.choice(['break', 'continue']))
        elif r < 0.79:
            kinds.add('return')
            lines.append('return' if rng.random() < 0.3 else 'return ' + gen_expr(rng))
        elif r < 0.86:
            kinds.add('label/jump')
            lbl = rng.choice(LABELS)
            lines.append(rng.choice([lbl + ':', lbl + ' :', 'jump ' + lbl, 'jumpif (' + gen_expr(rng) + ') ' + lbl]))
        elif r < 0.92 and top:
            kinds.add('include')
            for _ in range(rng.choice([1, 1, 2])):
                lines.append('include ' + rng.choice(URLS))
        elif top:
            kinds.add('function')
            args = rng.sample(IDENTS, rng.choice([0, 1, 2, 3]))
            last = rng.choice(['', '', '...', ' ...']) if args else rng.choice(['', '...'])
            inner = ', '.join(args) + last
            lines.append(rng.choice(['', '', 'async ']) + 'function ' + rng.choice(FUNCS)
                         + (rng.choice(['(', ' (', '( ']) + inner + rng.choice([')', ' )']) if inner.strip() else rng.choice(['()', ' ()', '( )']))
                         + rng.choice([':', ' :']))
            lines += gen_block(rng, depth + 1, False, False, kinds)
            lines.append('endfunction')
        else:
            kinds.add('assign')
            lines.append(rng.choice(IDENTS) + ' = ' + gen_expr(rng))
    return lines


def gen_program(rng):
    kinds = set()
    return gen_block(rng, 0, False, True, kinds), kinds


def break_program(rng, lines):
    """A malformed variant: drop / duplicate / damage one line."""
    lines = list(lines)
    k = rng.randrange(len(lines))
    r = rng.random()
    if r < 0.35:
        del lines[k]
    elif r < 0.55:
        lines[k] = lines[k] + ' ?'
    elif r < 0.75:
        lines[k] = lines[k].replace(':', '', 1) if ':' in lines[k] else '(' + lines[k]
    else:
        lines.insert(k, rng.choice(['endif', 'endwhile', 'else:', 'break', 'endfunction', 'x = (1', "y = 'open"]))
    return lines or ['?']


# ---------------------------------------------------------------------------------------------------------------------
# Layout rewrites
# ---------------------------------------------------------------------------------------------------------------------

def gap_positions(line):
    """Indices of blanks at which the line may be broken: a single space/tab outside string literals and [..] names,
    not inside leading/trailing blanks (conservative tokeniser)."""
    out = []
    quote = None
    i = 0
    n = len(line)
    body_start = n - len(line.lstrip())
    body_end = len(line.rstrip())
    while i < n:
        ch = line[i]
        if quote is not None:
            if ch == '\\' and i + 1 < n and (line[i + 1] == '\\' or line[i + 1] == quote):
                i += 2
                continue
            if ch == quote:
                quote = None
        elif ch in ('"', "'"):
            quote = ch
        elif ch == '[':
            quote = ']'
        elif ch in (' ', '\t') and body_start < i < body_end:
            out.append(i)
        i += 1
    if quote is not None:
        return []
    return out


def physical_lines(rng, logical, *, indent, trailing, breaks, comments_p, break_all=False, break_at=None):
    """Rewrite logical lines into physical lines (no terminators)."""
    out = []

    def filler():
        while rng.random() < comments_p:
            out.append(rng.choice(COMMENTS))

    for ix, line in enumerate(logical):
        filler()
        ind = rng.choice(indent)
        gaps = gap_positions(line)
        if break_at is not None:
            chosen = [gaps[break_at[1] % len(gaps)]] if gaps and break_at[0] == ix else []
        elif break_all:
            chosen = gaps
        else:
            chosen = [g for g in gaps if rng.random() < breaks]
        # drop gaps adjacent to an already chosen one (runs of blanks count once)
        parts = []
        prev = 0
        for g in chosen:
            if g > prev and line[prev:g].strip():
                parts.append(line[prev:g])
                prev = g + 1
        parts.append(line[prev:])
        for k, part in enumerate(parts):
            last = k == len(parts) - 1
            text = (ind if k == 0 else rng.choice(indent)) + (part if k == 0 else part.lstrip())
            if not last:
                text = text.rstrip() + rng.choice([' \\', '\\', '  \\', '\t\\']) + rng.choice(trailing)
            else:
                text = text + rng.choice(trailing)
            out.append(text)
            if not last:
                filler()
    filler()
    return out


def assemble(rng, phys, eol_mode, cuts, final_eol):
    """Join physical lines with terminators and cut into chunks at the chosen boundaries (the terminator at a cut is dropped)."""
    chunks = []
    cur = ''
    for k, line in enumerate(phys):
        cur += line
        if k == len(phys) - 1:
            if final_eol:
                cur += '\n' if eol_mode == 'lf' else '\r\n'
            chunks.append(cur)
        elif k in cuts:
            chunks.append(cur)
            cur = ''
        else:
            cur += '\n' if eol_mode == 'lf' or (eol_mode == 'mixed' and rng.random() < 0.5) else '\r\n'
    return chunks


def cut_sets(rng, n_boundaries, max_cuts, limit):
    """Every set of at most max_cuts cut positions among n_boundaries (sampled down to `limit`)."""
    total = sum(_comb(n_boundaries, k) for k in range(0, max_cuts + 1))
    if total <= limit:
        for k in range(0, max_cuts + 1):
            for cs in itertools.combinations(range(n_boundaries), k):
                yield set(cs)
    else:
        yield set()
        yield set(range(n_boundaries)) if n_boundaries <= max_cuts else set(rng.sample(range(n_boundaries), max_cuts))
        for _ in range(limit - 2):
            k = rng.randint(1, min(max_cuts, n_boundaries))
            yield set(rng.sample(range(n_boundaries), k))


def _comb(n, k):
    if k > n:
        return 0
    r = 1
    for i in range(k):
        r = r * (n - i) // (i + 1)
    return r


def as_container(rng, chunks):
    r = rng.random()
    if len(chunks) == 1 and r < 0.5:
        return 'str', chunks[0]
    if r < 0.6:
        return 'list', list(chunks)
    if r < 0.8:
        return 'tuple', tuple(chunks)
    return 'generator', (c for c in chunks)


def feed(kind, chunks):
    if kind == 'str':
        return chunks[0]
    if kind == 'tuple':
        return tuple(chunks)
    if kind == 'generator':
        return (c for c in chunks)
    return list(chunks)


def same_program(base, other):
    """The layout oracle: identical model; for a rejected program the same error text."""
    if base[0] == 'ok':
        return other[0] == 'ok' and other[1] == base[1]
    return other[0] == base[0] and other[1] == base[1]


# ---------------------------------------------------------------------------------------------------------------------
# Input forms (round 4): the SAME physical lines handed to parse_script as one string, as one chunk per line, as a
# tuple / generator, re-terminated with CRLF / LF, re-grouped into chunks.  "Line boundary" is taken from the property
# text: a line ends at LF or CRLF and nowhere else - in particular not at the characters other text APIs treat as line
# boundaries (VT, FF, FS, GS, RS, NEL, LS, PS, a CR without LF).
# ---------------------------------------------------------------------------------------------------------------------

def ref_lines(text):
    """Reference physical lines, written from the property statement (no regex, no splitlines): cut at every LF, a CR
    immediately before that LF belongs to the terminator."""
    parts = text.split('\n')
    return [p[:-1] if p.endswith('\r') else p for p in parts[:-1]] + [parts[-1]]


def is_plain_line(line):
    """One physical line that is a logical line by itself: not blank, not a comment, not continued (str.strip white space =
    regex white space is compared for every code point by the charclass stream)."""
    return '\n' not in line and line.strip() != '' and not line.lstrip().startswith('#') and not line.rstrip().endswith('\\')


def input_forms(rng, lines, text=None):
    """(how, chunks) - input forms whose physical lines are exactly `lines`"""
    if text is not None:
        yield 'str', [text]
    yield 'tuple', list(lines)
    yield 'generator', list(lines)
    yield 'str', ['\r\n'.join(lines)]
    lf_ok = not any(ln.endswith('\r') for ln in lines[:-1])      # "x\r" + LF would read as a CRLF terminator
    if lf_ok:
        yield 'str', ['\n'.join(lines)]
    if len(lines) > 1:
        # chunks of consecutive lines (terminator dropped at a cut), each chunk alone or the whole as list
        cuts = {k for k in range(len(lines) - 1) if rng.random() < 0.4}
        chunks = []
        cur = ''
        for k, ln in enumerate(lines):
            cur += ln
            if k == len(lines) - 1 or k in cuts:
                chunks.append(cur)
                cur = ''
            else:
                cur += '\n' if lf_ok and rng.random() < 0.5 else '\r\n'
        yield 'list', chunks


def check_input_forms(ctx, rng, lines, text=None):
    """ORACLE input-form: every input form of the same physical lines yields the identical model (same error for a rejected
    program).  Returns the number of forms tried."""
    base = run_parse(list(lines))
    n = 0
    for how, chunks in input_forms(rng, lines, text):
        n += 1
        res = run_parse(feed(how, chunks))
        if not same_program(base, res):
            ctx.witness('input-form', {'lines': list(lines), 'chunks': chunks, 'as': how}, brief(base), brief(res),
                        oracle_detail='one chunk per physical line (list) vs the same lines as ' + how)
    return n


def check_line_atomic(ctx, line):
    """ORACLE only-lf-crlf-end-a-line: a text without LF that is neither blank, comment nor continued is ONE logical line, equal
    to itself, however it is passed (observed: the lines offered to the statement cascade)."""
    for how in ('str', 'list'):
        offered, _ = impl_logical_lines(feed(how, [line]))
        if offered != [line]:
            ctx.witness('only-lf-crlf-end-a-line', {'line': line, 'as': how}, [line], offered)
            return False
    return True


_ALIEN = []


def alien_chars():
    """Every character (LF excluded) that some text API may take for a line boundary or a blank: str.isspace, str.splitlines
    boundaries, Unicode categories Zs / Zl / Zp / Cc / Cf (computed, not listed)."""
    if not _ALIEN:
        import unicodedata
        for c in range(0x110000):
            if 0xd800 <= c < 0xe000 or c == 0x0a:
                continue
            ch = chr(c)
            if ch.isspace() or unicodedata.category(ch) in ('Zs', 'Zl', 'Zp', 'Cc', 'Cf') or len(('a' + ch + 'b').splitlines()) > 1:
                _ALIEN.append(ch)
    return _ALIEN


ALIEN_TEMPLATES = [
    ('string', "s = 'p{c}q'"), ('dstring', 's = "p{c}q"'), ('comment', '# note {c} x = 2'), ('comment-lead', '{c}# note'), ('bracket', 'v = [p{c}q] + 1'),
    ('indent', '{c}v = 1'), ('trailing', 'v = 1{c}'), ('after-backslash', 'v = 1 + \\{c}\n2'), ('before-backslash', 'v = 1 +{c}\\\n2'),
    ('continued-indent', 'v = 1 + \\\n{c}2'), ('between-tokens', 'v ={c}1'), ('include', "include 'p{c}q.bare'"), ('include-system', 'include <p{c}q>'),
    ('call-arg', "f('x{c}', y)"), ('label', 'lbl{c}:'), ('return', 'return{c}1'), ('if-head', "if x == '{c}':\nendif"), ('blank-line', '{c}'),
    ('function-head', 'function f(a,{c}b):\nendfunction'), ('doubled', "s = '{c}{c}' + '{c}'"),
]


def brief(res):
    out = jsonable(res)
    text = json.dumps(out, ensure_ascii=True)
    if len(text) > 1500:
        return {'kind': res[0], 'sha256': hashlib.sha256(text.encode()).hexdigest()[:16], 'head': text[:600]}
    return out


# ---------------------------------------------------------------------------------------------------------------------
# Round 10: a returned model is the CALLER's.  "keep no state between calls" read from the caller's side: what parse_script /
# parse_expression hand out is a plain mutable dict / list tree; whatever the caller does to it afterwards (rewrite numbers,
# rename keys, empty or extend lists) must neither reach a model returned by another call nor the result of a later call.
# == / JSON comparison of fresh results cannot see a node that two results share, so two oracles:
#   returned-models-disjoint    no dict / list object is part of two returned models (identity walk, every model kept alive)
#   caller-owns-returned-model  parse, deep-copy, EDIT the returned model everywhere in place, parse the same and other texts
#                               (also after a parse that raised) - results equal the pristine copies; the models returned
#                               EARLIER for the other texts still equal their copies.  The edit is undone in place afterwards.
# The Lean model has nothing to say here (values, not objects): implementation-side oracles only.
# ---------------------------------------------------------------------------------------------------------------------

OWN_STYLES = ['values', 'keys', 'clear', 'grow']
OWN_PROBES = [
    ('script', 'for v in arr:\n    f(v)\nendfor'),
    ('script', "for v, i in f(0, 1):\n    if i == 0:\n        continue\n    endif\n    x = i + 1\nendfor"),
    ('script', 'while a < 1:\n    if b:\n        break\n    elif c:\n        continue\n    else:\n        a = a + 1\n    endif\nendwhile'),
    ('script', "function f(a, b...):\n    return\nendfunction\nasync function g():\n    return 0\nendfunction\ninclude 'a.bare'\ninclude <b.bare>"),
    ('script', "lbl:\njumpif (!x) lbl\njump lbl\nreturn\nx = -1 + 0 * 1 - [a b] + 'one' + null + true + false"),
    ('script', 'for a in b:\n    for c, d in a:\n        for e in c:\n            break\n        endfor\n    endfor\nendfor\nfor a in b:\nendfor'),
    ('expr', 'f(0, 1, -1) + (0) * 1 - !g()'),
    ('expr', "'' + 'a' + [a b] + null + true"),
    ('expr', '0'), ('expr', '1'), ('expr', 'x'),
]
OWN_REJECTED = [('script', 'for v in arr:\n    x = (1'), ('script', 'for v in arr:\n    f(v)'), ('script', 'for v, i in arr:\nendfor\nendfor'), ('script', 'x = 1 + \\'),
                ('script', 'while a:\nfor b in c:\nendwhile'), ('script', "include 'a'\ninclude 'b"), ('script', 'function f(a):\nfor v in a:\nendfunction'),
                ('expr', 'f(0, 1,'), ('expr', '(1'), ('expr', '1 +'), ('expr', "0 'x")]


def run_kind(kind, text):
    return run_parse(text) if kind == 'script' else run_expr(text)


def strict(res):
    """comparison form that tells 1 / 1.0 / true apart (== does not)"""
    return json.dumps(res, sort_keys=True, default=repr)


def mutable_nodes(model):
    """every dict / list object reachable in a returned model, each once"""
    out = []
    seen = set()
    stack = [model]
    while stack:
        node = stack.pop()
        if isinstance(node, (dict, list)) and id(node) not in seen:
            seen.add(id(node))
            out.append(node)
            stack.extend(node.values() if isinstance(node, dict) else node)
    return out


def path_of(model, target_id):
    stack = [(model, [])]
    seen = set()
    while stack:
        node, path = stack.pop()
        if isinstance(node, (dict, list)) and id(node) not in seen:
            seen.add(id(node))
            if id(node) == target_id:
                return path
            for k, v in (node.items() if isinstance(node, dict) else enumerate(node)):
                stack.append((v, path + [k]))
    return None


class Owned:
    """the mutable nodes of every model returned so far; the models are kept alive, so an id names one object"""

    def __init__(self):
        self.items = []
        self.nodes = {}

    def add(self, kind, text, model):
        """-> None | {...} describing the first node of `model` that a model returned by ANOTHER call holds too"""
        ix = len(self.items)
        self.items.append((kind, text, model))
        hit = None
        for node in mutable_nodes(model):
            prev = self.nodes.setdefault(id(node), ix)
            if prev != ix and hit is None:
                okind, otext, omodel = self.items[prev]
                hit = {'items': [[okind, otext], [kind, text]], 'paths': [path_of(omodel, id(node)), path_of(model, id(node))], 'node': jsonable(node)}
        return hit


def disjoint_failure(items):
    """parse the texts in order, keep every result: -> None | the first dict / list object that two of the returned models share"""
    own = Owned()
    for kind, text in items:
        res = run_kind(kind, text)
        if res[0] == 'ok':
            hit = own.add(kind, text, res[1])
            if hit:
                return hit
    return None


def _edit_scalar(v):
    if isinstance(v, bool):
        return not v
    if isinstance(v, (int, float)):
        return v * 10 + 7
    if isinstance(v, str):
        return v + '~caller'
    if v is None:
        return 'caller'
    return v                # a dict / list: edited itself, in place


class CallerEdit:
    """An in-place edit of EVERY dict and list of a returned model (style 'values': every number / string / bool / null replaced,
    'keys': every key renamed + a key added + lists reversed, 'clear': every container emptied, 'grow': keys / elements added);
    undo() restores the same objects in place."""

    def __init__(self, model, style):
        self.saved = [(node, dict(node) if isinstance(node, dict) else list(node)) for node in mutable_nodes(model)]
        for node, old in self.saved:
            if isinstance(node, dict):
                if style == 'values':
                    for k, v in old.items():
                        node[k] = _edit_scalar(v)
                elif style == 'keys':
                    node.clear()
                    for k, v in old.items():
                        node[str(k) + '~caller'] = _edit_scalar(v)
                    node['added-by-caller'] = {'number': 42}
                elif style == 'clear':
                    node.clear()
                else:
                    node['added-by-caller'] = [{'number': 42}]
            elif style == 'values':
                node[:] = [_edit_scalar(v) for v in old]
            elif style == 'keys':
                node[:] = [_edit_scalar(v) for v in reversed(old)]
            elif style == 'clear':
                node.clear()
            else:
                node.insert(0, {'label': 'added-by-caller'})
                node.append('added-by-caller')

    def undo(self):
        for node, old in self.saved:
            if isinstance(node, dict):
                node.clear()
                node.update(old)
            else:
                node[:] = old


def caller_owns_failure(edits, style, others, own=None, hits=None):
    """The caller parses the texts `edits` and `others` (kind, text) and KEEPS every result; then edits the returned models of
    `edits` in place, everywhere.  Required: the kept results of `others` are unchanged, and every text of others + edits parsed
    again (each accepted text also right after a parse that raised) gives what it gave before the edit.
    -> None | {'then': [kind, text], 'what', 'before', 'after'};  the edit is undone in place before returning.
    own / hits: the identity registry the returned models are entered in, and the list its findings are appended to."""
    kept = []
    for kind, text in list(edits) + list(others):
        res = run_kind(kind, text)
        if own is not None and res[0] == 'ok':
            hit = own.add(kind, text, res[1])
            if hit:
                hits.append(hit)
        kept.append((kind, text, res, strict(res)))
    done = []
    try:
        for _, _, res, _ in kept[:len(edits)]:
            if res[0] == 'ok':
                done.append(CallerEdit(res[1], style))
        if not done:
            return None
        for kind, text, res, before in kept[len(edits):]:
            if strict(res) != before:
                return {'then': [kind, text], 'what': 'a model returned EARLIER changed when another returned model was edited', 'before': before, 'after': strict(res)}
        raised = [(k, t) for k, t, r, _ in kept if r[0] != 'ok']
        order = kept[len(edits):] + kept[:len(edits)]
        for n, (kind, text, res, before) in enumerate(order):
            after = strict(run_kind(kind, text))
            if after != before:
                return {'then': [kind, text], 'what': 'a later call gives another result than before the edit', 'before': before, 'after': after}
            if raised and res[0] == 'ok':
                bk, bt = raised[n % len(raised)]
                run_kind(bk, bt)
                after = strict(run_kind(kind, text))
                if after != before:
                    return {'then': [kind, text], 'after-raise': [bk, bt], 'what': 'a later call (after a parse that raised) gives another result than before the edit',
                            'before': before, 'after': after}
        return None
    finally:
        for e in reversed(done):
            e.undo()


def _short(text, n=1500):
    return text if len(text) <= n else text[:n] + '...'


def report_own(ctx, seen, hits=(), fail=None, edits=None, style=None, others=None):
    """witnesses of the two ownership oracles (a few per run; every input is replayable on its own)"""
    for hit in hits:
        if seen.setdefault('disjoint', 0) < 3 and disjoint_failure(hit['items']):
            seen['disjoint'] += 1
            ctx.witness('returned-models-disjoint', {'items': hit['items']}, 'no dict / list object is part of two returned models',
                        {'shared node': hit['node'], 'paths': hit['paths']})
    if fail is not None and seen.setdefault('owns', 0) < 3:
        # smallest history that shows it: one edited text, one text parsed afterwards
        then = [tuple(fail['then'])] + ([tuple(fail['after-raise'])] if 'after-raise' in fail else [])
        small = None
        for e in list(edits) + OWN_PROBES:          # ... and a probe in place of a long text, when it shows the same
            f = caller_owns_failure([e], style, then)
            if f is not None and (small is None or len(e[1]) < len(small[0][1])):
                small, fail = [e], f
        if small:
            t = tuple(fail['then'])
            then2 = ([] if t == small[0] else [t]) + ([tuple(fail['after-raise'])] if 'after-raise' in fail else [])
            f = caller_owns_failure(small, style, then2)
            if f is not None:
                then, fail = then2, f
        inp = {'edit': [list(e) for e in (small or edits)], 'style': style, 'then': [list(t) for t in (then if small else others)]}
        if caller_owns_failure([tuple(e) for e in inp['edit']], style, [tuple(t) for t in inp['then']]) is not None:
            seen['owns'] += 1
            ctx.witness('caller-owns-returned-model', inp, _short(fail['before']), _short(fail['after']), oracle_detail=fail['what'])


# ---------------------------------------------------------------------------------------------------------------------
# Streams
# ---------------------------------------------------------------------------------------------------------------------

def load_corpus():
    path = os.path.join(fw.VERIF, 'harness', 'corpus', 'C10.jsonl')
    out = []
    if os.path.exists(path):
        with open(path, encoding='utf-8') as fh:
            for ln in fh:
                ln = ln.strip()
                if ln and not ln.startswith('//'):
                    out.append(json.loads(ln))
    return out


def shipped_scripts():
    out = []
    for path in sorted(glob.glob(os.path.join(fw.REPO_SRC, 'bare_script', 'include', '*.bare'))):
        with open(path, encoding='utf-8') as fh:
            out.append((os.path.basename(path), fh.read()))
    return out


def layout_cases(ctx, rng, name, logical, n_rewrites, exhaustive_chunks):
    """Yield (description, chunks, phys) rewrites of one program."""
    plain = [w for w in WS_PLAIN]
    for r in range(n_rewrites):
        mode = r % 6
        if mode == 0:      # indentation / trailing blanks / comments only
            phys = physical_lines(rng, logical, indent=plain, trailing=['', ' ', '\t', '   '], breaks=0.0, comments_p=0.3)
        elif mode == 1:    # continuation at every gap
            phys = physical_lines(rng, logical, indent=plain, trailing=['', ' '], breaks=1.0, comments_p=0.3, break_all=True)
        elif mode == 2:    # one continuation, at a chosen gap of a chosen line
            phys = physical_lines(rng, logical, indent=[''], trailing=[''], breaks=0.0, comments_p=0.0,
                                  break_at=(rng.randrange(len(logical)), rng.randrange(64)))
        elif mode == 5:    # indentation / trailing blanks from every white-space class (controls, NEL, NBSP, Unicode spaces, LS/PS, lone CR)
            phys = physical_lines(rng, logical, indent=plain + WS_EXOTIC, trailing=['', ''] + WS_EXOTIC, breaks=rng.choice([0.0, 0.3]), comments_p=0.3)
        else:
            phys = physical_lines(rng, logical, indent=plain, trailing=['', '', ' ', '\t '], breaks=rng.choice([0.1, 0.3, 0.6]), comments_p=0.3)
        eol = ['lf', 'crlf', 'mixed'][rng.randrange(3)]
        nb = len(phys) - 1
        if exhaustive_chunks and r in (0, 3) and nb <= 14:
            cuts_list = list(cut_sets(rng, nb, 6, ctx.scale(100, 700)))
        else:
            cuts_list = [set(rng.sample(range(nb), min(nb, rng.randint(0, 6)))) if nb > 0 else set()]
        for cuts in cuts_list:
            chunks = assemble(rng, phys, eol, cuts, rng.random() < 0.5)
            yield {'program': name, 'mode': mode, 'eol': eol, 'cuts': len(cuts)}, chunks, phys


def stream_layout(ctx):
    """The property's oracle on the implementation + the model's logical lines on the same rewritten texts."""
    rng = ctx.rng('layout')
    st = ctx.stream('layout', 'generated programs + shipped include/*.bare x layout rewrites (LF/CRLF/mixed, chunkings <= 6 cuts, comment/blank '
                              'insertion p=0.3 also inside continuations, indentation none/spaces/tab, trailing blanks, continuation at '
                              'inter-token gaps); non-trivial = the rewrite changed the text and the program has >= 3 logical lines')
    programs = []
    for item in load_corpus():
        if item.get('stream') == 'layout':
            programs.append(('corpus', item['logical'], {'corpus'}, item.get('chunks')))
    for k in range(ctx.scale(120, 2500)):
        logical, kinds = gen_program(rng)
        programs.append((f'gen{k}', logical, kinds, None))
        if k % 5 == 0:
            programs.append((f'bad{k}', break_program(rng, logical), {'malformed'}, None))
    # shipped scripts: their logical lines as the implementation sees them
    for fname, text in shipped_scripts():
        logical, base = impl_logical_lines(text)
        programs.append((fname, logical, {'shipped'}, None))
        if base[0] != 'ok':
            ctx.witness('shipped-script-parses', {'file': fname}, 'ok', brief(base))
        elif not same_program(base, run_parse('\n'.join(logical))):
            ctx.witness('layout', {'original': text, 'chunks': ['\n'.join(logical)], 'as': 'str'}, 'identical model', 'differs', oracle_detail='logical lines of ' + fname)

    seen_texts = []
    model_reqs = []
    model_meta = []
    for name, logical, kinds, fixed_chunks in programs:
        original = '\n'.join(logical)
        base = run_parse(original)
        if base[0] == 'exc':
            ctx.witness('only-parser-errors', {'original': original}, 'BareScriptParserError or a model', base[1])
            continue
        seen_texts.append((original, base))
        shipped = 'shipped' in kinds
        n_rew = 1 if fixed_chunks else (ctx.scale(4, 12) if shipped else ctx.scale(6, 24))
        if fixed_chunks:
            cases = [({'program': name, 'mode': 'corpus', 'eol': '-', 'cuts': len(fixed_chunks) - 1}, fixed_chunks, None)]
        else:
            cases = layout_cases(ctx, rng, name, logical, n_rew, exhaustive_chunks=not shipped)
        for desc, chunks, phys in cases:
            how, arg = as_container(rng, chunks)
            res = run_parse(arg)
            changed = chunks != [original]
            st.case([desc, chunks if len(original) < 400 else len(chunks)], nontrivial=changed and len(logical) >= 3,
                    tags=[f'mode:{desc["mode"]}', f'eol:{desc["eol"]}', f'cuts:{min(desc["cuts"], 7)}', f'as:{how}',
                          'base:' + base[0]] + [f'has:{k}' for k in sorted(kinds)])
            if not same_program(base, res):
                ctx.witness('layout', {'original': original, 'chunks': chunks, 'as': how}, brief(base), brief(res))
            # round 5: the caller's start line (0-based hosts, offsets into a bigger document, negative offsets) only positions
            # diagnostics: identical model, and a reported line number moves by exactly start - 1
            start = rng.choice(START_LINES)
            res_s = run_parse(list(chunks), start)
            st.hist[f'start:{"1" if start == 1 else "0" if start == 0 else "neg" if start < 0 else "pos"}'] = \
                st.hist.get(f'start:{"1" if start == 1 else "0" if start == 0 else "neg" if start < 0 else "pos"}', 0) + 1
            bad_start = not same_program(base, res_s)
            if not bad_start and res_s[0] == 'err':
                res_1 = run_parse(list(chunks), 1)
                bad_start = res_1[0] != 'err' or res_s[1:4] != res_1[1:4] or res_s[4] != res_1[4] + start - 1
            if bad_start:
                ctx.witness('layout-start-line', {'original': original, 'chunks': chunks, 'start': start}, [brief(base), 'line numbers moved by start - 1'],
                            brief(res_s))
            # the chunk sequence as ONE STRING (a chunk boundary is a line boundary)
            if len(chunks) > 1 and rng.random() < 0.25:
                one = rng.choice(['\n', '\r\n']).join(chunks)
                res1 = run_parse(one)
                if not same_program(base, res1):
                    ctx.witness('layout', {'original': original, 'chunks': [one], 'as': 'str'}, brief(base), brief(res1))
            # readlines-style chunks (each keeps its terminator): outside the property, model equality still expected
            if phys is not None and rng.random() < 0.15:
                keep = [p + '\n' for p in phys]
                res2 = run_parse(keep)
                if not same_program(base, res2):
                    ctx.witness('layout-keepends', {'original': original, 'chunks': keep, 'as': 'list'}, brief(base), brief(res2))
            if len(model_reqs) < ctx.scale(1500, 20000) and (not shipped or rng.random() < 0.3):
                model_reqs.append({'op': 'lines', 'chunks': chunks})
                model_meta.append((logical, chunks, shipped))

    # the model on the same rewritten texts: physical lines, logical lines, spec = mirror, layout invariance of the model
    parser = P()
    resps = ctx.driver.batch(model_reqs)
    for (logical, chunks, shipped), resp in zip(model_meta, resps):
        impl_phys = [ln for ch in chunks for ln in parser._R_SCRIPT_LINE_SPLIT.split(ch)]
        impl_lines, out = impl_logical_lines(chunks)
        model_lines = [t for _, t in resp['lines']]
        n = len(impl_lines)
        # the implementation stops at its first error: it has then seen a prefix of the logical lines
        model_view = model_lines if out[0] == 'ok' else model_lines[:n]
        ctx.compare('layout', {'chunks': chunks, 'what': 'physical+logical lines'}, [impl_phys, impl_lines, True], [resp['phys'], model_view, resp['specAgrees']])
        if not shipped and [t.strip() for t in model_lines] != [ln.strip() for ln in logical] and resp['error'] is None:
            ctx.compare('layout', {'chunks': chunks, 'what': 'model logical lines are layout independent'}, [ln.strip() for ln in logical],
                        [t.strip() for t in model_lines])

    # statelessness: same text parsed again, in shuffled order, after the caller mutated an earlier result
    st2 = ctx.stream('stateless', 'every base text parsed a second time in shuffled order (after mutating the first result) and parse_expression '
                                  'repeated; non-trivial = program with >= 3 lines')
    order = list(range(len(seen_texts)))
    rng.shuffle(order)
    for k in order:
        text, base = seen_texts[k]
        if base[0] == 'ok':
            first = copy.deepcopy(base[1])
            base[1]['statements'].append({'label': 'mutated-by-caller'})
            base = ('ok', first)
        again = run_parse(text)
        st2.case(text if len(text) < 300 else len(text), nontrivial=text.count('\n') >= 2, tags=['script:' + base[0]])
        if again != base:
            ctx.witness('stateless', {'text': text}, brief(base), brief(again))
    exprs = [gen_expr(rng) for _ in range(ctx.scale(300, 5000))] + ['1 +', '(a', "'x", 'f(1,', 'a b']
    firsts = [run_expr(e) for e in exprs]
    order = list(range(len(exprs)))
    rng.shuffle(order)
    for k in order:
        st2.case(exprs[k], nontrivial=len(exprs[k]) > 3, tags=['expr:' + firsts[k][0]])
        if run_expr(exprs[k]) != firsts[k]:
            ctx.witness('stateless-expr', {'text': exprs[k]}, brief(firsts[k]), 'differs on second call')

    # round 10: the returned model is the caller's (identity-disjoint results; edit a result everywhere, parse again)
    own = Owned()
    own_seen = {}
    st3 = ctx.stream('owned', 'a returned model is the CALLER\'s: every base text of the layout stream (generated, malformed, shipped), probe scripts with every '
                              'lowered construct (for / for with index / nested for / while / if-elif-else / functions / includes / jumps) and generated '
                              'expressions: (a) no dict / list object is part of two returned models (identity walk over every model returned here, '
                              'parse_script and parse_expression, same and different texts, all kept alive); (b) parse, deep-compare form taken, the returned '
                              'model EDITED in place everywhere (styles: every number / string / bool / null replaced; every key renamed + keys added + lists '
                              'reversed; every dict / list emptied; keys / elements added), then the same text, the previous text, a probe and a rejected text '
                              'parsed again (accepted ones also right after the parse that raised): results and the models returned earlier must equal their '
                              'pristine forms; the edit is undone in place.  Host-level (object identity, in-place edits): no Lean counterpart.  '
                              'non-trivial = the text has a for loop, or an expression with a number')
    todo = [('script', text) for text, _ in seen_texts] + OWN_PROBES + [('expr', e) for e in exprs]
    if ctx.quick:       # shipped scripts are large: a rotating third of them per run
        big = [t for t in todo if len(t[1]) > 4000]
        todo = [t for t in todo if len(t[1]) <= 4000] + rng.sample(big, min(len(big), 6))
    rng.shuffle(todo)
    prev = OWN_PROBES[0]
    for k, (kind, text) in enumerate(todo):
        style = OWN_STYLES[k % len(OWN_STYLES)]
        others = [prev, OWN_PROBES[k % len(OWN_PROBES)], OWN_REJECTED[k % len(OWN_REJECTED)]]
        others = [o for o in others if o != (kind, text)]
        hits = []
        fail = caller_owns_failure([(kind, text)], style, others, own, hits)
        st3.case([kind, text if len(text) < 300 else [len(text), hashlib.sha256(text.encode()).hexdigest()[:12]], style],
                 nontrivial=('for ' in text) if kind == 'script' else any(c.isdigit() for c in text), tags=[kind, 'style:' + style])
        report_own(ctx, own_seen, hits, fail, [(kind, text)], style, others)
        if len(text) < 4000:
            prev = (kind, text)

    stream_history(ctx, rng, own, own_seen)


def _perturb_inside(rng, text):
    """variants of `text` that differ from it ONLY in the blanks inside quoted strings and bracketed names (other texts, other
    programs) or only in the blanks between tokens (same program)"""
    out = []
    inner = re.sub(r"('[^'\\\n]*'|\"[^\"\\\n]*\"|\[[^\]\\\n]*\])",
                   lambda m: m.group(0)[0] + re.sub(r' +', lambda w: ' ' * rng.choice([1, 2, 3]), m.group(0)[1:-1]).replace('\t', ' ') + m.group(0)[-1], text)
    if inner != text:
        out.append(inner)
    doubled = re.sub(r"('[^'\\\n]*'|\"[^\"\\\n]*\"|\[[^\]\\\n]*\])", lambda m: m.group(0).replace(' ', '  '), text)
    if doubled != text:
        out.append(doubled)
    out.append(re.sub(r'(?<=\S) (?=\S)', '  ', text, count=rng.choice([1, 2, 3])))
    out.append(text.replace(' * *', ' **').replace('< =', '<='))
    return [v for v in out if v != text]


HISTORY_BASES = ["v = 'a  b' + [x  y]", "w = f('p q', 'p  q')", 'a = b * c + d', "s = 'tab\there' + \"two  blanks\"", "t = [odd   name] - 1",
                 "u = 'x' + 'x ' + ' x' + 'x  '", "if [a b] == 'a b':\n    r = 'a  b'\nendif", "return  'one   two'", "k = g( 'a' , 'a ' )",
                 "jumpif ([l  m] < 'l m') lbl\nlbl:", "for v in f('i  j'):\n    x = [v  w]\nendfor", "z = '  lead' + 'trail  ' + ' '"]


def stream_history(ctx, rng, own=None, own_seen=None):
    """parse results do not depend on what was parsed before: families of near-identical texts (they differ only in the blanks
    inside string literals / bracketed names, or only in the blanks between tokens) are parsed in this process in one order and
    by a fresh interpreter in the reverse order; every text must get the same result in both histories"""
    st = ctx.stream('history', 'families of near-identical texts (differing only in blanks inside string literals / bracketed names, or only '
                               'between tokens): each parsed here in generation order (after everything the earlier streams parsed; every model '
                               'returned for an earlier member of the family kept and EDITED in place everywhere by the caller, then every member parsed '
                               'again, no dict / list object shared between returned models) and by '
                               'a fresh interpreter process in reverse order - identical results required; scripts and expressions; '
                               'non-trivial = the family holds >= 2 distinct texts')
    families = []
    bases = [('script', b) for b in HISTORY_BASES]
    for _ in range(ctx.scale(150, 1500)):
        bases.append(('script', '\n'.join(gen_program(rng)[0])))
        bases.append(('expr', gen_expr(rng)))
    for kind, base in bases:
        fam = [base]
        for v in _perturb_inside(rng, base):
            if v not in fam:
                fam.append(v)
        families.append((kind, fam))
    here = []
    items = []
    own = own if own is not None else Owned()
    own_seen = own_seen if own_seen is not None else {}
    for nfam, (kind, fam) in enumerate(families):
        # round 10: the caller KEEPS and EDITS (in place, everywhere) every model it gets while it goes through the family; the results
        # compared with the fresh interpreter's are those obtained after the earlier members' models were edited; then every member
        # again; no returned dict / list object may be part of another returned model.  Edits undone in place at the end of the family.
        style = OWN_STYLES[nfam % len(OWN_STYLES)]
        held = []
        snaps = []
        hits = []
        try:
            for text in fam:
                items.append((kind, text))
                res = run_kind(kind, text)
                here.append(jsonable(res))
                snaps.append(strict(res))
                if res[0] == 'ok':
                    hit = own.add(kind, text, res[1])
                    if hit:
                        hits.append(hit)
                    held.append(CallerEdit(res[1], style))
            again = [strict(run_kind(kind, text)) for text in fam]
        finally:
            for e in reversed(held):
                e.undo()
        if hits or again != snaps:
            fail = None
            if again != snaps:
                ix = next(i for i, (a, b) in enumerate(zip(again, snaps)) if a != b)
                fail = {'then': [kind, fam[ix]], 'what': 'a later call gives another result than before the edit', 'before': snaps[ix], 'after': again[ix]}
            report_own(ctx, own_seen, hits, fail, [(kind, t) for t in fam], style, [(kind, t) for t in fam])
    fresh = fw.fresh_parse(list(reversed(items)))[::-1]
    pos = 0
    found = 0
    for nfam, (kind, fam) in enumerate(families):
        for text in fam:
            st.case([kind, text], nontrivial=len(fam) >= 2, tags=[kind, 'family%d' % min(len(fam), 5), here[pos][0]])
            if json.loads(json.dumps(here[pos])) != fresh[pos]:
                # which earlier text of the family is responsible?  [A, B] vs [B] in fresh interpreters
                found += 1
                if found > 5:       # each witness costs a few interpreter starts
                    pos += 1
                    continue
                # is it the edit of an earlier member's returned model (round 10)?  then that is the witness
                style = OWN_STYLES[nfam % len(OWN_STYLES)]
                owned_by = next((f for f in ([(kind, o)] for o in fam) if caller_owns_failure(f, style, [(kind, text)])), None)
                if owned_by is not None:
                    report_own(ctx, own_seen, (), caller_owns_failure(owned_by, style, [(kind, text)]), owned_by, style, [(kind, text)])
                    pos += 1
                    continue
                alone = fw.fresh_parse([(kind, text)])[0]
                culprit = None
                for other in fam:
                    if other != text and fw.fresh_parse([(kind, other), (kind, text)])[1] != alone:
                        culprit = other
                        break
                ctx.witness('parse-independent-of-history', {'kind': kind, 'text': text, 'history': [culprit] if culprit else None},
                            alone, here[pos] if json.loads(json.dumps(here[pos])) != alone else fresh[pos])
            pos += 1
    rejected_inputs_leave_nothing(ctx, st)


# rejected texts (every way an expression / a script line can be abandoned half-way) and accepted texts that use the same constructs
REJECTED = [('expr', t) for t in ['(a', '((1', '(((((((((( 1', 'f((x)', "('x", '(1 +', 'f(1,', 'f(g(h(', '1 +', '[a', '(a))', '-(', '!(', 'a b', '((a) b)', "f('", '(1 2)']] + \
           [('script', t) for t in ['x = (1', 'x = ((1)', 'if (a:', 'if (a):\nx = (', 'function f(a):\nx = (1', 'while (a):', 'for x in (y:', 'return (', 'jumpif ((a) l',
                                    'x = 1 + \\', 'if a:\nif b:\nif c:', "include 'a", 'x = f(\\\n(']]
ACCEPTED = [('expr', t) for t in ['(1)', '((a))', '(' * 30 + '1' + ')' * 30, 'f((x), (y))', '-(1) + !(2)', "f(g(h('x')))", '[a b] + (c)']] + \
           [('script', t) for t in ['x = ((1))', 'if (a):\nx = (1)\nendif', 'function f(a):\nreturn (a)\nendfunction', 'while (a):\nbreak\nendwhile',
                                    'if a:\nif b:\nif c:\nx = 1\nendif\nendif\nendif', 'x = f( \\\n(1))']]


def rejected_inputs_leave_nothing(ctx, st):
    """no state between calls, the error path: an accepted text gives the same result after one rejected text was parsed many times
    (whatever a parse run counts, opens or remembers must be gone when it raises); baseline from a fresh interpreter"""
    rep = ctx.scale(300, 3000)
    baseline = fw.fresh_parse(ACCEPTED)
    found = 0
    for kind, bad in REJECTED:
        run = run_parse if kind == 'script' else run_expr
        for _ in range(rep):
            run(bad)
        for (gkind, good), want in zip(ACCEPTED, baseline):
            if gkind != kind:
                continue
            got = jsonable((run_parse if gkind == 'script' else run_expr)(good))
            st.case([kind, bad, rep, good], nontrivial=True, tags=['after-rejected', kind, got[0]])
            if got != want and found < 3:
                history = [bad] * rep
                if fw.fresh_parse([(kind, h) for h in history] + [(kind, good)])[-1] != want:
                    found += 1
                    ctx.witness('parse-independent-of-history', {'kind': kind, 'text': good, 'history': history}, want, got,
                                oracle_detail=f'{rep} x the rejected text {bad!r}, then the accepted text')


SOUP = ['v = 1', 'w = f(x)', "s = 'a # b'", 'f(x)', 'lbl:', 'jump lbl', 'jumpif (x) lbl', '?bad', 'x y', "v = 'open", 'a = 1 +', 'return 5',
        'a = 1 + \\', '2 + \\', '3', '4 +\\', 'b = f( \\', 'x, \\', 'y)', '\\', '  \\  ', "t = 'x\\\\' \\", 'z = 2 \\   ', "q = '\\\\'", 'k = 7',
        "u = 'a' + \\", "'b'", 'return \\', 'jump \\', 'lbl', '# c \\', '#', '', '   ', '\t', '# comment', 'a = 1\rb', 'c = 3\r', '\rd = 4',
        'm = 1 \\\r', 'a\xe9 = 1', 'x\u3000=\u30002', 'e = (1', 'g = 1)']


_REF_SPLIT = re.compile(r'\r?\n')


def first_physical_line_check(chunks, out):
    """Reference computation from the statement 'the reported line number is that of the first physical line of the
    logical line': the reported logical line text starts with that physical line (continuation removed, right-stripped)."""
    if out[0] != 'err' or out[4] is None:
        return None
    phys = [ln for ch in chunks for ln in _REF_SPLIT.split(ch)]
    ix = out[4] - 1
    if not 0 <= ix < len(phys):
        return f'line number {out[4]} outside the text ({len(phys)} physical lines)'
    first = phys[ix]
    body = first.rstrip()
    if body.endswith('\\'):
        first = body[:-1].rstrip()
        if not out[2].startswith(first):
            return f'line {out[4]} is {phys[ix]!r} but the reported logical line is {out[2]!r}'
    elif out[2] != first:
        return f'line {out[4]} is {phys[ix]!r} but the reported line is {out[2]!r}'
    return None


def stream_lines(ctx):
    """Model logicalLines vs the implementation, observed through behaviour: random physical-line soup of context-free statements."""
    rng = ctx.rng('lines')
    st = ctx.stream('lines', 'soups of physical lines (context-free statements, comments, blanks, continuation parts, exotic blanks, lone CR) '
                             'joined with LF/CRLF and cut into chunks at ARBITRARY character positions; compared: physical lines, the logical '
                             'lines offered to the cascade, and parse(whole) = composition of parse(each model logical line alone, line number '
                             '1+ixLine) incl. the first error (error, line, column, lineNumber) and the dangling-continuation error; '
                             'non-trivial = at least one continuation and one comment/blank')
    cases = []
    for item in load_corpus():
        if item.get('stream') == 'lines':
            cases.append(item['chunks'])
    for _ in range(ctx.scale(2500, 60000)):
        n = rng.randint(0, 9)
        phys = []
        for _ in range(n):
            s = rng.choice(SOUP)
            if rng.random() < 0.35:
                s = rng.choice(WS_PLAIN + WS_EXOTIC) + s
            if rng.random() < 0.35:
                s = s + rng.choice(WS_PLAIN + WS_EXOTIC)
            phys.append(s)
        text = ''
        for k, s in enumerate(phys):
            text += s
            if k < len(phys) - 1 or rng.random() < 0.3:
                text += rng.choice(['\n', '\n', '\r\n'])
        ncut = rng.choice([0, 0, 1, 2, 3])
        cuts = sorted(rng.sample(range(len(text) + 1), min(ncut, len(text) + 1)))
        chunks = [text[a:b] for a, b in zip([0] + cuts, cuts + [len(text)])]
        cases.append(chunks)
    resps = ctx.driver.batch([{'op': 'lines', 'chunks': c} for c in cases])
    parser = P()
    for chunks, resp in zip(cases, resps):
        joined = ''.join(chunks)
        st.case(chunks, nontrivial='\\' in joined and ('#' in joined or '\n\n' in joined or '\n\r\n' in joined),
                tags=[f'chunks:{len(chunks)}', 'dangling' if resp['error'] else 'complete', f'logical:{min(len(resp["lines"]), 6)}'])
        impl_phys = [ln for ch in chunks for ln in parser._R_SCRIPT_LINE_SPLIT.split(ch)]
        # fed in a random container form: a single chunk half of the time as ONE STRING (the other branch of parse_script)
        how, arg = as_container(rng, chunks)
        st.hist['as:' + how] = st.hist.get('as:' + how, 0) + 1
        impl_lines, out = impl_logical_lines(arg)
        # oracle on the implementation alone: the same physical lines in every input form (the soups carry exotic blanks, lone CRs)
        check_input_forms(ctx, rng, [ln for ch in chunks for ln in ref_lines(ch)], chunks[0] if len(chunks) == 1 else None)
        # expected outcome composed from the MODEL's logical lines
        stmts = []
        expected = None
        seen = 0
        for ix, text in resp['lines']:
            seen += 1
            one = run_parse([text], 1 + ix)
            if one[0] != 'ok':
                expected = one
                break
            stmts.extend(one[1]['statements'])
        if expected is None:
            if resp['error'] is not None:
                e = resp['error']
                expected = ('err', e['error'], e['line'], e['column'], 1 + e['ixLine'])
            else:
                expected = ('ok', {'statements': stmts})
        model_lines = [t for _, t in resp['lines']][:seen]
        ctx.compare('lines', chunks, jsonable([impl_phys, impl_lines, out]), jsonable([resp['phys'], model_lines, expected]))
        # oracle on the implementation alone: an error names the FIRST physical line of its logical line
        bad = first_physical_line_check(chunks, out)
        if bad:
            ctx.witness('first-physical-line', {'chunks': list(chunks), 'as': how}, 'error.line starts with the text of physical line error.line_number', bad)
        if not resp['specAgrees']:
            ctx.compare('lines', {'chunks': chunks, 'what': 'Lean mirror logicalLinesL = spec'}, True, False)


def forms_cases(ctx, rng):
    """(tag, text) - texts for the input-form oracle"""
    for item in load_corpus():
        if item.get('stream') == 'forms':
            yield 'corpus', item['text']
    # every alien character x every place a character can stand in a script, as the middle line of a three-line text
    for k, ch in enumerate(alien_chars()):
        eol = '\n' if k % 2 == 0 else '\r\n'
        for tag, tpl in ALIEN_TEMPLATES:
            yield tag, eol.join(['a = 1'] + tpl.replace('{c}', ch).split('\n') + ['b = 2']) + (eol if k % 3 == 0 else '')
    # generated programs (their string literals / comments carry alien characters, see STR_BODIES / COMMENTS) laid out with
    # exotic indentation and trailing blanks, continuation breaks, any terminator mix
    for _ in range(ctx.scale(250, 4000)):
        logical, _ = gen_program(rng)
        if rng.random() < 0.2:
            logical = break_program(rng, logical)
        phys = physical_lines(rng, logical, indent=WS_PLAIN + WS_EXOTIC, trailing=['', ''] + WS_PLAIN + WS_EXOTIC, breaks=rng.choice([0.0, 0.2, 0.5]),
                              comments_p=0.3)
        yield 'generated', assemble(rng, phys, ['lf', 'crlf', 'mixed'][rng.randrange(3)], set(), rng.random() < 0.5)[0]


def stream_forms(ctx):
    rng = ctx.rng('forms')
    st = ctx.stream('forms', 'ONE STRING vs chunk sequences of the same physical lines: every character of str.isspace / str.splitlines boundaries / '
                             'Unicode Zs Zl Zp Cc Cf (LF excluded; computed, ~%d characters) at every place of a script (string literals, comment, '
                             'bracketed name, indentation, trailing, around the continuation backslash, between tokens, include url, label, '
                             'keyword tail, blank line) + generated programs with alien characters in literals/comments and exotic '
                             'indentation/trailing blanks; forms: str as given, one chunk per line as list/tuple/generator, str re-terminated '
                             'with CRLF / LF, random re-grouping into chunks; also: a plain line without LF is offered to the statement cascade as '
                             'itself (str and list); model: Text physical + logical lines of the one-string form; non-trivial = the text holds a '
                             'character other than LF/CRLF that str.splitlines would break at, or a non-ASCII / control blank' % len(alien_chars()))
    cases = list(forms_cases(ctx, rng))
    resps = ctx.driver.batch([{'op': 'lines', 'chunks': [text]} for _, text in cases])
    atomic_seen = set()
    for (tag, text), resp in zip(cases, resps):
        lines = ref_lines(text)
        n = check_input_forms(ctx, rng, lines, text)
        special = any(len(ln.splitlines()) > 1 for ln in lines) or any(ch.isspace() and ch not in ' \t\r\n' for ch in text)
        st.case(text if len(text) < 300 else [len(text), hashlib.sha256(text.encode()).hexdigest()[:12]], nontrivial=special,
                tags=['place:' + tag, f'forms:{n}', 'splitlines-differs' if len(text.splitlines()) != len(lines) - (1 if text.endswith('\n') else 0)
                      else 'splitlines-agrees'])
        for ln in lines:
            if ln not in atomic_seen and is_plain_line(ln):
                atomic_seen.add(ln)
                check_line_atomic(ctx, ln)
        # model on the one-string form (observed, not recomputed: the lines parse_script offers to its cascade)
        impl_lines, out = impl_logical_lines(text)
        model_lines = [t for _, t in resp['lines']]
        ctx.compare('forms', {'text': text, 'what': 'physical lines (reference splitter) + logical lines of the one-string form'},
                    [lines, impl_lines], [resp['phys'], model_lines if out[0] == 'ok' else model_lines[:len(impl_lines)]])


CLASSIFY_BASE = [
    'a = 1', 'a = b + 1', 'a=1', 'a == b', 'a = ', 'a =', 'a  =  f(x)', '_x9 = 1', 'a\xe9 = 1', '\xe9 = 1', 'a = = 1', "a = 'x = y'", 'a = 1 +', 'a = (1',
    'function f():', 'function f(a):', 'function f(a, b):', 'function f(a,b , c):', 'function f(a...):', 'function f(a ...):', 'function f(...):',
    'function f( ... ):', 'function f(a, b...):', 'async function f():', 'async  function  f ( a ) :', 'asyncfunction f():', 'function f(a,):',
    'function f(a b):', 'function f:', 'function f()', 'functionf():', 'function f(a....):', 'function f(a, ...):', 'function 1f():',
    'async function f(a, b...) :', 'function f(): x', 'function (a):', 'function f(a)(b):',
    'endfunction', 'endfunction x', 'endfunctions',
    'if a:', 'if a :', 'if a: ', 'if   :', 'if :', 'if:', 'if a', 'ifa:', 'if a: b', "if a == ':':", 'if a +:', 'if (a:', 'if a:b:', 'if a::',
    'elif a:', 'elif  a < 1 :', 'elif:', 'elif a', 'elif a +:', 'else:', 'else :', 'else', 'else: x', 'else a:', 'elsex:', 'endif', 'endif ', 'endif:',
    'while a:', 'while a < 10 :', 'while:', 'while a', 'while a +:', 'endwhile', 'endwhile 1',
    'for x in y:', 'for x, i in y:', 'for x,i in y:', 'for x , i in y :', 'for x in y', 'for x y:', 'for x, in y:', 'for x, i, j in y:', 'for in in in:',
    'for x in:', 'for x in :', 'for x in   :', 'for x inside y:', 'for x  in  f(a, b):', 'forx in y:', 'for 1x in y:', 'for x in y +:', 'for x,i in:',
    'endfor', 'endfor x', 'break', 'break ', 'break x', 'breaks', 'continue', 'continue;', 'continued',
    'lbl:', 'lbl :', 'lbl: ', 'lbl::', '1bl:', 'lbl \xe9:', 'lbl\xe9:', ':', ' :',
    'jump lbl', 'jump  lbl ', 'jump', 'jump 1', 'jump a b', 'jumplbl', 'jump if', 'jumpif (a) lbl', 'jumpif(a)lbl', 'jumpif(a) lbl', 'jumpif (a) ) b',
    'jumpif (a lbl', 'jumpif () lbl', 'jumpif ( ) lbl', 'jumpif (a +) lbl', 'jumpif a lbl', 'jumpif (f(x)) lbl', 'jumpif (a) lbl x', 'jumpif (a)  1',
    'return', 'return ', 'return  ', 'return\t\t', 'return 1', 'return  1  ', 'return a +', 'returnx', 'return(1)', 'return (1)', 'return\x0b1', 'return )',
    "include 'a.bare'", "include  'a b'  ", "include 'it\\'s'", "include 'a\\'", "include 'a\\\\'", "include 'a'b'", "include ''", "include '", "include 'a",
    "include'a'", 'include <a.bare>', 'include <a> ', 'include <a>b>', 'include <a', 'include <>', 'include <a>>', 'include "a"', 'include a', 'include',
    "include 'a' 'b'", "include '\\\\\\''", "include <a'b>",
    'f(x)', 'a + b', "'str'", '(a)', '?', 'a b', '', 'x', 'if', 'else', 'function', 'include', 'jumpif', 'for', 'a.b = 1', '[a b] = 1', 'a : b',
]
_R_WORD = re.compile(r'\w')
MUT_CHARS = [' ', ':', '=', '(', ')', "'", ',', '.', 'x', '\\', '#', '<', '>', '\t', '1', '\xe9', '\u3000', '\r', '\u0663', '\U0001d7d8', '\u00b2']


def classify_cases(ctx, rng):
    seen = set()
    for item in load_corpus():
        if item.get('stream') == 'classify':
            yield item['line'], 'corpus'
    for base in CLASSIFY_BASE:
        for lead in ['', '  ', '\t']:
            for trail in ['', ' ', '  ']:
                line = lead + base + trail
                if line not in seen:
                    seen.add(line)
                    yield line, 'base'
    # single-character mutations (quick: sampled; thorough: every position x every character of MUT_CHARS, + deletions)
    if ctx.quick:
        for _ in range(4000):
            base = rng.choice(CLASSIFY_BASE)
            pos = rng.randint(0, len(base))
            r = rng.random()
            line = base[:pos] + rng.choice(MUT_CHARS) + base[pos:] if r < 0.6 else base[:pos] + base[pos + 1:]
            if r > 0.9:
                line = rng.choice(WS_EXOTIC) + line + rng.choice(WS_EXOTIC)
            if line not in seen:
                seen.add(line)
                yield line, 'mutation'
    else:
        for base in CLASSIFY_BASE:
            for pos in range(len(base) + 1):
                for line in [base[:pos] + c + base[pos:] for c in MUT_CHARS] + [base[:pos] + base[pos + 1:]] + \
                            [base[:pos] + c + base[pos + 1:] for c in (' ', ':', '\xe9')]:
                    if line not in seen:
                        seen.add(line)
                        yield line, 'mutation'
    # statement lines from generated programs under layout
    for _ in range(ctx.scale(150, 1500)):
        for line in gen_program(rng)[0]:
            line = rng.choice(WS_PLAIN + WS_EXOTIC) + line + rng.choice(WS_PLAIN + WS_EXOTIC)
            if line not in seen:
                seen.add(line)
                yield line, 'generated'


def stream_classify(ctx):
    rng = ctx.rng('classify')
    st = ctx.stream('classify', 'single lines of every statement kind, valid and near-miss (hand-picked base x indentation x trailing blanks, '
                                'single-character insert/delete/replace mutations, generated statement lines with exotic blanks): first matching '
                                'statement pattern + its groups + match.start(expr) (recorded through regex proxies) vs Scan.shape, and '
                                'parse_script([line]) outcome vs the outcome composed from the model shape; non-trivial = not an expression statement')
    cases = [(ln, src) for ln, src in classify_cases(ctx, rng) if '\n' not in ln]
    resps = ctx.driver.batch([{'op': 'classify', 'line': ln} for ln, _ in cases])
    fulls = ctx.driver.batch([{'op': 'classifyFull', 'line': ln} for ln, _ in cases])
    for (line, src), model, full in zip(cases, resps, fulls):
        shape, out = impl_shape(line)
        if shape is None:
            st.case(line, nontrivial=False, tags=['not-a-logical-line'])
            if is_plain_line(line):     # neither blank, comment nor continued: the implementation broke or dropped it
                check_line_atomic(ctx, line)
            continue
        if not check_line_atomic(ctx, line):     # the same line as ONE STRING
            continue
        st.case(line, nontrivial=model.get('kind') != 'expr', tags=['kind:' + str(model.get('kind')), 'src:' + src, 'out:' + out[0]])
        ctx.compare('classify', line, jsonable(shape), model)
        # Scan.classify instantiated with ExprParse.parseExpr: the Line with parsed expressions / the re-based error column
        # (ExprScan has the Unicode \w and \d: lines with non-ASCII word characters / digits are compared like all others)
        if any(ord(ch) > 127 and _R_WORD.match(ch) for ch in line):
            st.hist['full:nonascii-word'] = st.hist.get('full:nonascii-word', 0) + 1
        try:
            full_r = dict(full, expr=round_numbers(full['expr'])) if 'expr' in full else full
        except (OverflowError, ZeroDivisionError):
            full_r = full
        ctx.compare('classify', {'line': line, 'what': 'Scan.classify ExprParse.parseExpr'}, jsonable(expected_line(line, shape)), full_r)
        if 'kind' in model:
            ctx.compare('classify', {'line': line, 'what': 'parse_script([line]) outcome'}, jsonable(out),
                        jsonable(expected_single_line_outcome(line, model)))


def caret_check(line, column, message):
    """The caret oracle on the implementation's own message: the character above the caret is line[column-1]."""
    rows = message.split('\n')
    shown, caret = rows[-3], rows[-2]
    pos = len(caret) - 1
    if caret.strip(' ') != '^':
        return 'caret row malformed'
    want = line[column - 1] if column <= len(line) else None
    got = shown[pos] if pos < len(shown) else None
    if want != got:
        return f'under caret {got!r}, expected {want!r}'
    if want is None and pos != len(shown):
        return 'caret not at end of text'
    return None


def make_line(n, salt=0):
    # neighbouring characters differ and the pattern has a long period, so a shifted window is visible
    return ''.join(chr(33 + (7 * i + 3 * (i // 13) + salt) % 90) for i in range(n)).replace("\\", '~')


def errmsg_cases(ctx, rng):
    for item in load_corpus():
        if item.get('stream') == 'errmsg':
            yield item['line'], item['column'], item.get('lineNumber'), item.get('prefix'), True
    lengths = range(0, 401) if not ctx.quick else [0, 1, 2, 5, 59, 60, 61, 119, 120, 121, 122, 123, 150, 179, 180, 181, 182, 183, 200, 239, 240, 241, 300, 400]
    for n in lengths:
        line = make_line(n, n)
        for col in range(1, n + 2):
            yield line, col, (n % 7 if col % 3 == 0 else None), ('In file x.bare' if col % 11 == 0 else None), True
        for col in (0, -1, -100, n + 2, n + 3, n + 61, n + 200):
            yield line, col, 5, None, False
    for _ in range(ctx.scale(500, 5000)):
        n = rng.choice([rng.randint(0, 130), rng.randint(100, 400), rng.randint(0, 2000)])
        line = ''.join(rng.choice('ab c\t\xe9\u3000^.') for _ in range(n))
        col = rng.randint(1, n + 1)
        yield line, col, rng.choice([None, 1, 0, -3, 123456]), rng.choice([None, '', 'prefix']), True


def stream_errmsg(ctx):
    rng = ctx.rng('errmsg')
    st = ctx.stream('errmsg', 'BareScriptParserError(error, line, column, lineNumber, prefix): lines of length 0-400 with the column at every '
                              'position 1..len+1 (thorough: every length; quick: 24 lengths around the elision thresholds) + out-of-range columns '
                              '+ random lines up to 2000 chars: message text vs ErrorMsg.format, and the caret oracle on the real message; '
                              'non-trivial = elided line (len > 120)')
    parser = P()
    cases = list(errmsg_cases(ctx, rng))
    resps = ctx.driver.batch([{'op': 'errmsg', 'error': 'Syntax error', 'line': ln, 'column': col, 'lineNumber': num, 'prefix': pfx}
                              for ln, col, num, pfx, _ in cases])
    for (line, col, num, pfx, in_range), resp in zip(cases, resps):
        exc = parser.BareScriptParserError('Syntax error', line, col, num, pfx)
        message = str(exc)
        n = len(line)
        region = 'short' if n <= 120 else ('left' if col - 61 < 0 else ('right' if col + 59 > n else 'middle'))
        st.case([n, col, num, pfx] if n > 0 else [line, col, num, pfx], nontrivial=n > 120, tags=['case:' + region, 'inrange' if in_range else 'outside'])
        ctx.compare('errmsg', {'len': n, 'column': col, 'lineNumber': num, 'prefix': pfx, 'line': line if n < 300 else line[:300] + '...'},
                    message, resp['message'])
        if in_range:
            bad = caret_check(line, col, message)
            if bad:
                ctx.witness('caret', {'line': line, 'column': col}, 'character under the caret is line[column-1]', bad)


# ---------------------------------------------------------------------------------------------------------------------
# Round 9: SCALE.  Every layout dimension the property quantifies over (indentation width, trailing blanks, nesting depth with
# proportional indentation, number / width of inserted blank and comment lines, continuation pieces and the blanks around the
# backslash, chunk count, empty chunks, token / line length, program length) is driven through a geometric size axis far beyond
# what a hand-written script or a "few spaces or a tab" generator shows.  The oracle is the property itself, on the
# implementation: identical model (same error text for a rejected program) as the canonical text.
# ---------------------------------------------------------------------------------------------------------------------

SCALE_SIZES = [0, 1, 2, 9, 10, 11, 16, 17, 64, 65, 100, 101, 128, 129, 256, 1000]
SCALE_EXTRA = [3, 4, 5, 7, 8, 15, 24, 31, 32, 33, 40, 48, 63, 66, 72, 79, 80, 81, 99, 120, 121, 127, 130, 132, 200, 255, 257, 300, 500, 511, 512, 513,
               999, 1001, 1023, 1024, 1025, 2000, 2048, 4096, 4097]
SCALE_UNITS = [' ', '\t', ' \t', '\u3000', '\xa0', '\x0c ', '\u2003\t']
KEYWORD_LINES = ['endfunction', 'else:', 'else :', 'endif', 'endwhile', 'endfor', 'break', 'continue']
SCALE_PROGRAM = [
    'function classify(values, n...):', 'result = arrayNew()', 'for value, ix in values:', 'if value == null:', 'continue',
    'elif value < 0 || ix > 100:', 'break', 'else:', "arrayPush(result, value + ' # not a comment \\\\')", 'endif', 'endfor',
    'while n:', 'n = n - 1', 'if n % 2:', 'continue', 'else :', 'break', 'endif', 'endwhile', 'return result', 'endfunction',
    "include 'lib one.bare'", 'include <args.bare>',
    "s = 'ls\u2028ps\u2029 ff\x0c vt\x0b nel\x85 rs\x1e' + \"two  blanks\" + [odd  name]",
    'top:', 'jumpif (n < 3) top', 'jump done', 'done:', 'async function g():', 'return', 'endfunction', 'systemLog(s)', 'return classify(s, 1)',
]
SCALE_BLOCKS = [['a = 1'], ['while a:', 'break', 'endwhile'], ['if a:', 'b = 2', 'else:', "b = 'x  y'", 'endif'], ['f(a, b)'], ['for x in y:', 'continue', 'endfor'],
                ['function f():', 'return', 'endfunction'], ["include 'a.bare'"], ['lbl:'], ['jump lbl'], ['if a:', 'elif b:', 'c = [d  e]', 'endif'], ['return a']]
SCALE_LINES = KEYWORD_LINES + [
    'endif x', 'breaks', 'else', 'else: x', 'continue;', 'endfunctions', 'a = 1', "a = 'x  y'", 'f(a, b)', 'function f(a, b...):', 'async function f():',
    'if a:', 'elif a:', 'while a < 1:', 'for x, i in y:', 'lbl:', 'lbl :', 'jump lbl', 'jumpif (a) lbl', 'return', 'return a + 1', "include 'a.bare'",
    'include <a.bare>', '?', 'a +', 'x y', 'a =', "s = 'open", 'x', '[a b]',
]


_SCALE_FULL = [False]


def _scale_quick(ctx):
    return ctx.quick and not _SCALE_FULL[0]


def scale_sizes(ctx, rng, cap=None, extra=3):
    """the geometric axis (quick: + a few sizes from SCALE_EXTRA, different every VERIF_SEED; thorough: all of them)"""
    sizes = SCALE_SIZES + ([4096] + rng.sample(SCALE_EXTRA, extra) if _scale_quick(ctx) else SCALE_EXTRA)
    return sorted({n for n in sizes if cap is None or n <= cap})


def nested_program(rng, d):
    """d blocks nested inside each other -> [(level, line)]: every keyword-only line kind occurs at the deep levels"""
    head, tails = [], []
    in_loop = False
    for k in range(d):
        kind = 'function' if k == 0 and rng.random() < 0.4 else rng.choice(['if', 'if', 'while', 'for'])
        if kind == 'function':
            head.append((k, 'function deep(a, b...):'))
            tails.append([(k, 'endfunction')])
        elif kind == 'if':
            head.append((k, 'if a > %d:' % k))
            tail = [(k, 'elif a == %d:' % k), (k + 1, 'b = %d' % k)] if rng.random() < 0.4 else []
            tails.append(tail + [(k, rng.choice(['else:', 'else :'])), (k + 1, rng.choice(['break', 'continue']) if in_loop else 'b = b + 1'), (k, 'endif')])
        elif kind == 'while':
            head.append((k, 'while a < %d:' % k))
            tails.append([(k + 1, 'a = a + 1'), (k + 1, 'continue'), (k, 'endwhile')])
            in_loop = True
        else:
            head.append((k, 'for v%d, i%d in b:' % (k, k)))
            tails.append([(k + 1, 'break'), (k, 'endfor')])
            in_loop = True
    body = [(d, "x = 'in  side'")] + ([(d, 'break')] if in_loop else [])
    return head + body + [item for tail in reversed(tails) for item in tail]


def long_program(n):
    """a well-formed program of exactly n logical lines"""
    lines = []
    i = 0
    while len(lines) < n:
        block = SCALE_BLOCKS[i % len(SCALE_BLOCKS)]
        lines += block if len(lines) + len(block) <= n else ['v%d = %d' % (i, i)]
        i += 1
    return lines


def break_at(line, gaps, pre=lambda k: ' ', post=lambda k: '', ind=lambda k: ''):
    """physical lines of `line` broken at the given gap indices (blanks before / after the backslash and the indentation of the
    continued pieces are functions of the piece number)"""
    parts = []
    prev = 0
    for g in gaps:
        if g > prev and line[prev:g].strip():
            parts.append(line[prev:g])
            prev = g + 1
    parts.append(line[prev:])
    out = []
    for k, part in enumerate(parts):
        text = part if k == 0 else ind(k) + part.lstrip()
        if k < len(parts) - 1:
            text = text.rstrip() + pre(k) + '\\' + post(k)
        out.append(text)
    return out


def scale_fillers(rng, n, kind):
    if kind == 'blank':
        return [''] * n
    if kind == 'spaces':
        return [' ' * rng.randint(1, 6) for _ in range(n)]
    if kind == 'hash':
        return ['#'] * n
    if kind == 'comment':
        return ['# comment %d: x = %d \\' % (i, i) if i % 3 == 0 else '    # comment %d' % i for i in range(n)]
    return [rng.choice(COMMENTS) for _ in range(n)]


def scale_wide_fillers(n):
    """ONE inserted line whose width is n"""
    return [('long-comment', '#' + 'x' * n), ('deep-comment', ' ' * n + '# deep'), ('deep-tab-comment', '\t' * n + '#'), ('wide-blank', ' ' * n),
            ('wide-tab-blank', '\t' * n), ('comment-blanks-backslash', '# c' + ' ' * n + '\\'), ('comment-backslash-blanks', '# c \\' + ' ' * n),
            ('wide-exotic-blank', '\u3000' * n)]


def scale_layout_cases(ctx, rng):
    """(dimension, n, variant, logical lines, physical lines, cuts or None=random few) - program-level cases"""
    programs = [('fixed', SCALE_PROGRAM)]
    for k in range(2):
        programs.append((f'gen{k}', gen_program(rng)[0]))
    programs.append(('bad0', break_program(rng, SCALE_PROGRAM)))
    programs.append(('bad1', SCALE_PROGRAM[:9] + SCALE_PROGRAM[10:]))       # an endif is missing: the error path
    small = ['', '', ' ', '    ', '\t']

    def is_kw(line):
        return line.strip() in KEYWORD_LINES

    # A / B / AB: indentation width, trailing blanks, both, padding to a column
    for n in scale_sizes(ctx, rng, None):
        for pname, logical in programs[:3] if n <= 256 else programs[:1]:
            unit = rng.choice(SCALE_UNITS)
            yield 'indent', n, 'all:' + repr(unit), logical, [' ' * n + ln for ln in logical], None
            yield 'indent', n, 'all-unit:' + repr(unit), logical, [(unit * n)[:n] + ln for ln in logical], None
            yield 'indent', n, 'keyword-lines', logical, [(rng.choice([' ', '\t']) * n if is_kw(ln) else rng.choice(small)) + ln for ln in logical], None
            k = rng.randrange(len(logical))
            yield 'indent', n, 'one-line', logical, [(' ' * n if i == k else '') + ln for i, ln in enumerate(logical)], None
            yield 'trailing', n, 'all', logical, [ln + ' ' * n for ln in logical], None
            yield 'trailing', n, 'all-unit:' + repr(unit), logical, [rng.choice(small) + ln + (unit * n)[:n] for ln in logical], None
            yield 'trailing', n, 'keyword-lines', logical, [rng.choice(small) + ln + (rng.choice([' ', '\t']) * n if is_kw(ln) else '') for ln in logical], None
            yield 'trailing', n, 'pad-to-column', logical, [(ind + ln).ljust(n) for ln in logical for ind in [rng.choice(small)]], None
            m = rng.choice(SCALE_SIZES[:-1])
            yield 'indent+trailing', n, f'trailing:{m}', logical, [' ' * n + ln + ' ' * m for ln in logical], None
        for pname, logical in programs[3:] if n in (9, 65, 129) or not _scale_quick(ctx) and n <= 256 else []:
            yield 'indent', n, 'rejected-program', logical, ['\t' * n + ln for ln in logical], None
            yield 'trailing', n, 'rejected-program', logical, [ln + ' ' * n for ln in logical], None

    # C: nesting depth, indentation proportional to the depth
    for d in scale_sizes(ctx, rng, 256 if _scale_quick(ctx) else 1000):
        prog = nested_program(rng, d)
        logical = [ln for _, ln in prog]
        for unit in [rng.choice(['  ', '    ', '\t']), rng.choice([' ', '        ', ' \t', '\u3000'])] if d <= 256 else [' ']:
            yield 'nesting', d, 'unit:' + repr(unit), logical, [unit * lvl + ln for lvl, ln in prog], None
        yield 'nesting', d, 'reverse-indent', logical, [' ' * (d - lvl) + ln + ' ' * lvl for lvl, ln in prog], None

    # D: number of inserted blank / comment lines, and the width of one inserted line
    logical = SCALE_PROGRAM
    cont_ix = [i for i, ln in enumerate(logical) if gap_positions(ln)]
    for n in scale_sizes(ctx, rng, None):
        for kind in ['blank', 'spaces', 'hash', 'comment', 'mixed'] if n <= 256 else [rng.choice(['blank', 'comment']), 'mixed']:
            pos = rng.choice(['before', 'after', 'between', 'in-continuation', 'in-continuation'] + (['everywhere'] if n <= 17 else []))
            fill = scale_fillers(rng, n, kind)
            if pos == 'before':
                phys = fill + logical
            elif pos == 'after':
                phys = logical + fill
            elif pos == 'between':
                k = rng.randrange(1, len(logical))
                phys = logical[:k] + fill + logical[k:]
            elif pos == 'everywhere':
                phys = list(fill)
                for ln in logical:
                    phys += [ln] + scale_fillers(rng, n, kind)
            else:
                k = rng.choice(cont_ix)
                gaps = gap_positions(logical[k])
                pieces = break_at(logical[k], sorted(rng.sample(gaps, min(len(gaps), rng.choice([1, 1, 2])))))
                mid = [pieces[0]]
                for p in pieces[1:]:
                    mid += scale_fillers(rng, n, kind) + [p]
                phys = logical[:k] + mid + logical[k + 1:]
            yield 'fill-count', n, kind + ':' + pos, logical, phys, None
        for wname, wide in scale_wide_fillers(n):
            k = rng.randrange(0, len(logical) + 1)
            yield 'fill-width', n, wname, logical, logical[:k] + [wide] + logical[k:], None
            k = rng.choice(cont_ix)
            pieces = break_at(logical[k], gap_positions(logical[k])[:1])
            if len(pieces) == 2:
                yield 'fill-width', n, wname + ':in-continuation', logical, logical[:k] + [pieces[0], wide, pieces[1]] + logical[k + 1:], None

    # E: continuation pieces (a logical line of n+1 pieces) and the blanks around the backslash
    for n in scale_sizes(ctx, rng, None):
        args = ', '.join(["'a  %d'" % i if i % 7 == 3 else str(i % 10) for i in range(n + 1)])
        names = ', '.join('a%d' % i for i in range(n + 1))
        family = [('call', ['if x:', 'v = f(' + args + ')', 'else:', 'v = 0', 'endif']),
                  ('function-header', ['function f(' + names + '...):', 'return a0', 'endfunction']),
                  ('for-values', ['for x, i in f(' + args + '):', 'continue', 'endfor']),
                  ('jumpif', ['lbl:', 'jumpif (f(' + args + ')) lbl'])]
        if n <= 256:
            family.append(('binary-chain', ['while 1' + ''.join(' || a%d' % i for i in range(n)) + ' :', 'break', 'endwhile']))
        for vname, logical in family:
            ix = max(range(len(logical)), key=lambda i: len(logical[i]))
            gaps = gap_positions(logical[ix])
            gaps = gaps[max(0, len(gaps) - n):] if n else []
            style = rng.randrange(3)
            pieces = break_at(logical[ix], gaps, pre=lambda k: [' ', '', '\t  '][style], post=lambda k: ['', ' ', '\t'][(k + style) % 3],
                              ind=lambda k: ['', '    ', '\t'][(k * style) % 3])
            yield 'pieces', n, vname, logical, logical[:ix] + pieces + logical[ix + 1:], None
        logical = ['while x:', 'v = 1 + f(2, 3)', 'break', 'endwhile']
        gaps = gap_positions(logical[1])
        for g in (gaps[0], gaps[2], gaps[-1]):
            unit = rng.choice([' ', '\t', '\u3000'])
            yield 'backslash', n, 'blanks-before', logical, logical[:1] + break_at(logical[1], [g], pre=lambda k: unit * n) + logical[2:], None
            yield 'backslash', n, 'blanks-after', logical, logical[:1] + break_at(logical[1], [g], post=lambda k: unit * n) + logical[2:], None
            yield 'backslash', n, 'continued-indent', logical, logical[:1] + break_at(logical[1], [g], ind=lambda k: unit * n) + logical[2:], None
        yield 'backslash', n, 'all-three', logical, logical[:1] + break_at(logical[1], gaps, pre=lambda k: ' ' * n, post=lambda k: ' ' * n, ind=lambda k: ' ' * n) + logical[2:], None
        yield 'backslash', n, 'keyword-line', ['if x:', 'y = 1', 'else :', 'y = 2', 'endif'], ['if x:', 'y = 1', ' ' * n + 'else' + ' ' * n + '\\' + ' ' * n, ' ' * n + ':', 'y = 2', 'endif'], None

    # F: chunk count (n cuts), one chunk per line, n empty chunks
    for n in scale_sizes(ctx, rng, None):
        logical = long_program(max(8, n + rng.randint(1, 9))) if rng.random() < 0.5 else (SCALE_PROGRAM * (1 + n // 25))
        phys = physical_lines(rng, logical, indent=WS_PLAIN, trailing=['', '', ' ', '\t '], breaks=rng.choice([0.0, 0.1]), comments_p=rng.choice([0.0, 0.3]))
        nb = len(phys) - 1
        yield 'chunks', n, 'cuts', logical, phys, set(rng.sample(range(nb), min(n, nb)))
        yield 'chunks', n, 'first-boundaries', logical, phys, set(range(min(n, nb)))
        yield 'chunks', n, 'empty-chunks', SCALE_PROGRAM, ('empty', n), None

    # G: token / line length
    for n in scale_sizes(ctx, rng, None):
        body = ('a b  ' * n)[:n]
        for vname, line in [('string', "s = '" + body + "'"), ('dstring', 's = f("' + body + '", 1)'), ('identifier', 'v' + 'x' * n + ' = 1'),
                            ('label', 'L' + 'b' * n + ':'), ('include', "include '" + 'u' * n + ".bare'"), ('include-system', 'include <' + body.replace(' ', '_') + '>'),
                            ('bracket-name', 'w = [' + body.replace(']', 'x') + 'n] + 1'), ('call-args', 'f(' + ', '.join(['1'] * (n + 1)) + ')'),
                            ('jump', 'jump L' + 'b' * n), ('number', 'k = 1' + '0' * min(n, 300) + ' + 1')]:
            logical = [line] + SCALE_PROGRAM[:21]
            phys = physical_lines(rng, logical, indent=WS_PLAIN, trailing=['', ' ', '\t', '   '], breaks=rng.choice([0.0, 0.3, 1.0]), comments_p=0.2)
            yield 'length', n, vname, logical, phys, None
            yield 'length', n, vname + ':padded', logical, [' ' * rng.choice(SCALE_SIZES[:9]) + ln + ' ' * rng.choice(SCALE_SIZES[:9]) for ln in logical], None

    # H: program length (n logical lines)
    for n in scale_sizes(ctx, rng, None):
        logical = long_program(n)
        for mode in ('plain', 'broken'):
            phys = physical_lines(rng, logical, indent=WS_PLAIN, trailing=['', '', ' ', '\t '], breaks=0.0 if mode == 'plain' else 0.4, comments_p=0.3)
            yield 'program-lines', n, mode, logical, phys, None


def scale_chunks(rng, phys, cuts):
    if isinstance(phys, tuple):                # n empty chunks among the lines of the fixed program, one chunk per line
        chunks = list(SCALE_PROGRAM)
        for _ in range(phys[1]):
            chunks.insert(rng.randint(0, len(chunks)), '')
        return chunks, list(chunks)
    phys = list(phys)
    nb = len(phys) - 1
    if cuts is None:
        cuts = set(rng.sample(range(nb), min(nb, rng.choice([0, 0, 1, 3, 6])))) if nb > 0 else set()
    return assemble(rng, phys, ['lf', 'crlf', 'mixed'][rng.randrange(3)], cuts, rng.random() < 0.5), phys


def stream_scale(ctx, oracle_only=False):
    """oracle_only (used by search): every size of SCALE_EXTRA as in the thorough tier, other random choices, no model comparison"""
    rng = ctx.rng('scale-search' if oracle_only else 'scale')
    st = None if oracle_only else ctx.stream(
        'scale', 'SCALE axis (sizes 0,1,2,9,10,11,16,17,64,65,100,101,128,129,256,1000,4096 + per-run extras; thorough: 41 more sizes up to 4097; nesting depth <= 256 / 1000) for every layout '
                 'dimension: indentation width (all lines / keyword-only lines / one line; blank, tab, mixed and exotic units), trailing blanks '
                 '(incl. padding every line to column n), both, nesting depth d with indentation proportional to the depth, n inserted '
                 'blank/comment lines (before, after, between, everywhere, inside a continued line), ONE inserted comment/blank line of width n, '
                 'a logical line of n+1 continuation pieces (call, function header, for, jumpif, binary chain), n blanks before / after the '
                 'backslash and as indentation of the continued piece, n chunk cuts / n empty chunks, tokens of length n (string, name, label, '
                 'url, bracket name, n arguments), programs of n logical lines; single lines of every statement kind (keyword-only lines and their '
                 'near misses included) with indentation / trailing blanks / padding n; oracle: identical model (same error text) as the '
                 'canonical text; model: Text physical+logical lines (inputs <= 300k chars), Scan.shape of the single lines; '
                 'non-trivial = n >= 9')
    bases = {}
    failed = set()

    def base_of(logical):
        key = id(logical)
        if key not in bases:
            bases[key] = (logical, run_parse('\n'.join(logical)))
        return bases[key][1]

    model_reqs, model_meta = [], []
    for dim, n, variant, logical, phys, cuts in scale_layout_cases(ctx, rng):
        base = base_of(logical)
        if base[0] == 'exc':                    # a host limit of the expression parser (recursion), not a layout question
            continue
        chunks, phys_lines = scale_chunks(rng, phys, cuts)
        how, arg = as_container(rng, chunks)
        res = run_parse(arg)
        bad = not same_program(base, res)
        if not bad and len(chunks) > 1 and rng.random() < 0.3:
            how, chunks2 = 'str', [rng.choice(['\n', '\r\n']).join(chunks)]
            if not same_program(base, run_parse(chunks2[0])):
                bad, chunks, res = True, chunks2, run_parse(chunks2[0])
        if bad and (dim, variant.split(':')[0]) not in failed:
            failed.add((dim, variant.split(':')[0]))
            ctx.witness('layout', {'original': '\n'.join(logical), 'chunks': chunks, 'as': how}, brief(base), brief(res),
                        oracle_detail=f'scale: {dim} n={n} ({variant})')
        if res[0] == 'err' and how != 'str':
            msg = first_physical_line_check(chunks, res)
            if msg and ('first-physical-line', dim) not in failed:
                failed.add(('first-physical-line', dim))
                ctx.witness('first-physical-line', {'chunks': list(chunks), 'as': how}, 'error.line starts with the text of physical line error.line_number', msg)
        if st is not None:
            size = sum(len(c) for c in chunks)
            st.case([dim, n, variant, len(chunks), hashlib.sha256(json.dumps(chunks).encode()).hexdigest()[:12]], nontrivial=n >= 9,
                    tags=['dim:' + dim, 'n:%d' % n if n in SCALE_SIZES else 'n:extra', 'as:' + how, 'base:' + base[0]])
            if size <= 300000:
                model_reqs.append({'op': 'lines', 'chunks': chunks})
                model_meta.append((dim, n, variant, logical, chunks))

    # single lines of every statement kind under indentation / trailing blanks / padding of size n
    line_cases = []
    for n in scale_sizes(ctx, rng, None, extra=6):
        for line in SCALE_LINES:
            unit = rng.choice(SCALE_UNITS)
            variants = [('line-indent', ' ' * n + line), ('line-trailing', line + ' ' * n), ('line-pad', line.ljust(n)),
                        ('line-indent+trailing', (unit * n)[:n] + line + rng.choice(SCALE_UNITS) * rng.choice(SCALE_SIZES[:12]))]
            if n > 256:
                variants = variants[:2] if line in KEYWORD_LINES else [rng.choice(variants)]
            for dim, text in variants:
                line_cases.append((dim, n, line, text))
    resps = [None] * len(line_cases) if oracle_only else ctx.driver.batch([{'op': 'classify', 'line': text} for _, _, _, text in line_cases])
    single = {}
    for (dim, n, line, text), model in zip(line_cases, resps):
        if line not in single:
            single[line] = run_parse([line])
        base = single[line]
        if oracle_only:
            out = run_parse([text])
        else:
            shape, out = impl_shape(text)
        if not same_program(base, out) and (dim, line) not in failed:
            failed.add((dim, line))
            ctx.witness('layout', {'original': line, 'chunks': [text], 'as': 'list'}, brief(base), brief(out), oracle_detail=f'scale: {dim} n={n}')
        if oracle_only:
            continue
        st.case([dim, n, line], nontrivial=n >= 9, tags=['dim:' + dim, 'n:%d' % n if n in SCALE_SIZES else 'n:extra', 'base:' + base[0],
                                                         'keyword-line' if line in KEYWORD_LINES else 'kind:' + str(model.get('kind'))])
        if shape is None:
            if is_plain_line(text):
                check_line_atomic(ctx, text)
            continue
        ctx.compare('scale', {'line': text, 'what': 'matched pattern and groups'}, jsonable(shape), model)
        if 'kind' in model:
            ctx.compare('scale', {'line': text, 'what': 'parse_script([line]) outcome'}, jsonable(out), jsonable(expected_single_line_outcome(text, model)))
    if oracle_only:
        return

    # the model on the same texts: physical lines, logical lines (texts up to blanks at the ends = the canonical lines), spec = mirror
    parser = P()
    resps = ctx.driver.batch(model_reqs)
    for (dim, n, variant, logical, chunks), resp in zip(model_meta, resps):
        impl_phys = [ln for ch in chunks for ln in parser._R_SCRIPT_LINE_SPLIT.split(ch)]
        impl_lines, out = impl_logical_lines(chunks)
        model_lines = [t for _, t in resp['lines']]
        model_view = model_lines if out[0] == 'ok' else model_lines[:len(impl_lines)]
        what = {'dim': dim, 'n': n, 'variant': variant, 'chunks': chunks if sum(len(c) for c in chunks) < 3000 else len(chunks)}
        ctx.compare('scale', dict(what, what='physical+logical lines'), [impl_phys, impl_lines, True], [resp['phys'], model_view, resp['specAgrees']])
        if dim not in ('pieces', 'backslash', 'length', 'program-lines', 'chunks', 'fill-count', 'fill-width') and resp['error'] is None:
            # no continuation in these dimensions: the model's logical lines are the canonical lines up to blanks at the ends
            ctx.compare('scale', dict(what, what='model logical lines are layout independent'), [ln.strip() for ln in logical],
                        [t.strip() for t in model_lines])


def stream_charclass(ctx):
    st = ctx.stream('charclass', 'every code point 0..0x10FFFF (surrogates excluded): re \\s, str.strip(), re \\w, [A-Za-z_] vs Text.isSpace / '
                                 'isWord / isIdStart (compared as range lists); non-trivial = a block containing a white-space or word code point')
    rs, rw, ri = re.compile(r'\s'), re.compile(r'\w'), re.compile(r'[A-Za-z_]')
    step = 0x4000
    reqs = [{'op': 'charclass', 'lo': lo, 'hi': min(lo + step, 0x110000)} for lo in range(0, 0x110000, step)]
    resps = ctx.driver.batch(reqs)

    def ranges(pred, lo, hi):
        out = []
        start = None
        for c in range(lo, hi):
            ok = not 0xd800 <= c < 0xe000 and pred(chr(c))
            if ok and start is None:
                start = c
            elif not ok and start is not None:
                out.append([start, c - 1])
                start = None
        if start is not None:
            out.append([start, hi - 1])
        return out
    for req, resp in zip(reqs, resps):
        lo, hi = req['lo'], req['hi']
        impl = {'space': ranges(lambda ch: rs.match(ch) is not None, lo, hi), 'word': ranges(lambda ch: rw.match(ch) is not None, lo, hi),
                'idstart': ranges(lambda ch: ri.match(ch) is not None, lo, hi)}
        strip = ranges(lambda ch: ch.strip() == '', lo, hi)
        st.case([lo, hi], nontrivial=bool(impl['space'] or impl['word']), tags=['block'])
        ctx.compare('charclass', {'lo': lo, 'hi': hi}, impl, resp)
        ctx.compare('charclass', {'lo': lo, 'hi': hi, 'what': 'str.strip() white space = regex white space'}, strip, resp['space'])
    st.exhaustive = True


def streams(ctx):
    try:
        stream_charclass(ctx)
        stream_lines(ctx)
        stream_forms(ctx)
        stream_classify(ctx)
        stream_errmsg(ctx)
        stream_scale(ctx)
        stream_layout(ctx)
    finally:
        # the smallest failing input becomes the replay file
        # (the property's own layout oracles first, the one that observes the cascade through the regex proxies last)
        # a history witness without a history, and a shipped file that fails only after what was parsed before, do not replay alone
        rank = {'input-form': 0, 'layout': 0, 'caller-owns-returned-model': 0, 'only-lf-crlf-end-a-line': 2, 'shipped-script-parses': 3}

        def key(w):
            r = rank.get(w.get('oracle'), 1)
            if w.get('oracle') == 'parse-independent-of-history':
                r = 1 if w['input'].get('history') else 4
            return (r, len(json.dumps(w, default=str)))
        ctx.witnesses.sort(key=key)


# ---------------------------------------------------------------------------------------------------------------------
# Search / replay
# ---------------------------------------------------------------------------------------------------------------------

def search(ctx):
    rng = ctx.rng('search')
    parser = P()
    # 1. caret oracle, every length 0..400 x every column
    for n in range(0, 401):
        line = make_line(n, n)
        for col in range(1, n + 2):
            try:
                bad = caret_check(line, col, str(parser.BareScriptParserError('Syntax error', line, col, 3)))
            except Exception as exc:  # pylint: disable=broad-except
                bad = f'{type(exc).__name__}: {exc}'
            if bad:
                ctx.witness('caret', {'line': line, 'column': col}, 'character under the caret is line[column-1]', bad)
                return
    # 2. input forms: the alien-character family, then soups of physical lines, as one string vs chunk sequences
    before = len(ctx.witnesses)
    atomic_seen = set()
    for _, text in forms_cases(ctx, rng):
        lines = ref_lines(text)
        check_input_forms(ctx, rng, lines, text)
        for ln in lines:
            if ln not in atomic_seen and is_plain_line(ln):
                atomic_seen.add(ln)
                check_line_atomic(ctx, ln)
        if len(ctx.witnesses) > before:
            return
    for _ in range(ctx.scale(20000, 100000)):
        phys = [rng.choice(['', ''] + WS_PLAIN + WS_EXOTIC) + rng.choice(SOUP) + rng.choice(['', ''] + WS_PLAIN + WS_EXOTIC) for _ in range(rng.randint(1, 6))]
        check_input_forms(ctx, rng, [ln for p in phys for ln in ref_lines(p)])
        if len(ctx.witnesses) > before:
            return
    # 2b. the SCALE axis of every layout dimension with all sizes (implementation oracle only)
    _SCALE_FULL[0] = True
    try:
        stream_scale(ctx, oracle_only=True)
    finally:
        _SCALE_FULL[0] = False
    if len(ctx.witnesses) > before:
        return
    # 3. layout oracle: corpus first, then many programs, small and large rewrites
    programs = [item['logical'] for item in load_corpus() if item.get('stream') == 'layout']
    programs += [[ln] for ln in CLASSIFY_BASE if run_parse(ln)[0] == 'ok']
    for _ in range(ctx.scale(1500, 8000)):
        programs.append(gen_program(rng)[0])
    for _, text in shipped_scripts():
        programs.append(impl_logical_lines(text)[0])
    for logical in programs:
        if not logical:
            continue
        original = '\n'.join(logical)
        base = run_parse(original)
        if base[0] == 'exc':
            ctx.witness('only-parser-errors', {'original': original}, 'BareScriptParserError or a model', base[1])
            return
        for desc, chunks, _ in layout_cases(ctx, rng, 'search', logical, 12, exhaustive_chunks=False):
            how, arg = as_container(rng, chunks)
            res = run_parse(arg)
            if not same_program(base, res):
                ctx.witness('layout', {'original': original, 'chunks': chunks, 'as': how}, brief(base), brief(res))
                return
        again = run_parse(original)
        if again != base:
            ctx.witness('stateless', {'text': original}, brief(base), brief(again))
            return


def replay(witness):
    if not isinstance(witness, dict):
        raise fw.Infra('the recorded witness was truncated and cannot be replayed; re-run the check')
    oracle = witness['oracle']
    inp = witness['input']
    parser = P()
    if oracle in ('layout', 'layout-keepends'):
        base = run_parse(inp['original'])
        return not same_program(base, run_parse(feed(inp.get('as', 'list'), inp['chunks'])))
    if oracle == 'layout-start-line':
        base = run_parse(inp['original'])
        res_s = run_parse(list(inp['chunks']), inp['start'])
        if not same_program(base, res_s):
            return True
        if res_s[0] == 'err':
            res_1 = run_parse(list(inp['chunks']), 1)
            return res_1[0] != 'err' or res_s[1:4] != res_1[1:4] or res_s[4] != res_1[4] + inp['start'] - 1
        return False
    if oracle == 'input-form':
        return not same_program(run_parse(list(inp['lines'])), run_parse(feed(inp['as'], inp['chunks'])))
    if oracle == 'only-lf-crlf-end-a-line':
        return impl_logical_lines(feed(inp['as'], [inp['line']]))[0] != [inp['line']]
    if oracle == 'stateless':
        return run_parse(inp['text']) != run_parse(inp['text'])
    if oracle == 'parse-independent-of-history':
        if not inp.get('history'):
            return False
        alone = fw.fresh_parse([(inp['kind'], inp['text'])])[0]
        return fw.fresh_parse([(inp['kind'], h) for h in inp['history']] + [(inp['kind'], inp['text'])])[-1] != alone
    if oracle == 'stateless-expr':
        return run_expr(inp['text']) != run_expr(inp['text'])
    if oracle == 'returned-models-disjoint':
        return disjoint_failure([tuple(x) for x in inp['items']]) is not None
    if oracle == 'caller-owns-returned-model':
        return caller_owns_failure([tuple(x) for x in inp['edit']], inp['style'], [tuple(x) for x in inp['then']]) is not None
    if oracle == 'caret':
        try:
            return caret_check(inp['line'], inp['column'], str(parser.BareScriptParserError('Syntax error', inp['line'], inp['column']))) is not None
        except Exception:  # pylint: disable=broad-except
            return True
    if oracle == 'first-physical-line':
        return first_physical_line_check(inp['chunks'], run_parse(feed(inp.get('as', 'list'), inp['chunks']))) is not None
    if oracle == 'only-parser-errors':
        return run_parse(inp['original'])[0] == 'exc'
    if oracle == 'shipped-script-parses':
        return any(run_parse(text)[0] != 'ok' for name, text in shipped_scripts() if name == inp['file'])
    return False


LEVEL_TEXT = ('Theorems for all texts: physical lines do not depend on LF vs CRLF terminators nor on how the text is cut into chunks at line '
              'boundaries; the line loop of parse_script (mirror) equals the specification "drop comment/blank lines, join maximal backslash '
              'runs"; inserting comment/blank lines anywhere (also inside a continued line) keeps the logical line texts and shifts indices as '
              'expected; a continued line equals its parts joined by one blank; the statement cascade ignores indentation (and, for the '
              'statement kinds without a free-text tail, trailing blanks). Tied to parser.py by the pinned pattern sources (Gen/Regex), by '
              'regex-proxy observation of the logical lines / first matching pattern / groups, and by the layout oracle run on the implementation. '
              'Round 4: the one-string branch of parse_script is exercised with every character other text APIs take for a line boundary or a '
              'blank (stream forms, oracles input-form and only-lf-crlf-end-a-line; the lines stream feeds str/list/tuple/generator), and '
              'the error path of "no state between calls" (an accepted text after many rejected ones, fresh-interpreter baseline). '
              'Round 9: stream scale drives every layout dimension (indentation width, trailing blanks, nesting depth, inserted blank/comment '
              'lines and their width, continuation pieces and the blanks around the backslash, chunk count, token and program length) through a '
              'geometric size axis 0..4096 under the layout oracle.')
LEVEL_NOTE = ('Trusted: Lean kernel; extract.py; this harness. Modelled not verified: CPython re (recognisers re-implemented by hand), Unicode '
              'white-space / word tables (exhaustively compared each run). The lift of layout independence through expression TEXT '
              '(parse_expression skips blanks before every token) belongs to ExprParse: here it is a hypothesis of leading_ws_irrelevant and is '
              'exercised on the implementation by the layout oracle (continuation at every inter-token gap). Trailing blanks: proved per '
              'recogniser for keyword-only statements, else, if/elif/while and return (trailing_ws_irrelevant_partial, keyword_line_layout); '
              'for the other statement kinds correspondence-strength. Statelessness (parse_stateless of DESIGN) is immediate in Lean (functions) and '
              'is a property of the Python side: checked by the stateless stream (re-parse in shuffled order after mutating earlier results) and, '
              'round 10, by the owned stream / the history stream: returned models share no dict / list object and stay the same when the caller edits '
              'a returned model everywhere in place (identity and in-place edits are host-level: implementation-side oracles only).')


# extension: a line broken at ANY blank run, for every statement kind (DESIGN 13.9)
from props import c10x  # noqa: E402  pylint: disable=wrong-import-position
c10x.EXTRA_ROOTS = ['Drv.C10X']
fw.attach_extension(globals(), c10x)
