"""C19 extension streams: dataFilter / dataCalculatedField / dataJoin evaluate their expression TEXT with the modelled parser and evaluator
(BareModel/DataExpr.lean: `ExprParse.parseExpr` then `Machine.evalExpr` with locals = the row, globals overridden by `variables`,
built-ins on, the machine state threaded through the rows; theorems in BareProofs/C19Expr.lean) run by `drv_c19y` against the real
`library.SCRIPT_FUNCTIONS['dataFilter' | 'dataCalculatedField' | 'dataJoin']`.  Attached to harness/props/C19.py.

Wire (Drv/C19Y.lean): values as in Drv/ExecJson (null / bool / str / {"n":[num,den]} / [..] / {"o":[[k,v]..]} / {"f":name}); a row is
[[field, value] ...] in insertion order; a case = {op, prelude (script run first), globals, max, data, right, text, textR, field,
isLeftJoin, vars}.  Numbers are small integers and dyadic fractions (exactly representable).
"""

import copy
import re
from fractions import Fraction

import fw
import progen

THEOREMS = [
    'C19Expr.filter_expr_spec', 'C19Expr.filter_same_rows', 'C19Expr.calc_expr_spec', 'C19Expr.setRows_full', 'C19Expr.join_expr_spec',
    'C19Expr.join_expr_text', 'C19Expr.joinNames_total',
    'C19Expr.filter_expr_pure', 'C19Expr.calc_expr_pure', 'C19Expr.join_expr_pure', 'C19Expr.filter_expr_pure_data',
    'C19Expr.row_is_locals', 'C19Expr.row_is_locals_func', 'C19Expr.variables_shadow_globals',
    'C19Expr.data_expr_parse_error', 'C19Expr.data_expr_counts', 'C19Expr.data_expr_globals',
    'C19Expr.filter_print_roundtrip', 'C19Expr.calc_print_roundtrip', 'C19Expr.join_print_roundtrip',
]
LEAN_TARGETS = ['BareProofs.C19ExprLemmas', 'BareProofs.C19Expr']
EXTRA_TARGETS = ['drv_c19y']

PRELUDE = '''\
ticks = 0
function tick(x):
    systemGlobalSet('ticks', systemGlobalGet('ticks') + 1)
    return x
endfunction
function spin(n):
    i = 0
    while i < n:
        i = i + 1
    endwhile
    return i
endfunction
function setg(v):
    g1 = 'local only'
    systemGlobalSet('g1', v)
    return v
endfunction
function noisy(x):
    systemLog('noisy ' + x)
    return x
endfunction
'''
PRELUDES = ['', PRELUDE]

FIELDS = ['a', 'b', 'c', 'n', 'x', 'max', 'len', 'my field', 'true', 'g1', 'tick', 'z9', 'null']
GLOBAL_NAMES = ['g1', 'n', 'a', 'x', 'lim']
VAR_NAMES = ['a', 'g1', 'v', 'n', 'max', 'ticks']
_IDENT = re.compile(r'^[A-Za-z_]\w*$')


def mods():
    return fw.impl()


def wire(v):
    return progen.value_to_wire(v, mods()['library'].SCRIPT_FUNCTIONS)


def wire_row(r):
    return [[k, wire(v)] for k, v in r.items()]


def wire_table(t):
    return [wire_row(r) for r in t]


def unwire(w):
    """wire value -> Python value (cases are stored / replayed in wire form)"""
    if w is None or isinstance(w, (bool, str)):
        return w
    if isinstance(w, list):
        return [unwire(x) for x in w]
    if 'n' in w:
        fr = Fraction(w['n'][0], w['n'][1])
        return int(fr) if fr.denominator == 1 else float(fr)
    if 'o' in w:
        return {k: unwire(x) for k, x in w['o']}
    raise ValueError(w)


def unwire_row(r):
    return {k: unwire(v) for k, v in r}


# ---------------------------------------------------------------------------------------------------------------------
# generators
# ---------------------------------------------------------------------------------------------------------------------

def gen_cell(rng):
    return rng.choice([None, None, True, False, 0, 1, 2, 3, -1, 7, 0.5, 2.25, -1.5, '', 'x', 'ab', '1', 'b', [], [1, 2], 1, 2, 3])


def gen_row(rng, names):
    r = {}
    for nm in names:
        if rng.random() < 0.8:
            r[nm] = gen_cell(rng)
    return r


def gen_table(rng, max_rows=8):
    names = rng.sample(FIELDS, rng.randint(1, 4))
    if rng.random() < 0.5:
        rng.shuffle(names)
    return [gen_row(rng, names) for _ in range(rng.randint(0, max_rows))]


def name_text(nm):
    return nm if _IDENT.match(nm) else '[' + nm + ']'


def expr_text(e):
    (k, v), = e.items()
    if k == 'variable':
        return name_text(v)
    if k == 'group':
        return '(' + expr_text(v) + ')'
    if k == 'unary':
        return v['op'] + expr_text(v['expr'])
    if k == 'function':
        return v['name'] + '(' + ', '.join(expr_text(a) for a in v['args']) + ')'
    if k == 'binary':
        return expr_text(v['left']) + ' ' + v['op'] + ' ' + expr_text(v['right'])
    return progen.expr_text(e)


OPS = ['+', '-', '*', '/', '%', '**', '==', '!=', '<', '<=', '>', '>=', '&&', '||']
PURE_CALLS = [('max', 2), ('min', 2), ('max', 3), ('abs', 1), ('len', 1), ('if', 3), ('if', 2), ('arrayLength', 1), ('systemType', 1), ('systemBoolean', 1),
              ('mathMax', 2), ('stringLength', 1), ('arrayNew', 2)]
EFFECT_CALLS = [('tick', 1), ('noisy', 1), ('setg', 1), ('systemLog', 1), ('spin', 1), ('nope', 1), ('systemGlobalSet', 2), ('systemGlobalGet', 1)]


def gen_atom(rng, names):
    c = rng.random()
    if c < 0.55:
        return progen.var(rng.choice(names + ['missing', 'g1', 'v', 'lim', 'ticks']))
    if c < 0.8:
        return progen.num(rng.choice([0, 1, 2, 3, 5, 0.5, 2.25]))
    if c < 0.9:
        return progen.string(rng.choice(['', 'x', 'ab', "q'", 'g1']))
    return progen.var(rng.choice(['null', 'true', 'false']))


def gen_expr(rng, names, depth, effects):
    if depth <= 0 or rng.random() < 0.25:
        return gen_atom(rng, names)
    c = rng.random()
    if effects and c < 0.5:
        c = 0.5 + c
    if c < 0.5:
        op = rng.choice(OPS)
        if op == '**':          # exactly representable results only: small literal exponents, power-of-two divisors
            return progen.wf_binary(op, gen_expr(rng, names, depth - 1, effects), progen.num(rng.choice([0, 1, 2, 3])))
        if op in ('/', '%'):
            return progen.wf_binary(op, gen_expr(rng, names, depth - 1, effects), progen.num(rng.choice([1, 2, 4, 0.5, 0, 2])))
        return progen.wf_binary(op, gen_expr(rng, names, depth - 1, effects), gen_expr(rng, names, depth - 1, effects))
    if c < 0.58:
        return progen.unop(rng.choice(['!', '-']), gen_unary_operand(rng, names, depth, effects))
    if c < 0.64:
        return progen.group(gen_expr(rng, names, depth - 1, effects))
    pool = PURE_CALLS + (EFFECT_CALLS * 4 if effects else [])
    fn, arity = rng.choice(pool)
    if fn == 'spin':
        return progen.call('spin', progen.num(rng.choice([0, 1, 3, 6])))
    if fn in ('systemGlobalSet', 'systemGlobalGet'):
        args = [progen.string(rng.choice(['g1', 'n', 'fresh']))] + ([gen_expr(rng, names, depth - 1, effects)] if arity == 2 else [])
        return progen.call(fn, *args)
    if rng.random() < 0.08:            # a row field / variable used as the function
        fn = rng.choice(names + ['v'])
    return progen.call(fn, *[gen_expr(rng, names, depth - 1, effects) for _ in range(arity)])


def gen_unary_operand(rng, names, depth, effects):
    e = gen_expr(rng, names, depth - 1, effects)
    return progen.group(e) if 'binary' in e else e


def mangle(rng, text):
    """malformed (mostly) expression text"""
    c = rng.randint(0, 9)
    if c == 0:
        return text + ' )'
    if c == 1:
        return text + ' +'
    if c == 2:
        return "'unterminated " + text
    if c == 3 and text:
        i = rng.randrange(len(text))
        return text[:i] + text[i + 1:]
    if c == 4:
        return text + ' ' + text
    if c == 5:
        return rng.choice(['', '   ', '(', 'a ,', 'f(', '[x', '1 2', 'a b', '*', '1 +* 2', 'max(1,,2)', 'a = 1', '@', '1..2', 'if(', "'a' 'b'"])
    if c == 6 and text:
        i = rng.randrange(len(text))
        return text[:i] + rng.choice(['(', ')', ',', '"', "'", '[', ']', '#', '\\', '$']) + text[i:]
    if c == 7:
        return '(' + text
    if c == 8:
        return text + ', 1'
    return text.replace(' ', '', 1) + ' !'


_CALL = re.compile(r'([A-Za-z_]\w*)\s*\(')
MODELLED_BUILTINS = {'abs', 'len', 'max', 'min'}


def outside_model(case):
    """a mangled text may by accident spell a built-in the driver host does not model (`spin(` -> `sin(`)"""
    fmap = mods()['library'].EXPRESSION_FUNCTION_MAP
    for t in (case['text'], case['textR'] or ''):          # `2.25` -> `2.2`: not exactly representable (the model's literal is the exact decimal)
        for lit in re.findall(r'\d+\.\d+', t):
            if Fraction(lit) != Fraction(float(lit)):
                return True
    return any(nm in fmap and nm not in MODELLED_BUILTINS for t in (case['text'], case['textR'] or '') for nm in _CALL.findall(t))


def gen_case(rng, op, malformed=False):
    while True:
        case = gen_case1(rng, op, malformed)
        if not outside_model(case):
            return case


def gen_case1(rng, op, malformed=False):
    data = gen_table(rng)
    names = sorted({k for r in data for k in r}) or ['a']
    right = []
    if op == 'join':
        right = gen_table(rng, 6)
        if rng.random() < 0.6:          # colliding field names: a, a2, a3
            base = rng.choice(names)
            for r in right:
                if rng.random() < 0.7:
                    r[base] = gen_cell(rng)
                if rng.random() < 0.3:
                    r[base + '2'] = gen_cell(rng)
            if data and rng.random() < 0.3:
                data[0][base + '2'] = gen_cell(rng)
    prelude = rng.choice([0, 1, 1])
    effects = prelude == 1 and rng.random() < 0.75
    depth = rng.choice([1, 2, 2, 3])
    text = expr_text(gen_expr(rng, names, depth, effects))
    rnames = sorted({k for r in right for k in r}) or names
    text_r = expr_text(gen_expr(rng, rnames, depth, effects)) if op == 'join' and rng.random() < 0.6 else None
    if op == 'join' and rng.random() < 0.5:            # plain key joins: a field on both sides
        text = name_text(rng.choice(names))
        text_r = name_text(rng.choice(rnames)) if rng.random() < 0.7 else None
    if malformed:
        if text_r is not None and rng.random() < 0.4:
            text_r = mangle(rng, text_r)
        else:
            text = mangle(rng, text)
    g = {nm: gen_cell(rng) for nm in GLOBAL_NAMES if rng.random() < 0.6}
    variables = {nm: gen_cell(rng) for nm in VAR_NAMES if rng.random() < 0.5} if rng.random() < 0.5 else None
    return {'op': op, 'prelude': prelude, 'globals': progen.wire_globals(g), 'max': rng.choice([2000, 1000, 1000, 60, 40, 25] if effects else [2000, 1000]),      # never unlimited: a mutated tree must not hang the check
            'data': wire_table(data), 'right': wire_table(right), 'text': text, 'textR': text_r,
            'field': rng.choice(FIELDS + ['new', 'calc']), 'isLeftJoin': rng.random() < 0.5,
            'vars': None if variables is None else wire_row(variables)}


CORPUS = [
    # a row field shadows a global, a variable shadows a global, a built-in is the fallback, a field named like a built-in wins
    {'op': 'filter', 'prelude': 0, 'globals': [['a', {'n': [5, 1]}], ['g1', {'n': [1, 1]}]], 'max': 1000, 'data': [[['a', {'n': [0, 1]}]], [['b', {'n': [1, 1]}]], [['a', {'n': [2, 1]}]]],
     'right': [], 'text': 'a', 'textR': None, 'field': 'f', 'isLeftJoin': False, 'vars': None},
    {'op': 'calc', 'prelude': 0, 'globals': [['g1', {'n': [1, 1]}]], 'max': 1000, 'data': [[['a', {'n': [3, 1]}]], [['max', {'n': [1, 1]}], ['a', {'n': [4, 1]}]], [['max', None], ['a', {'n': [4, 1]}]]],
     'right': [], 'text': 'max(a, g1, 2)', 'textR': None, 'field': 'm', 'isLeftJoin': False, 'vars': [['g1', {'n': [9, 1]}]]},
    # effects: the log order is the row order; a global write survives only without variables; the count is carried back
    {'op': 'filter', 'prelude': 1, 'globals': [], 'max': 1000, 'data': [[['a', 'p']], [['a', 'q']], [['a', '']]], 'right': [], 'text': "noisy(a) != '' && tick(1)", 'textR': None,
     'field': 'f', 'isLeftJoin': False, 'vars': None},
    {'op': 'filter', 'prelude': 1, 'globals': [], 'max': 1000, 'data': [[['a', 'p']], [['a', 'q']], [['a', '']]], 'right': [], 'text': "noisy(a) != '' && tick(1)", 'textR': None,
     'field': 'f', 'isLeftJoin': False, 'vars': [['v', {'n': [1, 1]}]]},
    # the budget is exhausted in the middle of the table: rows before stay updated
    {'op': 'calc', 'prelude': 1, 'globals': [], 'max': 40, 'data': [[['a', {'n': [1, 1]}]], [['a', {'n': [2, 1]}]], [['a', {'n': [3, 1]}]], [['a', {'n': [4, 1]}]]], 'right': [],
     'text': 'spin(3) + a', 'textR': None, 'field': 'a', 'isLeftJoin': False, 'vars': None},
    {'op': 'calc', 'prelude': 1, 'globals': [], 'max': 40, 'data': [[['a', {'n': [1, 1]}]], [['a', {'n': [2, 1]}]], [['a', {'n': [3, 1]}]], [['a', {'n': [4, 1]}]]], 'right': [],
     'text': 'spin(3) + a', 'textR': None, 'field': 'a', 'isLeftJoin': False, 'vars': [['q', None]]},
    # join: right rows are evaluated first; keys of different types never meet; colliding names
    {'op': 'join', 'prelude': 1, 'globals': [], 'max': 1000, 'data': [[['a', {'n': [1, 1]}], ['b', 'l1']], [['a', True], ['b', 'l2']], [['a', '1'], ['b', 'l3']], [['a', {'n': [2, 1]}]]],
     'right': [[['a', {'n': [1, 1]}], ['b', 'r1'], ['b2', 'x']], [['a', '1'], ['c', 'r2']], [['a', {'n': [1, 1]}], ['b', 'r3']]], 'text': "noisy('L' + a) && a", 'textR': "noisy('R' + a) && a",
     'field': 'f', 'isLeftJoin': False, 'vars': None},
    {'op': 'join', 'prelude': 0, 'globals': [], 'max': 1000, 'data': [[['a', {'n': [1, 1]}]]], 'right': [[['a', {'n': [1, 1]}]]], 'text': 'a', 'textR': 'a +', 'field': 'f', 'isLeftJoin': True, 'vars': None},
    {'op': 'filter', 'prelude': 1, 'globals': [], 'max': 1000, 'data': [[['a', {'n': [1, 1]}]]], 'right': [], 'text': 'noisy(1) +', 'textR': None, 'field': 'f', 'isLeftJoin': False, 'vars': None},
    {'op': 'filter', 'prelude': 0, 'globals': [], 'max': 1000, 'data': [[['my field', {'n': [1, 1]}]], [['my field', {'n': [0, 1]}]]], 'right': [], 'text': '[my field] > 0', 'textR': None,
     'field': 'f', 'isLeftJoin': False, 'vars': None},
    {'op': 'filter', 'prelude': 0, 'globals': [], 'max': 1000, 'data': [[['a', {'n': [1, 1]}]], [['a', None]]], 'right': [], 'text': 'nope(a)', 'textR': None, 'field': 'f', 'isLeftJoin': False,
     'vars': None},
]


# ---------------------------------------------------------------------------------------------------------------------
# the real implementation
# ---------------------------------------------------------------------------------------------------------------------

def prelude_model(ix):
    return mods()['parser'].parse_script(PRELUDES[ix])


def fresh_options(case):
    """options after the prelude script ran (globals: the case's + library + the prelude's functions), the log, the table objects"""
    m = mods()
    log = []
    g = {k: unwire(v) for k, v in case['globals']}
    options = {'globals': g, 'maxStatements': case['max'], 'logFn': log.append}
    m['runtime'].execute_script(prelude_model(case['prelude']), options)
    data = [unwire_row(r) for r in case['data']]
    right = [unwire_row(r) for r in case['right']]
    variables = None if case['vars'] is None else unwire_row(case['vars'])
    return options, log, data, right, variables


def state_out(options, log):
    lib = mods()['library'].SCRIPT_FUNCTIONS
    user = [[k, wire(v)] for k, v in options['globals'].items() if not (k in lib and v is lib[k])]
    return {'log': list(log), 'globals': sorted(user, key=lambda kv: kv[0]), 'count': options.get('statementCount')}


def call_args(case, data, right, variables):
    if case['op'] == 'filter':
        return 'dataFilter', [data, case['text'], variables]
    if case['op'] == 'calc':
        return 'dataCalculatedField', [data, case['field'], case['text'], variables]
    return 'dataJoin', [data, right, case['text'], case['textR'], case['isLeftJoin'], variables]


def run_impl(case):
    """the real data function through library.SCRIPT_FUNCTIONS; the answer has the shape of the driver's + identity facts"""
    m = mods()
    options, log, data, right, variables = fresh_options(case)
    rows_before = list(data)
    name, args = call_args(case, data, right, variables)
    out, facts = {}, {}
    try:
        res = m['library'].SCRIPT_FUNCTIONS[name](args, options)
    except m['parser'].BareScriptParserError as exc:
        return {'kind': 'parseErr', 'error': exc.error, 'column': exc.column_number}, {'state': state_out(options, log), 'data': wire_table(data)}
    except m['runtime'].BareScriptRuntimeError as exc:
        out = {'kind': 'err', 'error': str(exc), 'data': wire_table(data)}
    except RecursionError:
        out = {'kind': 'keyErr'}
    else:
        if res is None:
            out = {'kind': 'null'}
        else:
            out = {'kind': 'ok', 'result': wire_table(res)}
            if case['op'] == 'filter':
                ids = [id(r) for r in rows_before]
                facts['same_objects'] = all(id(r) in ids for r in res)
                out['kept'] = [i for i, r in enumerate(rows_before) if any(r is x for x in res)]
            elif case['op'] == 'calc':
                facts['same_objects'] = res is data and all(a is b for a, b in zip(res, rows_before)) and len(res) == len(rows_before)
            else:
                olds = [id(r) for r in rows_before] + [id(r) for r in right]
                facts['fresh_objects'] = all(id(r) not in olds for r in res) and len({id(r) for r in res}) == len(res)
                facts['inputs_unchanged'] = wire_table(data) == case['data'] and wire_table(right) == case['right']
    out.update(state_out(options, log))
    return progen.canon_neg_zero(out), facts


# ---------------------------------------------------------------------------------------------------------------------
# the property's own oracle, written from the statement (independent of the Lean model and of data.py's loops)
# ---------------------------------------------------------------------------------------------------------------------

def okey(v, path=()):
    """key equality of the join: equal values of the same type"""
    if v is None:
        return ('null',)
    if isinstance(v, bool):
        return ('boolean', v)
    if isinstance(v, (int, float)):
        return ('number', Fraction(v))
    if isinstance(v, str):
        return ('string', v)
    if isinstance(v, list):
        if id(v) in path:
            raise RecursionError
        return ('array',) + tuple(okey(x, path + (id(v),)) for x in v)
    if isinstance(v, dict):
        if id(v) in path:
            raise RecursionError
        return ('object',) + tuple((k, okey(v[k], path + (id(v),))) for k in sorted(v))
    return ('other', id(v))


def joined_names(left, right):
    lnames = [k for r in left for k in r]
    rnames = []
    for r in right:
        for k in r:
            if k not in rnames:
                rnames.append(k)
    out = {}
    for nm in rnames:
        if nm not in lnames:
            out[nm] = nm
        else:
            k = 2
            while nm + str(k) in lnames or nm + str(k) in rnames:
                k += 1
            out[nm] = nm + str(k)
    return out


def run_oracle(case):
    """expected outcome: parse once; evaluate row by row, in order, in ONE evaluation state (right rows before left rows); locals = the row;
    globals = globals overridden by variables; global writes are visible afterwards iff there are no variables; count and log always"""
    m = mods()
    parser, runtime, value = m['parser'], m['runtime'], m['value']
    options, log, data, right, variables = fresh_options(case)
    before = state_out(options, log)
    try:
        expr = parser.parse_expression(case['text'])
        expr_r = parser.parse_expression(case['textR']) if case['op'] == 'join' and case['textR'] is not None else expr
    except parser.BareScriptParserError as exc:
        return {'kind': 'parseErr', 'error': exc.error, 'column': exc.column_number}, before
    opts = options
    if variables is not None:
        opts = dict(options)
        merged = dict(options['globals'])
        merged.update(variables)
        opts['globals'] = merged
    out = {}
    try:
        if case['op'] == 'filter':
            res, kept = [], []
            for i, row in enumerate(data):
                if value.value_boolean(runtime.evaluate_expression(expr, opts, row)):
                    res.append(row)
                    kept.append(i)
            out = {'kind': 'ok', 'result': wire_table(res), 'kept': kept}
        elif case['op'] == 'calc':
            for row in data:
                row[case['field']] = runtime.evaluate_expression(expr, opts, row)
            out = {'kind': 'ok', 'result': wire_table(data)}
        else:
            rkeys = [okey(runtime.evaluate_expression(expr_r, opts, row)) for row in right]
            names = joined_names(data, right)
            res = []
            for lrow in data:
                lk = okey(runtime.evaluate_expression(expr, opts, lrow))
                partners = [r for r, k in zip(right, rkeys) if k == lk]
                if partners:
                    for r in partners:
                        j = dict(lrow)
                        for k, v in r.items():
                            assert names[k] not in lrow
                            j[names[k]] = v
                        res.append(j)
                elif not case['isLeftJoin']:
                    res.append(dict(lrow))
            out = {'kind': 'ok', 'result': wire_table(res)}
    except runtime.BareScriptRuntimeError as exc:
        out = {'kind': 'err', 'error': str(exc), 'data': wire_table(data)}
    except RecursionError:
        out = {'kind': 'keyErr'}
    if 'statementCount' in opts:
        options['statementCount'] = opts['statementCount']
    out.update(state_out(options, log))
    return progen.canon_neg_zero(out), before


def oracle_failures(case):
    """[(oracle name, expected, actual)] on the real implementation"""
    fails = []
    imp, facts = run_impl(case)
    exp, before = run_oracle(case)
    if imp['kind'] == 'parseErr':
        if exp != imp:
            fails.append(('c19y-parse-error', exp, imp))
        if facts['state'] != before or facts['data'] != case['data']:
            fails.append(('c19y-parse-error-evaluates-nothing', before, facts['state']))
        return fails, imp
    if exp != imp:
        fails.append(('c19y-' + case['op'] + '-is-the-fold-of-the-evaluator', exp, imp))
    if case.get('lookup') is not None:
        want = lookup_expected(case)
        if want is not None:
            got = [dict(r).get(case['field']) for r in imp.get('result', [])] if imp['kind'] == 'ok' else imp
            if got != [wire(v) for v in want]:
                fails.append(('c19y-row-is-locals', [wire(v) for v in want], got))
    for k, v in facts.items():
        if v is False:
            fails.append(('c19y-' + case['op'] + '-' + k, True, False))
    if imp.get('count') is not None and before['count'] is not None and imp['count'] < before['count']:
        fails.append(('c19y-count-monotone', before['count'], imp['count']))
    return fails, imp


def lookup_expected(case):
    """row_is_locals written from the statement, for a calc case whose text is one plain name `k` or `max(2, 1)`: the row's field, else
    the variable, else the global, else null / the built-in; independent of evaluate_expression"""
    _, _, data, _, variables = fresh_options(case)
    g = {k: unwire(v) for k, v in case['globals']}
    k = case['lookup']
    out = []
    for row in data:
        scope = row if k in row else variables if variables is not None and k in variables else g if k in g else None
        if case['text'] == 'max(2, 1)':
            if scope is None:
                out.append(2)                      # the built-in
            elif scope[k] is None:
                return None                        # `if func_value is not None` fails: Undefined function (the fold oracle checks it)
            else:
                out.append(None)                   # calling a non-function value: null
        else:
            out.append({'null': None, 'true': True, 'false': False}[k] if k in ('null', 'true', 'false') else None if scope is None else scope[k])
        row[case['field']] = out[-1]               # the row being evaluated next may be ... a different row: no effect; kept for the same-field case
    return out


def via_script(case):
    """the same call made from a script (`r = dataFilter(d, t, v)` run by execute_script)"""
    m = mods()
    options, log, data, right, variables = fresh_options(case)
    name, args = call_args(case, data, right, variables)
    g = options['globals']
    names = []
    for i, a in enumerate(args):
        g['__arg%d' % i] = a
        names.append('__arg%d' % i)
    script = m['parser'].parse_script('__r = ' + name + '(' + ', '.join(names) + ')')
    try:
        m['runtime'].execute_script(script, options)
    except m['parser'].BareScriptParserError as exc:
        return {'kind': 'parseErr', 'error': exc.error, 'column': exc.column_number}
    except m['runtime'].BareScriptRuntimeError as exc:
        return {'kind': 'err', 'error': str(exc)}
    res = g.get('__r')
    return {'kind': 'null'} if res is None else progen.canon_neg_zero({'kind': 'ok', 'result': wire_table(res), 'log': list(log)})


# ---------------------------------------------------------------------------------------------------------------------
# streams
# ---------------------------------------------------------------------------------------------------------------------

def model_requests(cases):
    scripts = [progen.canon_script(prelude_model(i)) for i in range(len(PRELUDES))]
    return [dict({k: v for k, v in c.items() if k != 'lookup'}, prelude=scripts[c['prelude']], fuel=20000) for c in cases]


def canon_model(r):
    out = dict(r)
    if 'globals' in out:
        out['globals'] = sorted(out['globals'], key=lambda kv: kv[0])
    return progen.canon_neg_zero(out)


def streams(ctx):
    drv = fw.Driver('drv_c19y')
    rng = ctx.rng('c19y')
    n = ctx.scale(1200, 25000)
    plans = [('dataexpr-lookup', 'calc', False), ('dataexpr-filter', 'filter', False), ('dataexpr-calc', 'calc', False), ('dataexpr-join', 'join', False), ('dataexpr-malformed', None, True)]
    for stream, op, malformed in plans:
        st = ctx.stream(stream, 'tables <= 8 rows x 4 fields (nulls, mixed types, empty / non-empty arrays, fields named like globals, variables, built-ins, keywords, '
                                'bracketed names) x expression TEXTS from the grammar (all operators, unary, groups, `if`, built-ins max/min/abs/len, library and '
                                'script functions with effects: log, global writes, statement budget, undefined functions) x variables / globals: the real '
                                'data function through library.SCRIPT_FUNCTIONS vs drv_c19y (rows, order, kept indices, table after the call, log, globals, '
                                'count, error text / parser error + column) and vs the property oracle (row-by-row evaluate_expression in one state); '
                                'non-trivial = at least 2 rows and (an effectful / erroring / non-constant outcome)')
        cases = [c for c in CORPUS if (malformed and c is None) or (not malformed and c['op'] == op)] if not malformed else []
        if malformed:
            cases += [c for c in CORPUS if c['text'].endswith('+') or (c['textR'] or '').endswith('+')]
            cases += [gen_case(rng, rng.choice(['filter', 'calc', 'join']), malformed=True) for _ in range(n)]
        elif stream == 'dataexpr-lookup':      # the text is ONE name (or `max(2, 1)`): lookup order row > variables > globals > built-in / null
            cases = []
            for _ in range(n // 3):
                c = gen_case(rng, 'calc')
                k = rng.choice(FIELDS + GLOBAL_NAMES + VAR_NAMES + ['missing'])
                c.update(text=name_text(k), lookup=k, prelude=0, max=1000, field=rng.choice(['new', 'calc', k]))
                if rng.random() < 0.25:
                    c.update(text='max(2, 1)', lookup='max')
                    for r in c['data']:
                        if rng.random() < 0.4:
                            r.append(['max', wire(gen_cell(rng))]) if all(kv[0] != 'max' for kv in r) else None
                cases.append(c)
        else:
            cases += [gen_case(rng, op) for _ in range(n)]
        resps = drv.batch(model_requests(cases))
        for ix, (case, resp) in enumerate(zip(cases, resps)):
            fails, imp = oracle_failures(case)
            for name, exp, act in fails:
                ctx.witness(name, case, exp, act)
            model = canon_model(resp)
            if imp['kind'] == 'parseErr':
                model = {k: model.get(k) for k in ('kind', 'error', 'column')}
            ctx.compare(stream, case, imp, model)
            kinds = imp['kind']
            nontrivial = len(case['data']) >= 2 and (kinds != 'ok' or bool(imp.get('log')) or 0 < len(imp.get('result', [])) or case['op'] != 'filter')
            st.case(case, nontrivial=nontrivial, tags=['kind:' + kinds, 'op:' + case['op'], 'vars:' + str(case['vars'] is not None),
                                                      'rows:' + str(min(len(case['data']), 8)), 'log:' + str(bool(imp.get('log')))]
                    + (['budget-error'] if 'Exceeded' in imp.get('error', '') else []) + (['undefined-function'] if 'Undefined' in imp.get('error', '') else []))
            if ix % 7 == 0 and imp['kind'] in ('ok', 'err', 'parseErr') and case['max'] >= 1000 and 'Exceeded' not in imp.get('error', ''):
                vs = via_script(case)
                want = {k: imp[k] for k in vs if k in imp}
                if vs != want:
                    ctx.witness('c19y-via-script', case, want, vs)
    ctx.driver.requests += drv.requests


def replay(witness):
    if not str(witness.get('oracle', '')).startswith('c19y-'):
        return None
    case = witness['input']
    if witness['oracle'] == 'c19y-via-script':
        imp, _ = run_impl(case)
        vs = via_script(case)
        return vs != {k: imp[k] for k in vs if k in imp}
    fails, _ = oracle_failures(case)
    return any(name == witness['oracle'] for name, _, _ in fails)


LEVEL_TEXT_EXT = ('C19Expr: dataFilter / dataCalculatedField / dataJoin evaluate their expression TEXT with the modelled parser and machine (row = locals, variables over globals, state threaded through the rows): each function = the fold of the machine over the rows; for call-free expressions = List.filter / map / relational join; parse errors evaluate nothing; the statement budget fires exactly at L+1.')
