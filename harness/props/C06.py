"""C06 - the parser is total and its diagnostics point at the offending source."""

import json
import os
import random
import re
import sys
from fractions import Fraction

import fw
import progen

ID = 'C06'
LEVEL = 'proof'
LEAN_TARGETS = ['BareProofs.C06', 'BareProofs.C06Caret']
DRIVER = 'drv_c06'
DRIVER_ROOT = 'Drv.C06'
GEN = ['Regex']
THEOREMS = [
    # totality, error positions (all error sources, all eight statement kinds with an expression)
    'C06.parse_total', 'C06.error_position', 'C06.error_kinds', 'C06.first_error_wins', 'C06.shape_offsets',
    'C06.classify_error_column',
    # nothing left open, every logical line accounted for
    'C06.no_open_block_accepted', 'C06.ok_is_stmts', 'C06.open_block_rejected', 'C06.accounts_for_every_line',
    'C06.line_has_effect', 'C06.block_lines_move_the_stack', 'C06.LineEffect.stmts_monotone',
    # line numbers move with the text / the start line number
    'C06.start_line_offsets', 'C06.prepend_is_start_offset', 'C06.prepend_shifts_line_partial', 'C06.prepend_shifts_line_single',
    'C06.stepLine_abs', 'C06.prepend_statements_shift', 'C06.prepend_statements_acceptance',
    # the formatted message (BareProofs/C06Caret.lean)
    'C06.caret_under_same_char', 'C06.caret_in_range', 'C06.caret_row',
]
ASSUMPTIONS = [
    'CPython re engine: the line classifier and token scanners of the model re-implement each anchored pattern by hand '
    '(Gen/Regex pins the pattern sources; correspondence streams tie the behaviour)',
    'an iterable input is read as the one string "\\n".join(chunks): a chunk may hold several lines, and a chunk that ends in a newline '
    'contributes one more (blank) physical line - callers pass lines WITHOUT their trailing newline (file lines with it would count double); '
    'the forms stream exercises both and a lone \\r is never generated',
    'exponents above 200000 are outside the Lean model (exact rational literals): such texts are judged by the oracles on the '
    'implementation only (non-ASCII letters / digits are inside: \\w and \\d of the model are the Unicode classes of re)',
    'host-only string values (lone surrogates, and every non-ASCII blank / digit / letter class of CPython re) cannot be written in the Lean '
    'model (String = scalar values): the host-text stream has implementation-side oracles only; the message formatting '
    '(elision, caret) has no driver operation: theorems on the model arithmetic + exhaustive implementation-side sweep (caret stream)',
]
LEVEL_TEXT = ('Theorems about the Lean model of parse_script (line splitter + continuation joiner, line classifier, token scanners, '
              'stack-based lowering): every error carries line number = start + index of the first physical line of the logical line, '
              'that line text and a column inside it; success implies empty block stack, no open function, no pending continuation; '
              'every successfully parsed logical line is classified once and has a documented effect (statement appended, function opened / '
              'closed, include merged); comment/blank chunks in front give the same outcome and simple statement lines in front the same '
              'error, line number moved by their count; start_line_number + d moves every reported number by d; '
              'the caret of the formatted message sits under the same character for every line length/column (elision arithmetic). '
              'The model is tied to parser.py by differential correspondence on token soup, mutated programs and long lines, and '
              'metamorphic oracles (prepend shifts line number, marker lines survive) run on the implementation; the `forms` stream hands the '
              'same texts over in every input form (string, str subclass, list/tuple/deque/dict keys, generator, iterator, map, bare __iter__, '
              'multi-line chunks) one call after the other in one process: same outcome as the one string, caller object untouched, same '
              'call again same outcome - a failure is reported with the shortest call history that shows it in a NEW process; the `layouts` '
              'stream crosses every diagnostic kind with every start line (omitted, 1, 0, negative, > 2**31) and every layout of the offending '
              'logical line (continued over several physical lines, comments inside the continuation, lone backslash in front), the '
              'deferred diagnostics (block / function left open) included: error, joined line text and first-physical-line number are known '
              'by construction and from the one-line spelling; the `caret` stream puts the fault at every column of every line length 0..400 '
              '(message formatting: complete; real parser faults: every column of the lengths around the elision borders, all statement kinds); '
              'the `host-text` stream runs every character class only a host string has (lone surrogates, byte order mark, NUL, the line '
              'separators of str.splitlines, Unicode blanks / digits / letters, astral and non-characters) through every place of a script, '
              'implementation-side oracles only.')
LEVEL_NOTE = ('Trusted: Lean kernel; extract.py; correspondence harness. Modelled not verified: CPython re. Python recursion limit '
              '(nesting > ~490 in one expression raises RecursionError at the default limit, two frames per level) is outside the model and '
              'outside the quantifier; generators keep nesting <= 50 (every nesting construct x statement kind) and each run records the '
              'measured headroom in its notes. '
              'Token SIZES are not bounded: the scale families run every token class (digits of a literal, identifiers, strings, blanks, '
              'comments, argument lists, line counts) up to 20000 (thorough: 100001) characters, across the host limits 2**53 / 17 digits, '
              '1e308 / 1e-324 and the 4300-digit int<->str limit, with the implementation under the DEFAULT digit limit.')

TOKENS = ['if', 'elif', 'else', 'endif', 'while', 'endwhile', 'for', 'endfor', 'in', 'function', 'endfunction', 'async', 'return',
          'break', 'continue', 'jump', 'jumpif', 'include', ':', '(', ')', ',', '...', '=', '==', '+', '-', '*', '**', '/', '%', '<', '<=',
          '&&', '||', '!', 'a', 'b', 'fn', 'x1', '1', '2.5', "'s'", '"t"', '[a b]', '<u>', "'u.bare'", '\\', '#', ' ', '  ', '\t']

CLOSERS = ['endif', 'endwhile', 'endfor', 'endfunction']


def parse_outcome(parser, text, start=1):
    """-> ('ok', model) | ('err', {error, line, column, lineNumber, message}) | ('host', class name)"""
    try:
        if start == 1:
            return 'ok', parser.parse_script(text)
        return 'ok', parser.parse_script(text, start)
    except parser.BareScriptParserError as exc:
        return 'err', {'error': exc.error, 'line': exc.line, 'column': exc.column_number, 'lineNumber': exc.line_number,
                       'message': str(exc)}
    except RecursionError:
        return 'host', 'RecursionError'
    except Exception as exc:  # pylint: disable=broad-except
        return 'host', type(exc).__name__ + ': ' + str(exc)[:120]


def logical_lines(text, dangling=False):
    """Independent reading of the layout rules: [(first physical line index, joined text)] ; None if a continuation dangles
    (dangling=True: the dangling logical line is the last entry instead)."""
    out = []
    pending = None
    for ix, raw in enumerate(re.split(r'\r?\n', text)):
        if re.match(r'^\s*(?:#.*)?$', raw):
            continue
        cont = re.search(r'\\\s*$', raw) is not None
        body = re.sub(r'\\\s*$', '', raw)
        if pending is None:
            if cont:
                pending = [ix, [body.rstrip()]]
            else:
                out.append((ix, raw))
        else:
            pending[1].append(body.strip())
            if not cont:
                out.append((pending[0], ' '.join(pending[1])))
                pending = None
    if pending is not None:
        return out + [(pending[0], ' '.join(pending[1]))] if dangling else None
    return out


IDENT = r'[A-Za-z_]\w*'


def expr_region(line):
    """Independent reading of the statement forms of the language reference: (offset, text) of the expression a statement
    line carries, or None when the line has a degenerate shape this simple reading does not want to judge."""
    m = re.match(r'^\s*' + IDENT + r'\s*=\s*', line)
    if m:
        return (m.end(), line[m.end():]) if line[m.end():].strip() else None
    stripped = line.rstrip()
    m = (re.match(r'^\s*(?:if|elif|while)\s+', line) or
         re.match(r'^\s*for\s+' + IDENT + r'(?:\s*,\s*' + IDENT + r')?\s+in\s+', line))
    if m and stripped.endswith(':'):
        expr = line[m.end():len(stripped) - 1]
        return (m.end(), expr) if expr.strip() else None
    m = re.match(r'^\s*jumpif\s*\(', line)
    tail = re.search(r'\)\s+' + IDENT + r'\s*$', line)
    if m and tail and m.end() <= tail.start():
        expr = line[m.end():tail.start()]
        return (m.end(), expr) if expr.strip() else None
    m = re.match(r'^\s*return\s+(?=\S)', line)
    if m:
        return m.end(), line[m.end():]
    if re.match(r'^\s*(?:if|elif|while|for|jumpif|return|jump|include|function|async)\b', line):
        return None
    return 0, line


def expr_column_ok(ctx, parser, err, inp, what):
    """An expression error points at the place inside the LINE where the expression parser stopped: offset of the
    statement's expression + the column parse_expression reports for that expression alone."""
    if err['error'] not in ('Syntax error', 'Unmatched parenthesis'):
        if err['error'] != 'Unterminated line continuation' and err['column'] != 1:
            ctx.witness('structure-error-column-1', inp, 1, err, what=what)
            return False
        return True
    region = expr_region(err['line'])
    if region is None:
        return True
    off, expr = region
    try:
        parser.parse_expression(expr)
    except parser.BareScriptParserError as exc:
        if exc.error != err['error']:
            return True
        want = off + exc.column_number
        if want != err['column']:
            ctx.witness('expression-error-column', inp, {'column': want, 'expression': expr, 'offset': off}, err, what=what)
            return False
    except RecursionError:
        pass
    return True


def position_metamorphic(ctx, parser, text, err, start, what, rng=None):
    """For an expression error on a logical line that is one physical line:
    trailing-blanks-keep-column   appending blanks/tabs to that line changes nothing but the line text;
    indent-shifts-column          putting k blanks in front of it moves the column by exactly k.
    Not judged: degenerate statements whose expression is only blanks (`a = `, `if   :`: the pattern hands the LAST blank to
    the expression, so its offset moves with the blanks) and, for the indentation, an expression statement whose error
    is at its first token (parse_expression reports the start of the text it was given: column 1 whatever the indent)."""
    if err['error'] not in ('Syntax error', 'Unmatched parenthesis') or err['lineNumber'] is None:
        return True
    phys = re.split(r'\r?\n', text)
    pix = err['lineNumber'] - start
    if not 0 <= pix < len(phys) or phys[pix] != err['line']:
        return True                    # continued line (or something check_error reports)
    line = err['line']
    region = expr_region(line)
    if region is None or not region[1].strip():
        return True
    ok = True
    k = rng.randint(1, 3) if rng is not None else 2
    blanks = ''.join((rng.choice(' \t') if rng is not None else ' ') for _ in range(k))
    inp = {'text': text, 'start': start}
    # (a) trailing blanks
    what2, res2 = parse_outcome(parser, '\n'.join(phys[:pix] + [line + blanks] + phys[pix + 1:]), start)
    want = {'error': err['error'], 'line': line + blanks, 'column': err['column'], 'lineNumber': err['lineNumber']}
    got = {f: res2.get(f) for f in want} if what2 == 'err' else {'outcome': what2}
    if got != want:
        ctx.witness('trailing-blanks-keep-column', dict(inp, appended=blanks), want, got, what=what)
        ok = False
    # (b) indentation
    indent = len(line) - len(line.lstrip())
    if not (region[0] == 0 and err['column'] <= indent + 1):
        what3, res3 = parse_outcome(parser, '\n'.join(phys[:pix] + [' ' * k + line] + phys[pix + 1:]), start)
        want = {'error': err['error'], 'line': ' ' * k + line, 'column': err['column'] + k, 'lineNumber': err['lineNumber']}
        got = {f: res3.get(f) for f in want} if what3 == 'err' else {'outcome': what3}
        if got != want:
            ctx.witness('indent-shifts-column', dict(inp, indent=k), want, got, what=what)
            ok = False
    return ok


def check_error(ctx, parser, text, err, start, what):
    """Oracles on one reported error. Returns True if fine."""
    ok = True
    ll = logical_lines(text)
    if err['lineNumber'] is None:
        ctx.witness('error-has-line-number', {'text': text, 'start': start}, 'a 1-based line number', err, what=what)
        return False
    if ll is None and err['error'] == 'Unterminated line continuation':
        # the dangling logical line itself: its first physical line's number, the pieces joined, the column just past it
        ix, line = logical_lines(text, dangling=True)[-1]
        want = {'lineNumber': start + ix, 'line': line, 'column': len(line) + 1}
        if want != {f: err[f] for f in want}:
            ctx.witness('unterminated-continuation-position', {'text': text, 'start': start}, want, err, what=what)
            ok = False
    if ll is not None:
        cands = {start + ix: line for ix, line in ll}
        if err['lineNumber'] not in cands:
            ctx.witness('error-line-number-is-a-logical-line', {'text': text, 'start': start}, sorted(cands), err, what=what)
            ok = False
        elif cands[err['lineNumber']] != err['line']:
            ctx.witness('error-line-text', {'text': text, 'start': start}, cands[err['lineNumber']], err, what=what)
            ok = False
    if not 1 <= err['column'] <= len(err['line']) + 1:
        ctx.witness('error-column-inside-line', {'text': text, 'start': start}, f'1..{len(err["line"]) + 1}', err, what=what)
        ok = False
    else:
        ok = caret_ok(ctx, err, {'text': text, 'start': start}) and ok
        ok = expr_column_ok(ctx, parser, err, {'text': text, 'start': start}, what) and ok
    return ok


def caret_ok(ctx, err, inp):
    """The caret of the formatted message sits under line[col-1] (or just past the end)."""
    lines = err['message'].split('\n')
    # message = [prefix?] 'error, line number N:' / displayed line / caret line / ''
    if len(lines) < 3:
        ctx.witness('message-shape', inp, '>= 3 lines', err)
        return False
    shown, caret = lines[-3], lines[-2]
    pos = len(caret) - 1
    if caret.strip() != '^' or caret[:pos].strip() != '':
        ctx.witness('caret-line-shape', inp, 'spaces then ^', err)
        return False
    want = err['line'][err['column'] - 1] if err['column'] <= len(err['line']) else None
    got = shown[pos] if pos < len(shown) else None
    if len(err['line']) > 120 and want is None:
        # past-the-end column in an elided line: the caret must be just past the shown text (before any ' ...' suffix there is none)
        if not (got is None or shown.endswith(err['line'][-10:])):
            ctx.witness('caret-under-same-char', inp, {'char': want}, {'char': got, 'shown': shown, 'caret_pos': pos})
            return False
        if got is not None:
            ctx.witness('caret-under-same-char', inp, {'char': want}, {'char': got, 'shown': shown, 'caret_pos': pos})
            return False
        return True
    if want != got:
        ctx.witness('caret-under-same-char', inp, {'char': want}, {'char': got, 'shown': shown, 'caret_pos': pos})
        return False
    return True


# ---------------------------------------------------------------------------------------------------------------------
# scale families: every token class of the language at sizes far beyond what a person types, around the limits of the
# host (CPython's int<->str digit limit 4300, double precision 2**53 / 17 digits, double range 1e308 / 1e-324, the
# 120-column elision of the message), in every statement kind; and number literals of every lexical form
# ---------------------------------------------------------------------------------------------------------------------

HOST_LIMITS = [15, 16, 17, 18, 120, 121, 308, 309, 310, 324, 1000, 4299, 4300, 4301]

# statement kinds that carry an expression: (name, template, the slot is a whole expression)
EXPR_SLOTS = [
    ('assign', 'v = {e}'),
    ('expr-stmt', '{e}'),
    ('call-stmt', 'fn(a, {e})'),
    ('if', 'if {e}:\n    y = 1\nendif'),
    ('elif', 'if a:\n    y = 1\nelif {e}:\n    y = 2\nelse:\n    y = 3\nendif'),
    ('while', 'while {e}:\n    x = x * 2\nendwhile'),
    ('for', 'for v, i in {e}:\n    y = v\nendfor'),
    ('jumpif', 'top:\njumpif ({e}) top'),
    ('return', 'function f(a):\n    return {e}\nendfunction'),
    ('operand', 'v = 1 + {e} * 2'),
    ('unary', 'v = -{e}'),
    ('group', 'v = (!({e}))'),
    ('continued', 'v = fn(a, \\\n    {e}, \\\n  b)'),
]


def digits(rng, n, first='123456789'):
    return rng.choice(first) + ''.join(rng.choice('0123456789') for _ in range(n - 1)) if n > 0 else ''


def atoms(rng, n):
    """(class, expression text) - one expression atom of every token class whose size parameter is n."""
    d = digits(rng, n)
    small = str(rng.randint(0, 400))
    yield 'int-nines', '9' * n
    yield 'int-power10', '1' + '0' * n
    yield 'int-random', d
    yield 'int-plus', '+' + d
    yield 'int-leading-zeros', '0' * n + rng.choice(['', '7', '.5'])
    yield 'frac-long', rng.choice(['0', '1', '123']) + '.' + digits(rng, n, '0123456789')
    yield 'frac-long-int', d + '.' + rng.choice(['', '0', '5', d[:50]])
    yield 'exp-long-mantissa', d + rng.choice(['e+', 'e-']) + small
    yield 'exp-scaled-back', d + 'e-' + str(n)                               # about 1
    yield 'exp-scaled-up', '0.' + '0' * n + '1e+' + str(n)                   # about 0.1
    yield 'exp-value', rng.choice(['1', '9.9', '0.1']) + rng.choice(['e+', 'e-']) + str(n)       # 1e+308, 1e+309, 1e-324, ...
    yield 'exp-long', '1' + rng.choice(['e+', 'e-']) + rng.choice(['', '0' * n]) + digits(rng, n)    # astronomically large / small
    yield 'identifier', rng.choice(['a', 'x_', 'Z9']) * n
    yield 'call-name', 'f' * n + '(a)'
    yield 'string', "'" + 's' * n + "'"
    yield 'string-double', '"' + 't' * n + '"'
    yield 'string-escapes', "'" + rng.choice(["\\'", '\\\\', "x\\'"]) * min(n, 5000) + "'"
    yield 'string-double-escapes', '"' + rng.choice(['\\"', '\\\\', 'x\\"']) * min(n, 5000) + '"'
    yield 'string-digits', "'" + d + "'"
    yield 'bracket-variable', '[' + rng.choice(['a b', '\\]', 'x.y ']) * n + ']'
    yield 'arguments', 'fn(' + ', '.join([rng.choice(['1', 'a', "''"])] * min(n, 1500)) + ')'
    yield 'blanks-inside', 'fn(a,' + rng.choice(' \t') * n + 'b' + rng.choice(' \t') * n + ')'
    yield 'chain', rng.choice([' + ', ' ** ', ' && ', ' - ']).join(['a'] * min(n, 50))


def structure_cases(rng, n):
    """(class, text) - the token classes that live outside expressions, size n."""
    m = min(n, 3000)          # line COUNTS stay below this (the model's line loop is quadratic)
    nm = 'n' * n
    yield 'comment-long', '#' + rng.choice(['c', ' ', '#', '\\']) * n + '\nv = 1'
    yield 'comment-long', 'v = 1\n  # ' + 'c' * n
    yield 'blank-line-long', rng.choice(' \t') * n + '\nv = 1'
    yield 'indent-long', ' ' * n + 'v = 1'
    yield 'trailing-blanks-long', 'v = 1' + rng.choice(' \t') * n
    yield 'assign-blanks', 'v' + ' ' * n + '=' + '\t' * n + '1'
    yield 'assign-target', nm + ' = 1'
    yield 'label', nm + ':\njump ' + nm
    yield 'jumpif-target', nm + ':\njumpif (a) ' + nm
    yield 'for-variables', 'for ' + nm + ', i' + nm + ' in a:\nendfor'
    yield 'function-name', rng.choice(['', 'async ']) + 'function ' + nm + '(a, b...):\nendfunction'
    yield 'function-arg', 'function f(' + nm + ', b):\nendfunction'
    yield 'function-args', 'function f(' + ', '.join('a%d' % i for i in range(min(n, 5000))) + '):\nendfunction'
    yield 'include-url', 'include ' + rng.choice(["'{}.bare'", '<{}>', '"{}"']).format('u' * n)
    yield 'include-run', '\n'.join(['include <u%d>' % i for i in range(m)])
    yield 'statement-run', '\n'.join(['v%d = %d' % (i, i) for i in range(m)])
    yield 'comment-run', '\n'.join(['# c'] * m + ['v = 1'])
    yield 'blank-run', '\n' * m + 'v = 1' + '\r\n' * m
    yield 'block-run', '\n'.join(['if a:', 'v = 1', 'endif'] * (m // 3 + 1))
    yield 'function-run', '\n'.join(['function f%d():' % i + '\nendfunction' for i in range(m // 2 + 1)])
    yield 'continuation-run', 'v = fn(0, \\\n' + ''.join('  %d, \\\n' % i for i in range(m)) + '  1)'
    yield 'continuation-blanks', 'v = 1 + \\' + ' ' * n + '\n' + '\t' * n + '2'
    yield 'colon-blanks', 'if a' + ' ' * min(n, 20000) + ':' + ' ' * min(n, 20000) + '\nendif'       # the implementation is quadratic here


BAD_LINE = ['z = (1 +', 'endif', 'z = 1 )', 'function g(:', 'jumpif a b']


def with_fault(rng, text, how):
    """The three ways a fault meets a big token: none / on a LATER line (the diagnostic must still be produced, with that
    line's number) / on an EARLIER line (first error wins)."""
    if how == 'valid':
        return text
    bad = rng.choice(BAD_LINE)
    if how == 'fault-after':
        return text + '\n' + bad
    return bad + '\n' + text


def gen_scale(ctx, rng):
    """(kind, text): atoms x sizes x statement kinds x fault placement. The sizes at the host limits get the full cross of
    statement kinds, the other sizes a sample of it."""
    top = ctx.scale([5000, 20000], [5000, 20000, 65536, 100001])
    crossed = ctx.scale([4301], [17, 310, 4301, 20000])
    sizes = sorted(set(HOST_LIMITS + top + [int(10 ** rng.uniform(0.3, 4.5)) for _ in range(ctx.scale(3, 12))]))
    for n in sizes:
        for cls, atom in atoms(rng, n):
            slots = EXPR_SLOTS if n in crossed else rng.sample(EXPR_SLOTS, ctx.scale(2, 4))
            for slot, template in slots:
                hows = ['valid', 'fault-after', 'fault-inline'] if n in crossed else [rng.choice(['valid', 'fault-after', 'fault-inline', 'fault-before'])]
                for how in hows:
                    if how == 'fault-inline':
                        # the fault sits in the same expression, right after the big atom: column and caret far to the right
                        text = template.replace('{e}', atom + rng.choice([' )', ' 1', " '", ' ]', ' ,']))
                    else:
                        text = with_fault(rng, template.replace('{e}', atom), how)
                    yield 'scale:' + cls, text
        for cls, text in structure_cases(rng, n):
            yield 'scale:' + cls, with_fault(rng, text, rng.choice(['valid', 'valid', 'fault-after', 'fault-before']))


NUM_PIECES = ['0', '1', '9', '007', '.', '.', 'e', 'e+', 'e-', 'E+', '+', '-', '1e+3', '1e-3', '2.5', '1.', '1e+400', '1e-400',
              '1.7976931348623157e+308', '1.7976931348623159e+308', '5e-324', '2e-324', '9007199254740993', '9007199254740992',
              '12345678901234567890', '0.1', '0.30000000000000004', 'x', '_', ' ', ' ', '(', ')', ',', '**', '0x1F', '1_000', 'inf', 'nan',
              'Infinity', '\u0663', '\uff11']


def gen_numbers(ctx, rng):
    """(kind, text): number literals of every lexical form - glued pieces (so that the number pattern stops in the middle:
    `1e5`, `1..2`, `1e+`, `.5`), in a random statement kind."""
    for _ in range(ctx.scale(400, 6000)):
        atom = ''.join(rng.choice(NUM_PIECES) for _ in range(rng.randint(1, 5)))
        _, template = rng.choice(EXPR_SLOTS)
        yield 'numbers', template.replace('{e}', atom)


R_EXPONENT = re.compile(r'e[+-](\d+)')


def model_can(text):
    """The model keeps literals as exact rationals: 10**exponent must stay writable (exponents up to 200000); everything
    else (any number of mantissa digits, non-ASCII letters and digits: the model's \\w and \\d are the Unicode classes) goes to the
    model too."""
    return all(len(m.group(1)) <= 7 and int(m.group(1)) <= 200000 for m in R_EXPONENT.finditer(text))


def number_key(v):
    """Canonical comparable form of one number literal of the implementation's model."""
    if isinstance(v, float):
        if v != v or v in (float('inf'), float('-inf')):
            return repr(v)
        fr = Fraction(v)
        return [fr.numerator, fr.denominator]
    if isinstance(v, int) and not isinstance(v, bool) and v.bit_length() <= 2000:
        return [v, 1]
    return type(v).__name__ + ' of ' + (str(v.bit_length()) + ' bits' if isinstance(v, int) else '?')


def rounded_key(p, q):
    """What float(text) gives for the exact rational p/q (both are correctly rounded; beyond the double range: inf)."""
    try:
        x = float(p) if q == 1 else p / q
    except OverflowError:
        x = float('inf') if (p > 0) == (q > 0) else float('-inf')
    return number_key(x)


def canon_impl(script):
    """progen.canon_script with the literals keyed by number_key (non-finite and non-float literals included)."""
    table = []

    def strip(obj):
        if isinstance(obj, dict):
            if set(obj) == {'number'} and not isinstance(obj['number'], (dict, list)):
                table.append(number_key(obj['number']))
                return {'number': float(len(table) - 1)}
            return {k: strip(v) for k, v in obj.items()}
        if isinstance(obj, list):
            return [strip(x) for x in obj]
        return obj

    def fill(obj):
        if isinstance(obj, dict):
            if set(obj) == {'number'}:
                return {'number': table[obj['number'][0]]}
            return {k: fill(v) for k, v in obj.items()}
        if isinstance(obj, list):
            return [fill(x) for x in obj]
        return obj
    return fill(progen.canon_script(strip(script), with_fid=False))


def canon_model(obj):
    if isinstance(obj, dict):
        if set(obj) == {'number'} and isinstance(obj['number'], list):
            return {'number': rounded_key(*obj['number'])}
        return {k: canon_model(v) for k, v in obj.items()}
    if isinstance(obj, list):
        return [canon_model(x) for x in obj]
    return obj


def model_batch(ctx, reqs):
    """The model answers with exact integers of any length; only while READING its answers the harness lifts CPython's
    int<->str digit limit (the implementation always runs under the default limit)."""
    limit = sys.get_int_max_str_digits()
    sys.set_int_max_str_digits(0)
    try:
        return ctx.driver.batch(reqs)
    finally:
        sys.set_int_max_str_digits(limit)


def load_corpus():
    path = os.path.join(fw.VERIF, 'harness', 'corpus', 'C06.jsonl')
    out = []
    if os.path.exists(path):
        with open(path, encoding='utf-8') as fh:
            for raw in fh:
                raw = raw.strip()
                if raw and not raw.startswith('//'):
                    out.append(json.loads(raw)['text'])
    return out


def line_without_effect(parser, text, model, only=None):
    """Index of a (single physical) logical line whose deletion leaves the parsed model unchanged, else None."""
    phys = re.split(r'\r?\n', text)
    ll = logical_lines(text)
    if ll is None or len(ll) > 60:
        return None
    base = json.dumps(model, sort_keys=True)
    for pix, line in ll:
        if phys[pix] != line or (only is not None and pix != only):
            continue
        what, res = parse_outcome(parser, '\n'.join(phys[:pix] + phys[pix + 1:]))
        if what == 'ok' and json.dumps(res, sort_keys=True) == base:
            return pix
    return None


def open_depth(ll):
    """Blocks opened minus blocks closed over the logical lines, read off the keywords alone."""
    depth = 0
    for _, line in ll:
        s = line.strip()
        # `while :` / `for :` / `function :` are LABELS named like the keyword (a block header needs an expression
        # resp. a name and parentheses)
        if re.match(r'^(if\s+\S.*:|while\s+\S.*:|for\s+\S.*:|(async\s*)?function\s+[A-Za-z_]\w*\s*\(.*\)\s*:)$', s) and \
                not re.match(r'^\w+\s*=', s):
            depth += 1
        elif s in CLOSERS:
            depth -= 1
    return depth


def prepend_check(ctx, parser, text, pre, what, res):
    """Prepending harmless lines shifts the line number by their count and changes nothing else."""
    k = len(pre)
    what2, res2 = parse_outcome(parser, '\n'.join(pre + [text]))
    if what == 'err' and res['lineNumber'] is None:
        return True        # already reported by error-has-line-number
    if what == 'err':
        want = dict(res, lineNumber=res['lineNumber'] + k)
        want.pop('message')
        got = dict(res2) if what2 == 'err' else {'accepted': True}
        got.pop('message', None)
        if got != want:
            ctx.witness('prepend-shifts-line-number', {'text': text, 'prefix': pre}, want, got)
            return False
    elif what2 != 'ok':
        ctx.witness('prepend-keeps-acceptance', {'text': text, 'prefix': pre}, 'accepted', res2)
        return False
    return True


def start_check(ctx, parser, text, start, res):
    """start_line_number offsets the reported number and nothing else."""
    what3, res3 = parse_outcome(parser, text, start)
    if what3 != 'err' or res3['lineNumber'] != res['lineNumber'] + start - 1 or res3['column'] != res['column']:
        ctx.witness('start-line-offsets', {'text': text, 'start': start}, res['lineNumber'] + start - 1, res3)
        return False
    return True


# ---------------------------------------------------------------------------------------------------------------------
# echo family: the text of a statement's expression (or a piece of it) ALSO occurs elsewhere in the same line - inside
# the keyword in front of it (`if f f:`, `while e e:`, `return n n`, `for in in in in:`, `jumpif (f (f) f`), in the
# assignment target (`a =a =a`), in the loop variables or the jump target. An implementation that looks the expression
# up by its text instead of by its position reports the column of the wrong occurrence. The expected column comes from
# expr_region (offset of the expression by the statement form) + parse_expression on the expression alone.
# ---------------------------------------------------------------------------------------------------------------------

ECHO_SEPS = [' ', ' ', ' ', ' ', '  ', ' (', '( ', ' ) ', ' + ', ', ', '', '\t']


def word_tails(*words):
    """every suffix of every word: the pieces an expression must begin with to be found again inside the header"""
    out = []
    for w in words:
        out += [w[i:] for i in range(len(w))]
    return out


def gen_echo(ctx, rng):
    n = ctx.scale(45, 600)
    for _ in range(n):
        for kind in ('if', 'elif', 'while', 'for', 'jumpif', 'return', 'assign', 'expr-stmt'):
            v = rng.choice(['n', 'in', 'i', 'a', 'f', 'e', 'rn', 'x_'])
            if kind in ('if', 'elif', 'while', 'return'):
                toks = word_tails(kind) + [kind + ' ' + kind[-1]]
            elif kind == 'for':
                toks = word_tails('in', v) + ['in in', v + ' in', 'for']
            elif kind == 'jumpif':
                toks = word_tails('jumpif', v) + ['(', '(' + v, v + ' (', 'f (', ')', ') ' + v]
            elif kind == 'assign':
                toks = [v, '=', v + ' =', '= ' + v, v + '=', '=' + v, '==']
            else:
                toks = [v, v + ' ' + v, '(', ')']
            indent = rng.choice(['', '', '  ', '\t', ' '])
            blanks = rng.choice(['', '', ' ', '  '])
            gap = rng.choice([' ', ' ', '  ', '\t'])
            if rng.random() < 0.5:
                # in the rhythm of the header: the same piece, separated like the keyword is from the expression
                t = rng.choice(toks)
                sep = '' if kind in ('jumpif', 'expr-stmt') and rng.random() < 0.5 else gap if kind != 'assign' else rng.choice(['', ' '])
                expr = sep.join([t] * rng.randint(2, 4)) + rng.choice(['', '', ' )', ' (', ' +'])
            else:
                expr = rng.choice(toks)
                for _ in range(rng.choice([1, 1, 2, 2, 3, 4])):
                    expr += rng.choice(ECHO_SEPS) + rng.choice(toks)
            if kind in ('if', 'elif', 'while'):
                line = indent + kind + gap + expr + blanks + ':' + blanks
            elif kind == 'for':
                line = indent + 'for' + gap + v + rng.choice(['', ', ' + v, ' ,' + rng.choice(['n', 'in'])]) + ' in' + gap + expr + blanks + ':'
            elif kind == 'jumpif':
                line = indent + 'jumpif' + rng.choice(['', ' ', '  ']) + '(' + expr + ')' + gap + rng.choice([v, 'f', 'if', 'jumpif'])
            elif kind == 'return':
                line = indent + 'return' + gap + expr + blanks
            elif kind == 'assign':
                line = indent + v + rng.choice(['', ' ', '  ']) + '=' + rng.choice(['', ' ', '  ']) + expr + blanks
            else:
                line = indent + expr + blanks
            head = ['if a:'] if kind == 'elif' else []
            if rng.random() < 0.3:
                head = [rng.choice(['# c', '', 'zz = 1', line])] + head      # the same line twice: the first error wins, with ITS number
            yield 'echo:' + kind, '\n'.join(head + [line])


# ---------------------------------------------------------------------------------------------------------------------
# nesting inside the quantifier (depth <= 50) in EVERY statement kind and with every way an expression nests (group, call,
# call behind other arguments, unary chains, mixed), closed / one closer missing / one too many / all left open / fault in
# the innermost operand. (How deep the host's stack lets an expression nest beyond that is a host configuration - the
# Python recursion limit - and outside the quantifier; the streams record the measured headroom as a note.)
# ---------------------------------------------------------------------------------------------------------------------

NEST_KINDS = [('group', '(', ')'), ('call', 'fn(', ')'), ('call-late-arg', 'fn(a, ', ')'), ('call-spaced', 'fn ( ', ' )'), ('not', '!', ''),
              ('minus', '-', ''), ('not-group', '!(', ')'), ('minus-call', '-g(', ')'), ('group-binary', '(1 + ', ')')]
NEST_CLOSURES = ['balanced', 'one-missing', 'one-extra', 'all-open', 'inner-fault']


def nested(opener, closer, depth, closure):
    inner = 'a b' if closure == 'inner-fault' else 'a'
    closers = {'balanced': depth, 'inner-fault': depth, 'one-missing': depth - 1, 'one-extra': depth + 1, 'all-open': 0}[closure]
    return opener * depth + inner + closer * closers


def gen_nesting(ctx, rng):
    for depth in [1, 2, 9, 10, 11, 16, 17, 49, 50]:
        for name, opener, closer in NEST_KINDS:
            for closure in NEST_CLOSURES:
                if not closer and closure in ('one-missing', 'all-open'):
                    continue
                slots = EXPR_SLOTS if (depth == 50 and not ctx.quick) else rng.sample(EXPR_SLOTS, 2 if depth == 50 else 1)
                for _, template in slots:
                    yield 'nest:' + name, template.replace('{e}', nested(opener, closer, depth, closure))


def nesting_headroom(parser):
    """Deepest run of open parentheses parse_script still answers with a parser error (not a RecursionError) from HERE, at
    the host's current recursion limit - a measurement for the notes, not an oracle (the quantifier stops at 50)."""
    lo, hi = 0, 4096
    while lo < hi:
        mid = (lo + hi + 1) // 2
        what, _ = parse_outcome(parser, 'x = ' + '(' * mid)
        if what == 'err':
            lo = mid
        else:
            hi = mid - 1
    return lo


def gen_texts(ctx):
    """(kind, text) cases: corpus, token soup, mutated valid programs, deleted closers, dangling continuation, lone backslash,
    long lines, deep nesting, echo lines, nesting in every statement kind."""
    rng = ctx.rng('texts')
    for text in load_corpus():
        yield 'corpus', text
    n = ctx.scale(300, 6000)
    for _ in range(n):
        lines = []
        for _ in range(rng.randint(1, 6)):
            lines.append(' '.join(rng.choice(TOKENS) for _ in range(rng.randint(1, 8))))
        yield 'soup', '\n'.join(lines)
    for _ in range(n):
        gen = progen.Gen(rng, max_depth=rng.choice([2, 3, 4]))
        lines = progen.render(gen.program())
        kind = rng.choice(['delete-token', 'insert-token', 'swap-token', 'delete-closer', 'dangling', 'valid', 'delete-line', 'dup-line'])
        ix = rng.randrange(len(lines))
        toks = lines[ix].split(' ')
        if kind == 'delete-token' and toks:
            del toks[rng.randrange(len(toks))]
            lines[ix] = ' '.join(toks)
        elif kind == 'insert-token':
            toks.insert(rng.randrange(len(toks) + 1), rng.choice(TOKENS))
            lines[ix] = ' '.join(toks)
        elif kind == 'swap-token' and len(toks) > 1:
            i = rng.randrange(len(toks) - 1)
            toks[i], toks[i + 1] = toks[i + 1], toks[i]
            lines[ix] = ' '.join(toks)
        elif kind == 'delete-closer':
            closers = [i for i, ln in enumerate(lines) if ln.strip() in CLOSERS]
            if closers:
                del lines[rng.choice(closers)]
        elif kind == 'dangling':
            lines[-1] = lines[-1] + ' \\' + rng.choice(['', ' ', '\t'])
        elif kind == 'delete-line':
            del lines[ix]
        elif kind == 'dup-line':
            lines.insert(ix, lines[ix])
        yield kind, '\n'.join(lines)
    # long lines with the fault at every column (elision of the message line)
    for length in ctx.scale([0, 1, 60, 119, 120, 121, 122, 180, 181, 241, 400], list(range(0, 130, 7)) + list(range(118, 126)) + [180, 181, 239, 240, 241, 300, 400]):
        step = ctx.scale(17, 3)
        for col in range(0, length + 1, step):
            pad_l, pad_r = col, max(0, length - col - 1)
            expr = ' + '.join(['a'] * 1)
            yield 'long', 'x = ' + 'b' * pad_l + ' ' + expr + ' ) ' + 'c' * pad_r
            yield 'long', 'if ' + 'b' * pad_l + ' ( :' if pad_r == 0 else 'if ' + 'b' * pad_l + ' ) ' + 'c' * pad_r + ':'
    # deep nesting
    for depth in ctx.scale([1, 10, 50], [1, 2, 5, 10, 25, 50]):
        opens = ['if a:'] * depth
        yield 'deep', '\n'.join(opens + ['x = 1'] + ['endif'] * (depth - 1))
        yield 'deep', '\n'.join(opens + ['x = 1'] + ['endif'] * depth)
        yield 'deep', 'x = ' + '(' * depth + '1' + ')' * (depth - 1)
    yield from gen_nesting(ctx, ctx.rng('nesting'))
    # the expression text occurs a second time in its line
    yield from gen_echo(ctx, ctx.rng('echo'))
    # the last logical line is a lone backslash (an empty continued line): must be 'Unterminated line continuation'
    for _ in range(ctx.scale(20, 200)):
        head = [rng.choice(['a = 1', 'fn(a)', 'if a:', 'endif', '# c', '', 'b = a + \\', 'lbl:']) for _ in range(rng.randint(0, 3))]
        lone = ''.join(rng.choice(' \t') for _ in range(rng.randint(0, 3))) + '\\' + ''.join(rng.choice(' \t') for _ in range(rng.randint(0, 3)))
        tail = [rng.choice(['', '# c', '   ', '\t#\\']) for _ in range(rng.randint(0, 3))]
        yield 'lone-backslash', '\n'.join(head + [lone] + tail)
    # backslash runs
    for k in range(1, ctx.scale(4, 9)):
        yield 'backslash', 'a = 1 + ' + '\\' * k + '\n  2'
        yield 'backslash', 'a = 1 + ' + '\\' * k
    # number literals of every lexical form; every token class at sizes around and far beyond the host's limits
    yield from gen_numbers(ctx, ctx.rng('numbers'))
    yield from gen_scale(ctx, ctx.rng('scale'))


def streams(ctx):
    parser = fw.impl()['parser']
    rng = ctx.rng('meta')
    st = ctx.stream('texts', 'hand-picked corpus (every error source, every statement kind with an expression), token soup, single-token '
                             'mutations of generated programs, deleted closing keywords, dangling continuation, lone backslash as last line, '
                             'long lines with the fault at every column, nesting to 50, backslash runs, number literals glued from every lexical '
                             'piece (sign, leading zeros, fraction, exponent with/without sign, overflow/underflow, 2**53+1, non-ASCII digits), '
                             'scale families: every token class at sizes 15..20000 (thorough 100001) around the host limits (17 digits, 1e308, 1e-324, '
                             '4300-digit int<->str limit, 120-column elision) in every statement kind, alone / with a fault after, before or '
                             'right behind the big token; nesting 1..50 of every nesting construct (group, call, call behind other '
                             'arguments, unary chains, mixed) x closed / one closer missing / one too many / all open / innermost operand '
                             'faulty x statement kinds; echo lines: the expression text (or its beginning) occurs a second time in its own '
                             'line - in the keyword in front of it, the assignment target, the loop variables, the jump target (`if f f:`, '
                             '`while  le  le:`, `for in in in in:`, `jumpif (f (f) f`, `a =a =a`) - in all 8 statement kinds, judged by '
                             'expression-error-column (offset of the expression by the statement form + parse_expression on it alone); '
                             'non-trivial = a parser error or a model with >= 3 statements')
    cases = list(gen_texts(ctx))
    # input forms and call histories first: a witness of that stream carries the calls made before it and was seen again in a
    # NEW process (a failure that needs a history met below, in the middle of this process, could not be replayed)
    forms_stream(ctx, parser, cases)
    # every diagnostic kind x every start line x every layout of the offending logical line
    layouts_stream(ctx, parser)
    # the fault at every column of long lines (elision of the message); host-only characters at every place of a script
    caret_stream(ctx, parser)
    host_text_stream(ctx, parser)
    ctx.notes.append(f'host stack: at recursion limit {sys.getrecursionlimit()} parse_script answers a run of open parentheses up to depth '
                     f'{nesting_headroom(parser)} with a parser error, deeper ones with RecursionError (outside the quantifier: nesting <= 50)')
    # correspondence with the Lean parser model (when the driver is built)
    resps = None
    if ctx.driver is not None:
        to_model = [ix for ix, (_, text) in enumerate(cases) if model_can(text)]
        answers = model_batch(ctx, [{'op': 'parse', 'chunks': [cases[ix][1]], 'start': 1} for ix in to_model])
        resps = dict(zip(to_model, answers))
    for ix, (kind, text) in enumerate(cases):
        what, res = parse_outcome(parser, text)
        tags = [kind, what + (':' + res['error'] if what == 'err' else '')]
        st.case(text, nontrivial=(what == 'err' or (what == 'ok' and len(res['statements']) >= 3)), tags=tags)
        if what == 'host':
            ctx.witness('only-parser-error-escapes', {'text': text}, 'BareScriptParserError or a model', res)
            continue
        if what == 'err':
            check_error(ctx, parser, text, res, 1, kind)
            position_metamorphic(ctx, parser, text, res, 1, kind, rng)
        else:
            # no open block / dangling continuation accepted, no logical line silently dropped
            ll = logical_lines(text)
            if ll is None:
                ctx.witness('dangling-continuation-rejected', {'text': text}, 'parser error', 'accepted')
            else:
                if open_depth(ll) != 0:
                    ctx.witness('open-block-rejected', {'text': text}, 'parser error (unbalanced blocks)', 'accepted')
        # correspondence
        if resps is not None and ix in resps:
            model = resps[ix]
            if what == 'ok':
                impl = {'ok': canon_impl(res)}
                model = {'ok': canon_model(model.get('ok'))} if 'ok' in model else model
            else:
                impl = {'error': res['error'], 'line': res['line'], 'column': res['column'], 'lineNumber': res['lineNumber']}
            ctx.compare('parse', text, impl, model)
        # metamorphic: prepending k harmless lines shifts the line number by k and changes nothing else
        if ix % 3 == 0:
            k = rng.randint(1, 4)
            pre = [rng.choice(['', '# c', '   ', 'zz = 1', "systemLog('m')", '#'])for _ in range(k)]
            prepend_check(ctx, parser, text, pre, what, res)
            # start_line_number offsets the reported number
            if what == 'err' and res['lineNumber'] is not None:
                start_check(ctx, parser, text, rng.randint(2, 50), res)
        # metamorphic: every logical line of an accepted text has an effect - deleting it gives an error or a different model
        if what == 'ok' and ix % 2 == 0:
            bad = line_without_effect(parser, text, res)
            if bad is not None:
                ctx.witness('every-line-has-an-effect', {'text': text, 'line': bad}, 'deleting the line is an error or changes the model',
                            'same model')
        # metamorphic: a marker statement inserted between two logical lines of a VALID program is never dropped
        if what == 'ok' and kind == 'valid' and ix % 2 == 0:
            lines = text.split('\n')
            pos = rng.randrange(len(lines) + 1)
            marked = lines[:pos] + ["systemLog('@@marker@@')"] + lines[pos:]
            what4, res4 = parse_outcome(parser, '\n'.join(marked))
            if what4 != 'ok' or '@@marker@@' not in repr(res4):
                ctx.witness('no-line-dropped', {'text': '\n'.join(marked)}, 'marker statement present in the model', res4 if what4 != 'ok' else 'dropped')



# ---------------------------------------------------------------------------------------------------------------------
# input forms and call histories: parse_script takes the text as ONE string or as ANY iterable of strings (list of lines,
# tuple, generator, one-shot iterator, a class with only __iter__, deque, chunks that hold several lines, empty chunks,
# chunks with a trailing newline, the empty iterable), the start line positionally or by keyword - and it is called many
# times in one process. Whatever the form and whatever was parsed before, the outcome is the one of the string
# '\n'.join(chunks); the caller's object is left alone; the same call made again gives the same outcome.
# ---------------------------------------------------------------------------------------------------------------------

class StrSub(str):
    """a str subclass (what a templating / i18n layer hands over)"""


class OnlyIter:
    """an iterable that is nothing but iterable (no len, no indexing), re-iterable"""

    def __init__(self, items):
        self._items = list(items)

    def __iter__(self):
        return iter(list(self._items))


ONE_STRING_FORMS = ['str', 'str-subclass']
ITERABLE_FORMS = ['list', 'tuple', 'generator', 'iterator', 'only-iter', 'deque', 'list-of-str-subclass', 'dict-keys', 'map']
ONE_SHOT_FORMS = ['generator', 'iterator', 'map']


def make_arg(form, chunks):
    """The object handed to parse_script for a call of this form (chunks: list of strings; the one-string forms join them)."""
    import collections
    if form == 'str':
        return '\n'.join(chunks)
    if form == 'str-subclass':
        return StrSub('\n'.join(chunks))
    if form == 'list':
        return list(chunks)
    if form == 'tuple':
        return tuple(chunks)
    if form == 'generator':
        return (c for c in list(chunks))
    if form == 'iterator':
        return iter(list(chunks))
    if form == 'only-iter':
        return OnlyIter(chunks)
    if form == 'deque':
        return collections.deque(chunks)
    if form == 'list-of-str-subclass':
        return [StrSub(c) for c in chunks]
    if form == 'dict-keys':
        return dict.fromkeys(chunks).keys() if len(set(chunks)) == len(chunks) else list(chunks)
    if form == 'map':
        return map(str, list(chunks))
    raise ValueError(form)


def call_outcome(parser, arg, start, kw):
    """parse_outcome for any argument object; the start line is omitted (1), positional or given by keyword."""
    try:
        if kw:
            model = parser.parse_script(arg, start_line_number=start)
        elif start == 1:
            model = parser.parse_script(arg)
        else:
            model = parser.parse_script(arg, start)
        return ['ok', model]
    except parser.BareScriptParserError as exc:
        return ['err', {'error': exc.error, 'line': exc.line, 'column': exc.column_number, 'lineNumber': exc.line_number,
                        'message': str(exc)}]
    except RecursionError:
        return ['host', 'RecursionError']
    except Exception as exc:  # pylint: disable=broad-except
        return ['host', type(exc).__name__ + ': ' + str(exc)[:120]]


def brief(outcome):
    what, res = outcome
    if what == 'ok':
        return {'accepted': True, 'statements': len(res['statements']), 'model': fw.shorten(res, 600)}
    if what == 'err':
        return {f: res[f] for f in ('error', 'line', 'column', 'lineNumber')}
    return {'exception': res}


def run_session(parser, calls):
    """Make the calls IN ORDER in this process. call = {'form', 'chunks', 'start', 'kw', 'twice'}. For every call: the
    reference outcome (the one string '\\n'.join(chunks), start given positionally) is taken before and after, the call
    itself is made in its form (and, 'twice', once more with the SAME object).
    -> [(call index, oracle, expected, actual)] - empty when every call behaved."""
    bad = []
    for cx, call in enumerate(calls):
        chunks, start, form = call['chunks'], call.get('start', 1), call['form']
        text = '\n'.join(chunks)
        ref = call_outcome(parser, text, start, False)
        arg = make_arg(form, chunks)
        got = call_outcome(parser, arg, start, call.get('kw', False))
        if got != ref:
            bad.append((cx, 'input-form-same-outcome', brief(ref), brief(got)))
        if form not in ONE_SHOT_FORMS:
            if form in ('list', 'deque', 'list-of-str-subclass') and list(arg) != list(chunks):
                bad.append((cx, 'input-object-left-alone', fw.shorten(list(chunks), 600), fw.shorten(list(arg), 600)))
            elif call.get('twice'):
                again = call_outcome(parser, arg, start, call.get('kw', False))
                if again != ref:
                    bad.append((cx, 'repeat-call-same-outcome', brief(ref), brief(again)))
        ref2 = call_outcome(parser, text, start, False)
        if ref2 != ref:
            bad.append((cx, 'repeat-call-same-outcome', brief(ref), brief(ref2)))
    return bad


_FRESH_SESSION = r"""
import importlib, json, sys
sys.path.insert(0, sys.argv[1])
import fw
from props import C06
json.dump(C06.run_session(importlib.import_module('bare_script.parser'), json.load(sys.stdin)), sys.stdout)
"""


def fresh_session(calls):
    """run_session in a NEW interpreter (nothing parsed before) -> its result, None when the process failed."""
    import subprocess
    res = subprocess.run([sys.executable, '-c', _FRESH_SESSION, os.path.join(fw.VERIF, 'harness')], input=json.dumps(calls),
                         capture_output=True, text=True, timeout=300, check=False)
    if res.returncode != 0:
        return None
    return json.loads(res.stdout)


def shortest_history(log, cx, oracle):
    """The failure of call cx was seen after everything in log[:cx]. -> the shortest tail of that history (0, 1, 2, 4, ...
    earlier calls) after which a NEW process shows the same failure on the same call; (None, False) if none does."""
    sizes, h = [], 0
    while h < cx:
        sizes.append(h)
        h = max(1, h * 2)
    sizes.append(cx)
    for h in sizes:
        calls = log[cx - h:cx + 1]
        if len(json.dumps(calls)) > 15000:          # a witness has to stay replayable (fw.shorten)
            break
        res = fresh_session(calls)
        if res and any(b[0] == h and b[1] == oracle for b in res):
            return calls, True
    return log[max(0, cx - 8):cx + 1], False


def regroup(rng, lines):
    """The physical lines as chunks: one line per chunk / groups of lines joined by \\n or \\r\\n / a few big chunks."""
    how = rng.choice(['lines', 'lines', 'groups', 'groups', 'halves'])
    if how == 'lines' or len(lines) < 2:
        return list(lines)
    chunks, ix = [], 0
    while ix < len(lines):
        k = rng.randint(1, 3) if how == 'groups' else rng.randint(1, max(1, len(lines)))
        chunks.append(rng.choice(['\n', '\n', '\r\n']).join(lines[ix:ix + k]))
        ix += k
    return chunks


RAW_CHUNKS = ['', '', 'a = 1', 'b = a +', 'if a:', 'endif', 'while b:', 'endwhile', 'for v in vs:', 'endfor', 'function f(n):',
              'endfunction', '    return n * 2', '# c', '   ', 'c = fn(a, \\', '  b)', '\\', 'x = 1\n', '\nx = 2', 'y = 1\r\n', '\r\nz = 1', '\n',
              '\r\n', 'a = 1\n\nb = (', 'include <u>', "include 'v.bare'", 'lbl:', 'jump lbl', 'z = 1 )', 'elif b:', 'else:', 'break']


def gen_calls(ctx, rng, cases):
    """The call log of the forms stream: texts of the `texts` stream (every error source is among them) cut into chunks,
    raw chunk soups (empty chunks, chunks with leading/trailing newlines, the empty iterable), small programs with a block
    left open; each in a random form, start line 1 / positional / keyword, some made twice with the same object."""
    pool = [text for _, text in cases if len(text) <= 600 and '\r' not in text.replace('\r\n', '')]
    rng.shuffle(pool)
    texts = pool[:ctx.scale(500, 5000)]
    calls = []
    for text in texts:
        calls.append(regroup(rng, re.split(r'\r?\n', text)))
    for _ in range(ctx.scale(150, 1500)):
        calls.append([rng.choice(RAW_CHUNKS) for _ in range(rng.choice([0, 1, 1, 2, 3, 4, 6]))])
    for _ in range(ctx.scale(100, 1000)):
        gen = progen.Gen(rng, max_depth=rng.choice([2, 3]))
        lines = progen.render(gen.program())
        closers = [i for i, ln in enumerate(lines) if ln.strip() in CLOSERS]
        if closers and rng.random() < 0.6:
            del lines[rng.choice(closers)]
        calls.append(regroup(rng, lines))
    rng.shuffle(calls)
    out = []
    for chunks in calls:
        form = rng.choice(ITERABLE_FORMS * 3 + ONE_STRING_FORMS)
        start = rng.choice([1, 1, 1, 2, 10, rng.randint(1, 5000)])
        out.append({'form': form, 'chunks': chunks, 'start': start, 'kw': rng.random() < 0.3, 'twice': rng.random() < 0.3})
    return out


def forms_stream(ctx, parser, cases):
    rng = ctx.rng('forms')
    st = ctx.stream('forms', 'the texts of the `texts` stream, raw chunk soups and programs with a block left open, handed to parse_script in every '
                             'input form (one string, str subclass, list / tuple / deque / dict keys of lines, generator, one-shot iterator, '
                             'map, an object with only __iter__, chunks holding several lines joined by \\n or \\r\\n, empty chunks, chunks with '
                             'leading / trailing newlines, the empty iterable), start line omitted / positional / by keyword, one after the '
                             'other in one process (each call has the whole log before it as history), some repeated with the same object; '
                             'non-trivial = an iterable form with >= 2 chunks or a parser error')
    log = gen_calls(ctx, rng, cases)
    resps = None
    if ctx.driver is not None:
        to_model = [ix for ix, c in enumerate(log) if model_can('\n'.join(c['chunks']))]
        resps = dict(zip(to_model, model_batch(ctx, [{'op': 'parse', 'chunks': log[ix]['chunks'], 'start': log[ix]['start']} for ix in to_model])))
    reported = 0
    for cx, call in enumerate(log):
        text = '\n'.join(call['chunks'])
        # the call, with everything before it in this process as its history
        bad = run_session(parser, [call])
        what, res = call_outcome(parser, make_arg(call['form'], call['chunks']), call['start'], call['kw'])
        st.case(call, nontrivial=(what == 'err' or (call['form'] in ITERABLE_FORMS and len(call['chunks']) >= 2)),
                tags=['form:' + call['form'], 'chunks:' + str(min(len(call['chunks']), 5)), what + (':' + res['error'] if what == 'err' else ''),
                      'start:' + ('kw' if call['kw'] else 'default' if call['start'] == 1 else 'positional')] + (['twice'] if call['twice'] else []))
        inp = {'text': text, 'start': call['start'], 'form': call['form']}
        if what == 'host':
            bad.append((0, 'only-parser-error-escapes', 'BareScriptParserError or a model', res))
        elif what == 'err':
            # the diagnostics of a call in this form, judged from the text alone (line number = start + index of the logical line, ...)
            probe = fw.Ctx('C06', 'quick', 0)
            if not check_error(probe, parser, text, res, call['start'], 'forms'):
                w = probe.witnesses[0]
                bad.append((0, 'form:' + w['oracle'], w['expected'], w['actual']))
        elif logical_lines(text) is None:
            bad.append((0, 'dangling-continuation-rejected', 'parser error', 'accepted'))
        for _, oracle, expected, actual in bad[:1]:
            reported += 1
            if reported <= 3:
                calls, fresh = shortest_history(log, cx, oracle) if oracle in SESSION_ORACLES else ([call], True)
                ctx.witness(oracle, dict(inp, calls=calls), expected, actual, history=len(calls) - 1, reproduced_in_a_new_process=fresh)
        # correspondence with the Lean model, which takes the chunks as they are
        if resps is not None and cx in resps and what != 'host':
            model = resps[cx]
            if what == 'ok':
                impl = {'ok': canon_impl(res)}
                model = {'ok': canon_model(model.get('ok'))} if 'ok' in model else model
            else:
                impl = {'error': res['error'], 'line': res['line'], 'column': res['column'], 'lineNumber': res['lineNumber']}
            ctx.compare('parse-forms', call, impl, model)
    if reported > 3:
        ctx.notes.append(f'forms: {reported} calls failed an oracle; the first 3 are reported as witnesses')


# ---------------------------------------------------------------------------------------------------------------------
# layouts: every diagnostic kind x every start line x every layout of the offending LOGICAL line. A statement or block
# header may be written over several physical lines (backslash continuation, comment / blank lines in between, a lone
# backslash line in front); the diagnostics that are raised LATER than the line they point at (Missing endif / endwhile /
# endfor at end of input and at endfunction, Missing endfunction) have to remember that line. Whatever the layout, the
# error carries the JOINED logical line, the number of its FIRST physical line offset by the caller's start line (any
# integer: omitted, 1, 0, negative, large), the column it has in the one-line spelling, and the message shows exactly that.
# Expected values are known BY CONSTRUCTION (the scenario is built around the offending line) and, independently, from the
# one-line spelling of the same program (metamorphic).
# ---------------------------------------------------------------------------------------------------------------------

LAY_OPERANDS = ['a', 'b1', 'cnt', 'i', '10', '2.5', "'s t'", '"q r"', 'fn(a, b)', 'arrayNew(1, 2, 3)', '(a + 1)', '!c', '-x',
                "objectGet(o, 'k')", '[v w]', 'null', 'true']
LAY_OPS = ['+', '-', '*', '/', '%', '**', '==', '!=', '<', '<=', '>', '>=', '&&', '||']
LAY_NAMES = ['x', 'total', 'v_1', 'res']
EXPR_ERRORS = ['Syntax error', 'Unmatched parenthesis']
LAY_FAULTS = {
    'extra-close': lambda e: e + ' )',
    'open-paren': lambda e: '( ' + e,
    'dangling-op': lambda e: e + ' +',
    'two-operands': lambda e: e + ' b2',
    'bad-char': lambda e: e + ' @ 1',
    'fault-first': lambda e: ') ' + e,
    'fault-middle': lambda e: e + ' ) + ' + e,
}
LAY_STMTS = {
    'assign': 'total = {e}', 'expr-stmt': 'arrayPush(arr, {e})', 'if': 'if {e}:', 'elif': 'elif {e}:', 'while': 'while {e}:',
    'for': 'for value, ix in {e}:', 'jumpif': 'jumpif ({e}) lbl3', 'return': 'return {e}',
}
LAY_NOISE = ['z = (1 +', 'endif', 'endwhile', 'endfor', 'endfunction', 'else:', 'break', 'if q:', 'function g(:', 'w = 1', 'z = 1 )', '\\']
LAY_FILLER = ['', '# note', '   ', '\t# c \\', '#', '  # if a:']
CULPRIT_LAYOUTS = ['one', 'cont2', 'cont-all', 'cont-comments', 'cont-blanks', 'lead-backslash']
LAY_STARTS = [None, 1, 0, -1, -40, 2, 41, 2 ** 31 + 5]
LAY_FORMS = ['str', 'str', 'str-crlf', 'str-mixed', 'list', 'tuple', 'generator', 'iterator', 'only-iter', 'deque', 'map']


def lay_expr(rng, n=None):
    n = n or rng.randint(2, 5)
    out = rng.choice(LAY_OPERANDS)
    for _ in range(n - 1):
        out += ' ' + rng.choice(LAY_OPS) + ' ' + rng.choice(LAY_OPERANDS)
    return out


def lay_header(rng, kind):
    if kind == 'if':
        return 'if ' + lay_expr(rng) + rng.choice([':', ':', ' :'])
    if kind == 'while':
        return 'while ' + lay_expr(rng) + rng.choice([':', ':', ' :'])
    if kind == 'for':
        return rng.choice(['for v in ', 'for value, ix in ', 'for value , ix in ']) + lay_expr(rng) + ':'
    return rng.choice(['function foo(a, b):', 'async function bar(x, y, rest...):', 'function baz():', 'function qux( a , b ... ) :',
                       'async function quux(a):'])


def lay_simple(rng):
    e = lay_expr(rng)
    n = rng.randint(1, 9)
    return rng.choice([
        f'{rng.choice(LAY_NAMES)} = {e}', f'{rng.choice(LAY_NAMES)} = {e}', f'systemLog({e})', f'arrayPush(arr, {e})', f'lbl{n}:',
        f'jump lbl{n}', f'jumpif ({e}) lbl{n}', 'include <lib one.bare>', "include 'dir a/b.bare'", f'return {e}', 'return'])


def lay_balanced(rng, n, depth, in_func, in_loop):
    """n complete (balanced) statements as logical lines."""
    out = []
    for _ in range(n):
        r = rng.random()
        if depth <= 0 or r < 0.55:
            out.append(rng.choice(['break', 'continue']) if in_loop and rng.random() < 0.15 else lay_simple(rng))
        elif r < 0.72:
            out.append(lay_header(rng, 'if'))
            out += lay_balanced(rng, rng.randint(0, 2), depth - 1, in_func, in_loop)
            if rng.random() < 0.4:
                out.append('elif ' + lay_expr(rng) + ':')
                out += lay_balanced(rng, rng.randint(0, 1), depth - 1, in_func, in_loop)
            if rng.random() < 0.4:
                out.append(rng.choice(['else:', 'else :']))
                out += lay_balanced(rng, rng.randint(0, 1), depth - 1, in_func, in_loop)
            out.append('endif')
        elif r < 0.82:
            out.append(lay_header(rng, 'while'))
            out += lay_balanced(rng, rng.randint(0, 2), depth - 1, in_func, True)
            out.append('endwhile')
        elif r < 0.92:
            out.append(lay_header(rng, 'for'))
            out += lay_balanced(rng, rng.randint(0, 2), depth - 1, in_func, True)
            out.append('endfor')
        elif not in_func:
            out.append(lay_header(rng, 'function'))
            out += lay_balanced(rng, rng.randint(0, 2), depth - 1, True, False)
            out.append('endfunction')
        else:
            out.append(lay_simple(rng))
    return out


class Scenario:
    """Logical lines of one program + the lines a diagnostic may point at: cands = [(logical index, [allowed errors], column)],
    column = 1 (structure error) | 'end' (unterminated continuation) | None (expression error: the one-line spelling decides)."""

    def __init__(self, rng, kind):
        self.rng, self.kind, self.lines, self.cands = rng, kind, [], []
        self.dangling = None     # logical index of a line whose last physical line ends in a backslash
        self.in_func = self.in_loop = False
        self.opened = []         # [(kind, logical index)] of the blocks open at this point
        self.lines += lay_balanced(rng, rng.randint(0, 3), 2, False, False)

    def open(self, kinds, else_ok=True):
        for k in kinds:
            self.opened.append((k, len(self.lines)))
            self.lines.append(lay_header(self.rng, k))
            if k == 'function':
                self.in_func, self.in_loop = True, False
            elif k != 'if':
                self.in_loop = True
            self.body(2)
            if k == 'if':               # the open `if` may already be in a later branch
                for _ in range(self.rng.choice([0, 0, 0, 1, 2])):
                    self.lines.append('elif ' + lay_expr(self.rng) + ':')
                    self.body(1)
                if else_ok and self.rng.random() < 0.25:
                    self.lines.append(self.rng.choice(['else:', 'else :']))
                    self.body(1)

    def body(self, top):
        self.lines += lay_balanced(self.rng, self.rng.randint(0, top), 1, self.in_func, self.in_loop)

    def culprit(self, line, errors, column=1):
        self.cands.append((len(self.lines), errors, column))
        self.lines.append(line)

    def noise(self):
        for _ in range(self.rng.randint(0, 3)):
            self.lines.append(self.rng.choice(LAY_NOISE) if self.rng.random() < 0.5 else lay_simple(self.rng))

    def open_cands(self, kinds=None):
        for k, ix in self.opened:
            if kinds is None or k in kinds:
                self.cands.append((ix, ['Missing end' + k + ' statement'], 1))


def lay_outer(rng, function=True):
    """A random stack of blocks to be in (at most one function)."""
    kinds = [rng.choice(['if', 'while', 'for']) for _ in range(rng.choice([0, 0, 1, 1, 2]))]
    if function and rng.random() < 0.35:
        kinds.insert(rng.randint(0, len(kinds)), 'function')
    return kinds


def lay_blocks(rng):
    return [rng.choice(['if', 'while', 'for']) for _ in range(rng.choice([0, 0, 1, 2]))]


def scenario(rng, kind):
    sc = Scenario(rng, kind)
    what, _, arg = kind.partition(':')
    if what == 'expr':
        sc.open(lay_outer(rng) + (['if'] if arg == 'elif' else []), else_ok=(arg != 'elif'))
        e = lay_expr(rng, rng.choice([None, None, None, None, rng.randint(30, 45)]))
        sc.culprit(LAY_STMTS[arg].replace('{e}', LAY_FAULTS[rng.choice(sorted(LAY_FAULTS))](e)), EXPR_ERRORS, None)
        sc.noise()
    elif what == 'missing-end-eof':                 # a block left open at end of input (inside whatever else is open)
        sc.open(lay_outer(rng) + [arg])
        sc.open_cands()
    elif what == 'missing-end-endfunction':         # a block left open at the endfunction of its function
        sc.open(lay_blocks(rng)[:1] + ['function'])
        mark = len(sc.opened)
        sc.open(lay_blocks(rng)[:1] + [arg])
        sc.cands += [(ix, ['Missing end' + k + ' statement'], 1) for k, ix in sc.opened[mark:]]
        sc.lines.append('endfunction')
        sc.noise()
    elif what == 'missing-endfunction':
        sc.open(['function'])
        sc.open_cands()
    elif what == 'nested-function':
        sc.open(lay_blocks(rng)[:1] + ['function'] + lay_blocks(rng)[:1])
        sc.culprit(lay_header(rng, 'function'), ['Nested function definition'])
        sc.noise()
    elif what == 'no-matching-function':
        sc.open(lay_blocks(rng))
        sc.culprit('endfunction', ['No matching function definition'])
        sc.noise()
    elif what == 'no-matching-if':                  # elif / else / endif with no `if` innermost (inside the function, if any)
        sc.open(rng.choice([[], lay_blocks(rng) + [rng.choice(['while', 'for'])], lay_blocks(rng) + ['if', 'function'],
                            ['if', 'function', rng.choice(['while', 'for'])]]))
        line = {'elif': 'elif ' + lay_expr(rng) + ':', 'else': rng.choice(['else:', 'else :']), 'endif': 'endif'}[arg]
        sc.culprit(line, ['No matching if statement'])
        sc.noise()
    elif what in ('elif-after-else', 'multiple-else'):
        sc.open(lay_outer(rng) + ['if'], else_ok=False)
        sc.lines.append(rng.choice(['else:', 'else :']))
        sc.body(2)
        if what == 'multiple-else':
            sc.culprit(rng.choice(['else:', 'else :']), ['Multiple else statements'])
        else:
            sc.culprit('elif ' + lay_expr(rng) + ':', ['Elif statement following else statement'])
        sc.noise()
    elif what == 'no-matching-loop':                # endwhile / endfor with no such loop innermost
        other = 'for' if arg == 'while' else 'while'
        sc.open(rng.choice([[], lay_blocks(rng) + [rng.choice(['if', other])], lay_blocks(rng) + [arg, 'function'],
                            [arg, 'function', rng.choice(['if', other])]]))
        sc.culprit('end' + arg, ['No matching ' + arg + ' statement'])
        sc.noise()
    elif what == 'outside-loop':                    # break / continue with no loop around (inside the function, if any)
        sc.open(rng.choice([[], ['if'], ['if', 'if'], lay_blocks(rng) + [rng.choice(['while', 'for']), 'function'],
                            [rng.choice(['while', 'for']), 'function', 'if']]))
        sc.culprit(arg, [arg.capitalize() + ' statement outside of loop'])
        sc.noise()
    elif what == 'unterminated':                    # the last logical line dangles; the blocks still open are in error too
        sc.open(lay_outer(rng))
        sc.dangling = len(sc.lines)
        sc.culprit(rng.choice([lay_simple(rng), lay_header(rng, rng.choice(['if', 'while', 'for', 'function']))]),
                   ['Unterminated line continuation'], 'end')
        sc.open_cands()
    elif what == 'valid':
        sc.body(3)
        if rng.random() < 0.5:
            sc.open(lay_outer(rng))
            while sc.opened:
                kinds = [k for k, _ in sc.opened]           # what is still open decides what a body may hold
                sc.in_func = 'function' in kinds
                sc.in_loop = any(k in ('while', 'for') for k in (kinds[kinds.index('function') + 1:] if sc.in_func else kinds))
                sc.body(1)
                sc.lines.append('end' + sc.opened.pop()[0])
    else:
        raise ValueError(kind)
    return sc


LAYOUT_KINDS = (['expr:' + s for s in LAY_STMTS] +
                ['missing-end-eof:' + k for k in ('if', 'while', 'for')] + ['missing-end-endfunction:' + k for k in ('if', 'while', 'for')] +
                ['missing-endfunction', 'nested-function', 'no-matching-function'] + ['no-matching-if:' + k for k in ('elif', 'else', 'endif')] +
                ['elif-after-else', 'multiple-else', 'no-matching-loop:while', 'no-matching-loop:for', 'outside-loop:break',
                 'outside-loop:continue', 'unterminated', 'valid'])


def lay_blanks(rng, top):
    return ''.join(rng.choice(' \t') for _ in range(rng.randint(0, top)))


def lay_render(rng, line, mode, dangling=False):
    """One logical line in a layout -> (physical lines, the logical line they join to, the layout really used).
    The line is cut only at a single blank between two non-blank characters: the joiner puts one blank back."""
    pts = [i for i in range(1, len(line) - 1) if line[i] == ' ' and line[i - 1] not in ' \t\\' and line[i + 1] not in ' \t#']
    if mode != 'one' and not pts:
        mode = 'lead-backslash' if mode != 'cont2' else 'one'
    if mode == 'one':
        cuts = []
    elif mode == 'cont2':
        cuts = [rng.choice(pts)]
    elif mode == 'cont-all':
        cuts = sorted(rng.sample(pts, min(len(pts), 12)))
    else:
        cuts = sorted(rng.sample(pts, min(len(pts), rng.randint(0 if mode == 'lead-backslash' else 1, 3))))
    pieces, prev = [], 0
    for c in cuts:
        pieces.append(line[prev:c])
        prev = c + 1
    pieces.append(line[prev:])
    joined = line
    if mode == 'lead-backslash':
        pieces = [lay_blanks(rng, 2)] + [pieces[0].lstrip()] + pieces[1:]
        joined = ' ' + line.strip()
    wide = 4 if mode == 'cont-blanks' else 1
    phys = []
    for j, piece in enumerate(pieces):
        last = j == len(pieces) - 1
        s = piece if j == 0 else lay_blanks(rng, 2 * wide) + piece
        if not last or dangling:
            s += lay_blanks(rng, wide) + '\\' + lay_blanks(rng, wide)
        phys.append(s)
        if not last and mode == 'cont-comments':
            phys += [rng.choice(LAY_FILLER) for _ in range(rng.randint(1, 2))]
    return phys, joined, mode


def lay_case(rng, kind, mode, start):
    """Scenario + layout + input form -> the case (a JSON object that carries everything the judge needs)."""
    sc = scenario(rng, kind)
    marked = {c[0] for c in sc.cands}
    phys, first, oneline = [], [], []
    used = mode
    for ix, line in enumerate(sc.lines):
        line = rng.choice(['', '', '  ', '    ', '\t', '      ']) + line
        if rng.random() < 0.25:
            phys += [rng.choice(LAY_FILLER) for _ in range(rng.randint(1, 2))]
        m = mode if ix in marked else rng.choice(['one', 'one', 'one', 'one'] + CULPRIT_LAYOUTS[1:])
        if line.strip() == '\\':
            m = 'one'
        p, joined, m = lay_render(rng, line, m, dangling=(ix == sc.dangling))
        if ix in marked:
            used = m
        first.append(len(phys))
        phys += p
        oneline.append(joined + (' \\' if ix == sc.dangling else ''))
    if sc.dangling is not None or rng.random() < 0.3:
        phys += [rng.choice(LAY_FILLER) for _ in range(rng.randint(0 if sc.dangling is not None else 1, 2))]
    form = rng.choice(LAY_FORMS)
    if form.startswith('str'):
        seps = {'str': ['\n'], 'str-crlf': ['\r\n'], 'str-mixed': ['\n', '\r\n']}[form]
        chunks = [''.join(p + (rng.choice(seps) if j < len(phys) - 1 else '') for j, p in enumerate(phys))]
        form = 'str'
    else:
        chunks = regroup(rng, phys)
    base = 1 if start is None else start
    expect = None
    if sc.cands:
        expect = {'candidates': [{'lineNumber': base + first[ix], 'line': oneline[ix][:-2] if ix == sc.dangling else oneline[ix], 'errors': errs,
                                  'column': col} for ix, errs, col in sc.cands]}
    return {'text': '\n'.join(chunks), 'chunks': chunks, 'form': form, 'start': start, 'kw': start is not None and rng.random() < 0.3,
            'kind': kind, 'layout': used, 'oneline': oneline, 'first': first, 'expect': expect}


def lay_fields(res):
    return {f: res[f] for f in ('error', 'line', 'column', 'lineNumber')}


def layout_failures(parser, case):
    """-> [(oracle, expected, actual)] for one case of the layouts stream (empty: the case behaves)."""
    base = 1 if case['start'] is None else case['start']
    what, res = call_outcome(parser, make_arg(case['form'], case['chunks']), base, case['kw'])
    if what == 'host':
        return [('only-parser-error-escapes', 'BareScriptParserError or a model', res)]
    bad = []
    expect = case['expect']
    ref_what, ref = parse_outcome(parser, '\n'.join(case['oneline']))
    if expect is None:
        if what != 'ok':
            return [('layout-keeps-acceptance', 'accepted (a valid program, whatever its layout)', lay_fields(res))]
        if ref_what == 'ok' and ref != res:
            bad.append(('layout-same-as-one-line-spelling', fw.shorten(ref, 1500), fw.shorten(res, 1500)))
        return bad
    if what == 'ok':
        return [('layout-diagnostic-reported', expect['candidates'], 'accepted')]
    got = lay_fields(res)
    cand = [c for c in expect['candidates'] if c['lineNumber'] == res['lineNumber']]
    if not cand:
        bad.append(('layout-error-line-number', expect['candidates'], got))
    else:
        cand = cand[0]
        if res['error'] not in cand['errors']:
            bad.append(('layout-error-kind', cand, got))
        if res['line'] != cand['line']:
            bad.append(('layout-error-line-text', cand, got))
        column = {1: 1, 'end': len(cand['line']) + 1}.get(cand['column'])
        if column is not None and res['column'] != column:
            bad.append(('layout-error-column', dict(cand, column=column), got))
    # the one-line spelling of the same program (one physical line per logical line, start line 1) gives the same error,
    # its number mapped to the first physical line of that logical line and offset by the start line
    if ref_what == 'err' and ref['lineNumber'] is not None and 1 <= ref['lineNumber'] <= len(case['first']):
        want = dict(lay_fields(ref), lineNumber=base + case['first'][ref['lineNumber'] - 1])
        if want != got:
            bad.append(('layout-same-as-one-line-spelling', want, got))
    elif ref_what != 'err':
        bad.append(('layout-same-as-one-line-spelling', 'accepted' if ref_what == 'ok' else ref, got))
    # the formatted message: '<error>, line number N:' / the line / the caret under the column
    if isinstance(res['lineNumber'], int) and 1 <= res['column'] <= len(res['line']) + 1:
        head = f"{res['error']}, line number {res['lineNumber']}:"
        msg = res['message'].split('\n')
        if msg[0] != head:
            bad.append(('layout-message', head, res['message']))
        elif len(res['line']) <= 120 and res['message'] != f"{head}\n{res['line']}\n{' ' * (res['column'] - 1)}^\n":
            bad.append(('layout-message', f"{head}\n{res['line']}\n{' ' * (res['column'] - 1)}^\n", res['message']))
    # every oracle on a reported error, from the text alone
    probe = fw.Ctx('C06', 'quick', 0)
    check_error(probe, parser, case['text'], res, base, 'layouts')
    bad += [(w['oracle'], w['expected'], w['actual']) for w in probe.witnesses]
    return bad


def start_tag(start):
    return 'start:' + ('omitted' if start is None else 'one' if start == 1 else 'zero' if start == 0 else 'negative' if start < 0 else
                       'large' if start > 2 ** 30 else 'offset')


def layouts_stream(ctx, parser):
    rng = ctx.rng('layouts')
    st = ctx.stream('layouts', 'every diagnostic kind (expression fault in each of the 8 statement kinds with an expression; Missing endif / endwhile / '
                               'endfor at end of input and at endfunction; Missing endfunction; nested function; endfunction / elif / else / endif / '
                               'endwhile / endfor with nothing to match - also across a function boundary; elif after else; two else; break / continue '
                               'outside a loop; unterminated continuation; plus valid programs) x every start line (omitted, 1, 0, negative, offset, '
                               '> 2**31; positional or keyword) x every layout of the offending logical line (one physical line; continued over 2 / '
                               'many lines; comment, blank and commented-backslash lines inside the continuation; blanks and tabs around the backslash; '
                               'a lone backslash line in front), inside random open blocks, behind random balanced statements that are themselves '
                               'continued, \\n / \\r\\n / mixed, as one string or as chunks in every iterable form. Expected error, line text and '
                               'line number are known by construction, the column from the one-line spelling; the model gets the same chunks '
                               '(start < 0: the model takes naturals, it is asked with start 0 and the difference is added - theorem '
                               'start_line_offsets). non-trivial = the offending line spans >= 2 physical lines or the start line is not 1')
    cases = []
    starts = LAY_STARTS + [rng.randint(-1000, -2), rng.randint(3, 100000)] * ctx.scale(0, 1)
    for _ in range(ctx.scale(1, 12)):
        for kind in LAYOUT_KINDS:
            for start in starts:
                for mode in CULPRIT_LAYOUTS:
                    cases.append(lay_case(rng, kind, mode, start))
    resps = None
    if ctx.driver is not None:
        to_model = [ix for ix, c in enumerate(cases) if model_can(c['text'])]
        resps = dict(zip(to_model, model_batch(ctx, [{'op': 'parse', 'chunks': cases[ix]['chunks'],
                                                       'start': max(0, 1 if cases[ix]['start'] is None else cases[ix]['start'])}
                                                      for ix in to_model])))
    reported, failed = {}, []
    for ix, case in enumerate(cases):
        base = 1 if case['start'] is None else case['start']
        bad = layout_failures(parser, case)
        what, res = call_outcome(parser, make_arg(case['form'], case['chunks']), base, case['kw'])
        st.case({k: case[k] for k in ('chunks', 'form', 'start', 'kw')}, nontrivial=(case['layout'] != 'one' or case['start'] not in (None, 1)),
                tags=['kind:' + case['kind'], 'layout:' + case['layout'], start_tag(case['start']), 'form:' + case['form'],
                      what + (':' + res['error'] if what == 'err' else '')])
        if bad:
            failed.append((len(case['text']), ix, bad))
        if resps is not None and ix in resps and what != 'host':
            model = resps[ix]
            if what == 'ok':
                impl = {'ok': canon_impl(res)}
                model = {'ok': canon_model(model.get('ok'))} if 'ok' in model else model
            else:
                impl = lay_fields(res)
                if base < 0 and isinstance(impl['lineNumber'], int):
                    impl['lineNumber'] -= base
            ctx.compare('parse-layouts', {k: case[k] for k in ('chunks', 'start')}, impl, model)
    # the shortest failing cases first (a witness is read by a person), at most 3 per oracle
    for _, ix, bad in sorted(failed):
        oracle, expected, actual = bad[0]
        reported[oracle] = reported.get(oracle, 0) + 1
        if reported[oracle] <= 3:
            ctx.witness(oracle, cases[ix], expected, actual, all_failed_oracles=sorted({b[0] for b in bad}))
    if any(n > 3 for n in reported.values()):
        ctx.notes.append(f'layouts: failing cases per oracle {reported}; the 3 shortest of each are reported as witnesses')


# ---------------------------------------------------------------------------------------------------------------------
# caret: the elision of a long line is arithmetic on (length of the line, column) alone - three branches (window at the
# left edge / in the middle / at the right edge) with their borders at single columns (61, length - 59, ...). The stream
# puts the fault at EVERY column of the line, for every line length of the quantifier (0..400) and a scale axis beyond:
#  * `format`: the message of BareScriptParserError(error, line, column, number) itself, for every length x every column
#    (the complete domain of the formatting for lengths <= 400); the line is made of characters that do not repeat within
#    251 places, so a caret that is off by anything but a multiple of 251 sits under a different character;
#  * `parse`: real faults in all 8 statement kinds with an expression, placed so that the diagnostic of parse_script comes
#    out at each column 1..length+1 of lines of the lengths around the branch borders (also continued over two lines),
#    judged by every oracle on a reported error (check_error) and compared with the model.
# ---------------------------------------------------------------------------------------------------------------------

CARET_CHARS = ([chr(c) for c in range(0x30, 0x3a)] + [chr(c) for c in range(0x41, 0x5b)] + [chr(c) for c in range(0x61, 0x7b)] +
               [chr(c) for c in range(0xc0, 0x180) if c not in (0xd7, 0xf7)])[:251]
CARET_IDENT = 'abcdefghijklmnopqrstuvwxyzABCDEFGHIJKLMNOPQRSTUVWXYZ_0123456789'          # 63 characters, starts with a letter
CARET_KINDS = [('assign', [], 'total = ', ''), ('expr-stmt', [], '', ''), ('if', [], 'if ', ':'), ('elif', ['if a:'], 'elif ', ' :'),
               ('while', [], 'while ', ':'), ('for', [], 'for v, i in ', ':'), ('jumpif', [], 'jumpif (', ') lbl'), ('return', [], '  return ', '')]


def caret_line(length, shift=0):
    return ''.join(CARET_CHARS[(i + shift) % len(CARET_CHARS)] for i in range(length))


def ident_of(length, shift=0):
    """an identifier of that length whose characters do not repeat within 63 places"""
    if length <= 0:
        return ''
    return CARET_IDENT[shift % 52] + ''.join(CARET_IDENT[(i + shift) % 63] for i in range(1, length))


def format_failure(parser, line, column, number, prefix=None):
    """-> None | (oracle, expected, actual) for the message of one directly constructed error"""
    exc = parser.BareScriptParserError('Syntax error', line, column, number, prefix)
    err = {'error': exc.error, 'line': exc.line, 'column': exc.column_number, 'lineNumber': exc.line_number, 'message': str(exc)}
    probe = fw.Ctx('C06', 'quick', 0)
    if exc.line != line or exc.column_number != column or exc.line_number != number:
        return 'error-carries-line-and-column', {'line': line, 'column': column, 'lineNumber': number}, {f: err[f] for f in ('line', 'column', 'lineNumber')}
    if not caret_ok(probe, err, None):
        w = probe.witnesses[0]
        return w['oracle'], w['expected'], w['actual']
    head = (prefix + '\n' if prefix is not None else '') + 'Syntax error' + (f', line number {number}' if number is not None else '') + ':\n'
    if not err['message'].startswith(head) or (len(line) <= 120 and err['message'] != head + line + '\n' + ' ' * (column - 1) + '^\n'):
        return 'message-shape', head + (line if len(line) <= 120 else '<window of the line>') + '\n' + '<caret>\n', err['message']
    return None


def caret_columns(length, rng, every):
    if every:
        return range(1, length + 2)
    cols = set(range(1, 70)) | set(range(length // 2 - 3, length // 2 + 4)) | set(range(length - 66, length + 2))
    cols |= {rng.randint(1, length + 1) for _ in range(60)}
    return sorted(c for c in cols if 1 <= c <= length + 1)


def caret_parse_text(kind, length, column, spaced, cont):
    """A program whose expression fault is reported at `column` of a logical line of `length` characters in this statement
    kind -> (text, expected line) | None when the kind has no room for it. The diagnostic of `A)B` points at the `)`, the
    one of `A ) B` at the blank in front of it, the one of `A +` (column = length + 1) just past the end."""
    _, head_lines, head, tail = kind
    if column == length + 1:
        if tail:
            return None
        a = length - len(head) - 2
        if a < 1:
            return None
        line = head + ident_of(a, column) + ' +'
    else:
        a = column - 1 - len(head)
        fault = ' ) ' if spaced else ')'
        b = length - len(head) - a - len(fault) - len(tail)
        if a < (0 if not head and not spaced else 1) or b < 0 or (spaced and b < 1):
            return None
        line = head + ident_of(a, column) + fault + ident_of(b, column + 7) + tail
    phys = [line]
    if cont and spaced and column != length + 1:
        cut = len(head) + a            # the blank in front of the `)`
        phys = [line[:cut] + ' \\', '    ' + line[cut + 1:]]
    return '\n'.join(head_lines + phys), line


def caret_stream(ctx, parser):
    rng = ctx.rng('caret')
    st = ctx.stream('caret', 'the fault at EVERY column: (format) the message of a BareScriptParserError built for every line length 0..400 x every '
                             'column 1..length+1 (complete for the quantifier; thorough also every column of 401..1000), lengths 1000 / 4300 / 4301 / '
                             '20000 (thorough 100001) at the columns around the three elision branches, with / without line number and prefix line, '
                             'line text without repetition within 251 places: line, column and number are carried unchanged, the caret sits under '
                             'line[column-1]; (parse) a real expression fault reported by parse_script at every column 1..length+1 of lines of '
                             'length 121, 122, 180, 181, 241, 400 (thorough: every 7th length 121..400 and 1000), in all 8 statement kinds with an '
                             'expression in turn, glued `A)B` / spaced `A ) B` / past the end `A +`, some continued over two physical lines: all oracles '
                             'on a reported error + the model. The format part is implementation-only (the driver has no message operation; the '
                             'theorems of C06Caret are about the same arithmetic). non-trivial = the line is longer than 120')
    failures = {}

    def report(part, oracle, inp, expected, actual):
        failures[part + ':' + oracle] = failures.get(part + ':' + oracle, 0) + 1
        if failures[part + ':' + oracle] <= 3:
            ctx.witness(oracle, inp, expected, actual)

    # (parse)
    plens = ctx.scale([121, 122, 180, 181, 241, 400], sorted(set(range(121, 401, 7)) | {121, 122, 180, 181, 241, 400, 1000}))
    cases = []
    for length in plens:
        for column in range(1, length + 2):
            spaced = (column + length) % 3 == 0
            cont = (column + length) % 12 == 0
            for turn in range(2 * len(CARET_KINDS)):
                kind = CARET_KINDS[(column + length + turn) % len(CARET_KINDS)]
                made = caret_parse_text(kind, length, column, spaced and turn < len(CARET_KINDS), cont)
                if made is not None:
                    cases.append((kind[0], length, column, made[0], made[1]))
                    break
    resps = None
    if ctx.driver is not None:
        resps = model_batch(ctx, [{'op': 'parse', 'chunks': [c[3]], 'start': 1} for c in cases])
    for ix, (kind, length, column, text, line) in enumerate(cases):
        what, res = parse_outcome(parser, text)
        hit = what == 'err' and res['column'] == column and res['line'] == line
        st.case(['parse', kind, length, column], nontrivial=True,
                tags=['parse', 'kind:' + kind, 'fault-at-the-planned-column:' + str(hit), what + (':' + res['error'] if what == 'err' else '')])
        probe = fw.Ctx('C06', 'quick', 0)
        if what == 'host':
            report('parse', 'only-parser-error-escapes', {'text': text}, 'BareScriptParserError or a model', res)
        elif what == 'ok':
            report('parse', 'faulty-expression-rejected', {'text': text}, 'parser error', 'accepted')
        elif not check_error(probe, parser, text, res, 1, 'caret'):
            w = probe.witnesses[0]
            report('parse', w['oracle'], w['input'], w['expected'], w['actual'])
        if resps is not None and what == 'err':
            ctx.compare('parse-caret', text, lay_fields(res), resps[ix])
    # (format)
    full = ctx.scale(400, 1000)
    lengths = list(range(0, full + 1)) + [n for n in [1000, 4300, 4301, 20000] + ctx.scale([], [65536, 100001]) if n > full]
    for length in lengths:
        line = caret_line(length, rng.randint(0, 250))
        number = rng.choice([1, 7, 12345, None])
        prefix = rng.choice([None, None, 'Included from "lib.bare"'])
        branches = set()
        for column in caret_columns(length, rng, length <= full):
            if length > 120:
                left = column - 1 - 60
                branches.add('left' if left < 0 else 'right' if left + 120 > length else 'middle')
            bad = format_failure(parser, line, column, number, prefix)
            if bad is not None:
                report('format', bad[0], {'construct': {'line': line, 'column': column, 'lineNumber': number, 'prefix': prefix}}, bad[1], bad[2])
        st.case(['format', length, line[:8], number, prefix], nontrivial=length > 120,
                tags=['format', 'length:' + ('<=120' if length <= 120 else '121-400' if length <= 400 else '>400')] +
                     ['branch:' + b for b in sorted(branches)])
    if any(n > 3 for n in failures.values()):
        ctx.notes.append(f'caret: failing cases per oracle {failures}; the first 3 of each are reported as witnesses')


# ---------------------------------------------------------------------------------------------------------------------
# host-text: what a Python str can hold and a host hands over without looking - lone surrogates (json.loads('"\\ud83d"'),
# bytes decoded with errors='surrogateescape', os.fsdecode, a UTF-16 text cut inside a pair), a byte order mark, NUL and
# other control characters, the line separators str.splitlines knows and the language does not (VT, FF, FS, GS, RS, NEL,
# LS, PS), Unicode blanks, non-characters, private use, astral letters / digits / emoji, combining marks, full-width
# look-alikes of the punctuation - at every place of a script (string literal, comment, first character of the text / of
# a later line, operand, inside a name, label, include URL, bracketed name, around a continuation backslash, after a
# block keyword, in a long elided line, with CRLF), once, twice and 64 times, as one string and as lines in an iterable.
# The Lean model has no such values (String holds scalar values only): implementation-side oracles only (the scalar ones of these
# characters reach the model through the other streams: \\w, \\d, \\s of the model are the Unicode classes).
# ---------------------------------------------------------------------------------------------------------------------

HOST_CHARS = [
    ('surrogate-high', '\ud800'), ('surrogate-high-last', '\udbff'), ('surrogate-low', '\udc00'), ('surrogate-low-last', '\udfff'),
    ('surrogate-cut-emoji', '\ud83d'), ('surrogate-reversed-pair', '\ude00\ud83d'), ('surrogate-escaped-byte', '\udcff'),
    ('surrogate-escaped-byte-80', '\udc80'), ('bom', '\ufeff'), ('bom-swapped', '\ufffe'), ('nul', '\x00'), ('ctrl-01', '\x01'), ('backspace', '\x08'),
    ('esc', '\x1b'), ('del', '\x7f'), ('c1-80', '\x80'), ('nel', '\x85'), ('nbsp', '\xa0'), ('soft-hyphen', '\xad'), ('zwsp', '\u200b'),
    ('zwj', '\u200d'), ('rlo', '\u202e'), ('word-joiner', '\u2060'), ('line-separator', '\u2028'), ('paragraph-separator', '\u2029'),
    ('ideographic-space', '\u3000'), ('en-quad', '\u2000'), ('vt', '\x0b'), ('ff', '\x0c'), ('fs', '\x1c'), ('gs', '\x1d'), ('rs', '\x1e'), ('us', '\x1f'),
    ('noncharacter', '\uffff'), ('replacement', '\ufffd'), ('private-use', '\ue000'), ('astral-emoji', '\U0001f600'), ('astral-last', '\U0010ffff'),
    ('astral-letter', '\U00010400'), ('astral-digit', '\U0001d7d8'), ('combining', 'e\u0301'), ('combining-alone', '\u0301'), ('fullwidth-digit', '\uff11'),
    ('arabic-digit', '\u0663'), ('letter', '\u00e9'), ('superscript-digit', '\u00b2'), ('roman-numeral', '\u2167'), ('fullwidth-paren', '\uff08'),
    ('fullwidth-apostrophe', '\uff07'), ('fullwidth-backslash', '\uff3c'), ('fullwidth-colon', '\uff1a'), ('dotless-i', '\u0131'), ('sharp-s', '\u00df'),
]

HOST_SLOTS = [
    ('string', "a = 's{x}t'"), ('string-double', 'a = "{x}"'), ('string-alone', "'{x}'"), ('string-in-call', "fn(a, '{x}', b)"),
    ('comment', '# c{x}c\na = 1'), ('comment-first', '#{x}\na = 1'), ('text-start', '{x}a = 1'), ('text-start-comment', '{x}# c\na = 1'),
    ('text-start-blank', '{x}\na = 1'), ('line-start', 'a = 1\n{x}b = 2'), ('indent', '  {x}  a = 1'), ('line-end', 'a = 1{x}'),
    ('text-end', 'a = 1\n{x}'), ('operand', 'a = {x}'), ('between', 'a = b {x} c'), ('glued', 'a = b{x}c'), ('in-name', 'a{x}b = 1'), ('alone', '{x}'),
    ('number', 'a = 1{x}'), ('number-fraction', 'a = 1.{x}5'), ('exponent', 'a = 1e+{x}'), ('if', 'if {x}:\nendif'),
    ('if-string', "if a == '{x}':\n  b = 1\nendif"), ('after-colon', 'if a:{x}\nendif'), ('keyword-gap', 'if{x}a:\nendif'),
    ('function-name', 'function f{x}():\nendfunction'), ('function-arg', 'function f(a{x}):\nendfunction'), ('label', 'l{x}:'), ('jump', 'jump l{x}'),
    ('include-system', 'include <u{x}.bare>'), ('include', "include 'u{x}.bare'"), ('bracket', 'a = [b{x}c]'), ('call-arg', "fn(a, {x})"),
    ('continued', "a = fn(1, \\\n  '{x}', \\\n  2)"), ('after-backslash', 'a = 1 + \\{x}\n  2'), ('before-backslash', "a = 's' + {x}\\\n  2"),
    ('lone-continuation', 'a = 1 + \\\n{x}\n  2'), ('closer', 'if a:\nendif{x}'), ('open-block', "while a:\n  b = '{x}'"), ('fault-after', "a = '{x}'\nb = (1"),
    ('fault-same-line', "a = '{x}' )"), ('fault-before', "b = (1\na = '{x}'"), ('long-line', "a = '" + 'z' * 150 + "{x}' ) + b"),
    ('long-line-left', "a = '{x}' ) + '" + 'z' * 150 + "'"), ('crlf', "a = '{x}'\r\nb = {x}\r\n"), ('for', "for v in '{x}':\n  w = v\nendfor"),
    ('return', "function f():\n  return '{x}'\nendfunction"), ('jumpif', "l:\njumpif (a == '{x}') l"),
]
HOST_LITERAL_SLOTS = {'string', 'string-double', 'string-alone', 'string-in-call', 'if-string', 'continued', 'for', 'return', 'jumpif'}
HOST_FORMS = ['list', 'tuple', 'generator', 'str-subclass', 'only-iter', 'list-of-str-subclass']


def string_literals(obj, out=None):
    out = [] if out is None else out
    if isinstance(obj, dict):
        if isinstance(obj.get('string'), str):
            out.append(obj['string'])
        for v in obj.values():
            string_literals(v, out)
    elif isinstance(obj, list):
        for v in obj:
            string_literals(v, out)
    return out


def host_text_failures(parser, case):
    """-> [(oracle, expected, actual)] for one case {'text', 'start', 'form', 'literal'} of the host-text stream"""
    text, start = case['text'], case['start']
    what, res = parse_outcome(parser, text, start)
    if what == 'host':
        return [('only-parser-error-escapes', 'BareScriptParserError or a model', res)]
    bad = []
    probe = fw.Ctx('C06', 'quick', 0)
    if what == 'err':
        check_error(probe, parser, text, res, start, 'host-text')
        position_metamorphic(probe, parser, text, res, start, 'host-text')
    else:
        ll = logical_lines(text)
        if ll is None:
            bad.append(('dangling-continuation-rejected', 'parser error', 'accepted'))
        elif open_depth(ll) != 0:
            bad.append(('open-block-rejected', 'parser error (unbalanced blocks)', 'accepted'))
        if case.get('literal') is not None and case['literal'] not in string_literals(res):
            bad.append(('string-literal-kept', case['literal'], string_literals(res)))
        gone = line_without_effect(parser, text, res)
        if gone is not None:
            bad.append(('every-line-has-an-effect', 'deleting line %d is an error or changes the model' % gone, 'same model'))
    what1, res1 = (what, res) if start == 1 else parse_outcome(parser, text)
    if what1 != 'host':
        prepend_check(probe, parser, text, ['# c', '', 'zz = 1'], what1, res1)
        if what1 == 'err' and res1['lineNumber'] is not None and start != 1:
            start_check(probe, parser, text, start, res1)
    bad += [(w['oracle'], w['expected'], w['actual']) for w in probe.witnesses]
    # the same text as lines in an iterable / as a str subclass
    call = {'form': case['form'], 'chunks': re.split(r'\r?\n', text), 'start': start, 'kw': False, 'twice': True}
    bad += [(b[1], b[2], b[3]) for b in run_session(parser, [call])]
    return bad


def host_text_stream(ctx, parser):
    rng = ctx.rng('host-text')
    st = ctx.stream('host-text', 'every character class only a host-language string has (lone high / low surrogates as json.loads, surrogateescape, '
                                 'os.fsdecode or a cut UTF-16 text produce them, reversed pair, byte order mark and its swap, NUL, control, C1, the '
                                 'line separators of str.splitlines - VT FF FS GS RS US NEL LS PS -, Unicode blanks, zero-width and bidi marks, '
                                 'non-characters, private use, astral emoji / letter / digit, combining marks, non-ASCII digits and letters, '
                                 'full-width look-alikes of ( \' \\ :) x every place of a script (48 slots: string literal of every statement kind, '
                                 'comment, first character of the text / of a later line, operand, name, number, label, jump, include, bracketed '
                                 'name, around a continuation backslash, after a block keyword, lines elided in the message, CRLF) x 1 / 2 / 64 '
                                 'repetitions, start line 1 or offset, as one string and as lines in an iterable / str subclass. Oracles on the '
                                 'implementation only (the Lean String has scalar values only): only BareScriptParserError '
                                 'escapes; a reported error names a logical line of the text, its text, a column inside it, caret under that '
                                 'character; prepending lines shifts the number; an accepted text keeps its string literal and every line has an '
                                 'effect; the iterable form gives the same outcome. non-trivial = every case')
    failed = []
    cases = []
    for cname, x in HOST_CHARS:
        for sname, template in HOST_SLOTS:
            reps = [1] + ([rng.choice([2, 64])] if rng.random() < ctx.scale(0.15, 1.0) else [])
            for n in reps:
                text = template.replace('{x}', x * n)
                literal = 's' + x * n + 't' if sname == 'string' else x * n if sname in HOST_LITERAL_SLOTS else None
                cases.append({'text': text, 'start': rng.choice([1, 1, 1, 40]), 'form': rng.choice(HOST_FORMS), 'literal': literal,
                              'char': cname, 'slot': sname, 'times': n})
    for ix, case in enumerate(cases):
        bad = host_text_failures(parser, case)
        what, res = parse_outcome(parser, case['text'], case['start'])
        st.case([case['text'], case['start'], case['form']], nontrivial=True,
                tags=['char:' + case['char'], 'slot:' + case['slot'], 'times:' + str(case['times']), 'form:' + case['form'],
                      what + (':' + res['error'] if what == 'err' else '')])
        if bad:
            failed.append((len(case['text']), ix, bad))
    reported = {}
    for _, ix, bad in sorted(failed):
        oracle, expected, actual = bad[0]
        reported[oracle] = reported.get(oracle, 0) + 1
        if reported[oracle] <= 3:
            ctx.witness(oracle, dict(cases[ix], host_text=True), expected, actual, all_failed_oracles=sorted({b[0] for b in bad}))
    if any(n > 3 for n in reported.values()):
        ctx.notes.append(f'host-text: failing cases per oracle {reported}; the 3 shortest of each are reported as witnesses')


SESSION_ORACLES = ('input-form-same-outcome', 'input-object-left-alone', 'repeat-call-same-outcome')


def search(ctx):
    pass


def replay_session(parser, witness):
    """Witness of the forms stream: make its calls (history, then the failing call) in this - new - process."""
    inp = witness['input']
    oracle = witness['oracle']
    bad = run_session(parser, inp['calls'])
    last = len(inp['calls']) - 1
    if oracle in SESSION_ORACLES:
        return any(b[0] == last and b[1] == oracle for b in bad)
    call = inp['calls'][-1]
    what, res = call_outcome(parser, make_arg(call['form'], call['chunks']), call.get('start', 1), call.get('kw', False))
    if what == 'host':
        return True
    if what == 'ok':
        return logical_lines(inp['text']) is None
    probe = fw.Ctx('C06', 'quick', 0)
    return not check_error(probe, parser, inp['text'], res, call.get('start', 1), 'replay')


def replay(witness):
    parser = fw.impl()['parser']
    inp = witness['input']
    if 'calls' in inp:
        return replay_session(parser, witness)
    if 'expect' in inp:                 # a case of the layouts stream carries its own expectation
        return any(b[0] == witness['oracle'] for b in layout_failures(parser, inp))
    if 'construct' in inp:              # caret stream, format part
        c = inp['construct']
        bad = format_failure(parser, c['line'], c['column'], c['lineNumber'], c['prefix'])
        return bad is not None and bad[0] == witness['oracle']
    if inp.get('host_text'):
        return any(b[0] == witness['oracle'] for b in host_text_failures(parser, inp))
    what, res = parse_outcome(parser, inp['text'], inp.get('start', 1))
    probe = fw.Ctx('C06', 'quick', 0)
    if what == 'host':
        return True
    if witness['oracle'] in ('trailing-blanks-keep-column', 'indent-shifts-column'):
        if what != 'err':
            return False
        for seed in range(8):
            position_metamorphic(probe, parser, inp['text'], res, inp.get('start', 1), 'replay', random.Random(seed))
        return any(w.get('oracle') == witness['oracle'] for w in probe.witnesses)
    if witness['oracle'] == 'every-line-has-an-effect':
        return what == 'ok' and line_without_effect(parser, inp['text'], res, only=inp.get('line')) is not None
    if witness['oracle'] in ('prepend-shifts-line-number', 'prepend-keeps-acceptance'):
        return not prepend_check(probe, parser, inp['text'], list(inp['prefix']), what, res)
    if witness['oracle'] == 'start-line-offsets':
        what1, res1 = parse_outcome(parser, inp['text'])
        return what1 == 'err' and res1['lineNumber'] is not None and not start_check(probe, parser, inp['text'], inp['start'], res1)
    if witness['oracle'] == 'no-line-dropped':
        return what != 'ok' or '@@marker@@' not in repr(res)
    if what == 'err':
        check_error(probe, parser, inp['text'], res, inp.get('start', 1), 'replay')
    else:
        ll = logical_lines(inp['text'])
        if ll is None or open_depth(ll) != 0:
            return True
    return bool(probe.witnesses)


# extension: regex AST + backtracking matcher, pattern pins, scanner = regex theorems (DESIGN 13.9)
from props import c06x  # noqa: E402  pylint: disable=wrong-import-position
c06x.EXTRA_ROOTS = ['Drv.C06X']
fw.attach_extension(globals(), c06x)
