"""C06 - the parser is total and its diagnostics point at the offending source."""

import json
import os
import random
import re

import fw
import progen

ID = 'C06'
LEVEL = 'proof'
LEAN_TARGETS = ['BareProofs.C06', 'BareProofs.C06Caret']
DRIVER = 'drv_c06'
DRIVER_ROOT = 'Drv.C06'
GEN = ['Regex']
THEOREMS = [
    # totality, error positions (all error sources, all eight statement kinds with an expression)
    'C06.parse_total', 'C06.error_position', 'C06.error_kinds', 'C06.first_error_wins', 'C06.shape_offsets',
    'C06.classify_error_column',
    # nothing left open, every logical line accounted for
    'C06.no_open_block_accepted', 'C06.ok_is_stmts', 'C06.open_block_rejected', 'C06.accounts_for_every_line',
    'C06.line_has_effect', 'C06.block_lines_move_the_stack', 'C06.LineEffect.stmts_monotone',
    # line numbers move with the text / the start line number
    'C06.start_line_offsets', 'C06.prepend_is_start_offset', 'C06.prepend_shifts_line_partial', 'C06.prepend_shifts_line_single',
    'C06.stepLine_abs', 'C06.prepend_statements_shift', 'C06.prepend_statements_acceptance',
    # the formatted message (BareProofs/C06Caret.lean)
    'C06.caret_under_same_char', 'C06.caret_in_range', 'C06.caret_row',
]
ASSUMPTIONS = [
    'CPython re engine: the line classifier and token scanners of the model re-implement each anchored pattern by hand '
    '(Gen/Regex pins the pattern sources; correspondence streams tie the behaviour)',
    'chunks passed to parse_script are lines or groups of lines WITHOUT their trailing newline',
]
LEVEL_TEXT = ('Theorems about the Lean model of parse_script (line splitter + continuation joiner, line classifier, token scanners, '
              'stack-based lowering): every error carries line number = start + index of the first physical line of the logical line, '
              'that line text and a column inside it; success implies empty block stack, no open function, no pending continuation; '
              'every successfully parsed logical line is classified once and has a documented effect (statement appended, function opened / '
              'closed, include merged); comment/blank chunks in front give the same outcome and simple statement lines in front the same '
              'error, line number moved by their count; start_line_number + d moves every reported number by d; '
              'the caret of the formatted message sits under the same character for every line length/column (elision arithmetic). '
              'The model is tied to parser.py by differential correspondence on token soup, mutated programs and long lines, and '
              'metamorphic oracles (prepend shifts line number, marker lines survive) run on the implementation.')
LEVEL_NOTE = ('Trusted: Lean kernel; extract.py; correspondence harness. Modelled not verified: CPython re. Python recursion limit '
              '(nesting > ~300 in one expression raises RecursionError) is outside the model; generators keep nesting <= 50.')

TOKENS = ['if', 'elif', 'else', 'endif', 'while', 'endwhile', 'for', 'endfor', 'in', 'function', 'endfunction', 'async', 'return',
          'break', 'continue', 'jump', 'jumpif', 'include', ':', '(', ')', ',', '...', '=', '==', '+', '-', '*', '**', '/', '%', '<', '<=',
          '&&', '||', '!', 'a', 'b', 'fn', 'x1', '1', '2.5', "'s'", '"t"', '[a b]', '<u>', "'u.bare'", '\\', '#', ' ', '  ', '\t']

CLOSERS = ['endif', 'endwhile', 'endfor', 'endfunction']


def parse_outcome(parser, text, start=1):
    """-> ('ok', model) | ('err', {error, line, column, lineNumber, message}) | ('host', class name)"""
    try:
        if start == 1:
            return 'ok', parser.parse_script(text)
        return 'ok', parser.parse_script(text, start)
    except parser.BareScriptParserError as exc:
        return 'err', {'error': exc.error, 'line': exc.line, 'column': exc.column_number, 'lineNumber': exc.line_number,
                       'message': str(exc)}
    except RecursionError:
        return 'host', 'RecursionError'
    except Exception as exc:  # pylint: disable=broad-except
        return 'host', type(exc).__name__ + ': ' + str(exc)[:120]


def logical_lines(text):
    """Independent reading of the layout rules: [(first physical line index, joined text)] ; None if a continuation dangles."""
    out = []
    pending = None
    for ix, raw in enumerate(re.split(r'\r?\n', text)):
        if re.match(r'^\s*(?:#.*)?$', raw):
            continue
        cont = re.search(r'\\\s*$', raw) is not None
        body = re.sub(r'\\\s*$', '', raw)
        if pending is None:
            if cont:
                pending = [ix, [body.rstrip()]]
            else:
                out.append((ix, raw))
        else:
            pending[1].append(body.strip())
            if not cont:
                out.append((pending[0], ' '.join(pending[1])))
                pending = None
    if pending is not None:
        return None
    return out


IDENT = r'[A-Za-z_]\w*'


def expr_region(line):
    """Independent reading of the statement forms of the language reference: (offset, text) of the expression a statement
    line carries, or None when the line has a degenerate shape this simple reading does not want to judge."""
    m = re.match(r'^\s*' + IDENT + r'\s*=\s*', line)
    if m:
        return (m.end(), line[m.end():]) if line[m.end():].strip() else None
    stripped = line.rstrip()
    m = (re.match(r'^\s*(?:if|elif|while)\s+', line) or
         re.match(r'^\s*for\s+' + IDENT + r'(?:\s*,\s*' + IDENT + r')?\s+in\s+', line))
    if m and stripped.endswith(':'):
        expr = line[m.end():len(stripped) - 1]
        return (m.end(), expr) if expr.strip() else None
    m = re.match(r'^\s*jumpif\s*\(', line)
    tail = re.search(r'\)\s+' + IDENT + r'\s*$', line)
    if m and tail and m.end() <= tail.start():
        expr = line[m.end():tail.start()]
        return (m.end(), expr) if expr.strip() else None
    m = re.match(r'^\s*return\s+(?=\S)', line)
    if m:
        return m.end(), line[m.end():]
    if re.match(r'^\s*(?:if|elif|while|for|jumpif|return|jump|include|function|async)\b', line):
        return None
    return 0, line


def expr_column_ok(ctx, parser, err, inp, what):
    """An expression error points at the place inside the LINE where the expression parser stopped: offset of the
    statement's expression + the column parse_expression reports for that expression alone."""
    if err['error'] not in ('Syntax error', 'Unmatched parenthesis'):
        if err['error'] != 'Unterminated line continuation' and err['column'] != 1:
            ctx.witness('structure-error-column-1', inp, 1, err, what=what)
            return False
        return True
    region = expr_region(err['line'])
    if region is None:
        return True
    off, expr = region
    try:
        parser.parse_expression(expr)
    except parser.BareScriptParserError as exc:
        if exc.error != err['error']:
            return True
        want = off + exc.column_number
        if want != err['column']:
            ctx.witness('expression-error-column', inp, {'column': want, 'expression': expr, 'offset': off}, err, what=what)
            return False
    except RecursionError:
        pass
    return True


def position_metamorphic(ctx, parser, text, err, start, what, rng=None):
    """For an expression error on a logical line that is one physical line:
    trailing-blanks-keep-column   appending blanks/tabs to that line changes nothing but the line text;
    indent-shifts-column          putting k blanks in front of it moves the column by exactly k.
    Not judged: degenerate statements whose expression is only blanks (`a = `, `if   :`: the pattern hands the LAST blank to
    the expression, so its offset moves with the blanks) and, for the indentation, an expression statement whose error
    is at its first token (parse_expression reports the start of the text it was given: column 1 whatever the indent)."""
    if err['error'] not in ('Syntax error', 'Unmatched parenthesis') or err['lineNumber'] is None:
        return True
    phys = re.split(r'\r?\n', text)
    pix = err['lineNumber'] - start
    if not 0 <= pix < len(phys) or phys[pix] != err['line']:
        return True                    # continued line (or something check_error reports)
    line = err['line']
    region = expr_region(line)
    if region is None or not region[1].strip():
        return True
    ok = True
    k = rng.randint(1, 3) if rng is not None else 2
    blanks = ''.join((rng.choice(' \t') if rng is not None else ' ') for _ in range(k))
    inp = {'text': text, 'start': start}
    # (a) trailing blanks
    what2, res2 = parse_outcome(parser, '\n'.join(phys[:pix] + [line + blanks] + phys[pix + 1:]), start)
    want = {'error': err['error'], 'line': line + blanks, 'column': err['column'], 'lineNumber': err['lineNumber']}
    got = {f: res2.get(f) for f in want} if what2 == 'err' else {'outcome': what2}
    if got != want:
        ctx.witness('trailing-blanks-keep-column', dict(inp, appended=blanks), want, got, what=what)
        ok = False
    # (b) indentation
    indent = len(line) - len(line.lstrip())
    if not (region[0] == 0 and err['column'] <= indent + 1):
        what3, res3 = parse_outcome(parser, '\n'.join(phys[:pix] + [' ' * k + line] + phys[pix + 1:]), start)
        want = {'error': err['error'], 'line': ' ' * k + line, 'column': err['column'] + k, 'lineNumber': err['lineNumber']}
        got = {f: res3.get(f) for f in want} if what3 == 'err' else {'outcome': what3}
        if got != want:
            ctx.witness('indent-shifts-column', dict(inp, indent=k), want, got, what=what)
            ok = False
    return ok


def check_error(ctx, parser, text, err, start, what):
    """Oracles on one reported error. Returns True if fine."""
    ok = True
    ll = logical_lines(text)
    if err['lineNumber'] is None:
        ctx.witness('error-has-line-number', {'text': text, 'start': start}, 'a 1-based line number', err, what=what)
        return False
    if ll is not None:
        cands = {start + ix: line for ix, line in ll}
        if err['lineNumber'] not in cands:
            ctx.witness('error-line-number-is-a-logical-line', {'text': text, 'start': start}, sorted(cands), err, what=what)
            ok = False
        elif cands[err['lineNumber']] != err['line']:
            ctx.witness('error-line-text', {'text': text, 'start': start}, cands[err['lineNumber']], err, what=what)
            ok = False
    if not 1 <= err['column'] <= len(err['line']) + 1:
        ctx.witness('error-column-inside-line', {'text': text, 'start': start}, f'1..{len(err["line"]) + 1}', err, what=what)
        ok = False
    else:
        ok = caret_ok(ctx, err, {'text': text, 'start': start}) and ok
        ok = expr_column_ok(ctx, parser, err, {'text': text, 'start': start}, what) and ok
    return ok


def caret_ok(ctx, err, inp):
    """The caret of the formatted message sits under line[col-1] (or just past the end)."""
    lines = err['message'].split('\n')
    # message = [prefix?] 'error, line number N:' / displayed line / caret line / ''
    if len(lines) < 3:
        ctx.witness('message-shape', inp, '>= 3 lines', err)
        return False
    shown, caret = lines[-3], lines[-2]
    pos = len(caret) - 1
    if caret.strip() != '^' or caret[:pos].strip() != '':
        ctx.witness('caret-line-shape', inp, 'spaces then ^', err)
        return False
    want = err['line'][err['column'] - 1] if err['column'] <= len(err['line']) else None
    got = shown[pos] if pos < len(shown) else None
    if len(err['line']) > 120 and want is None:
        # past-the-end column in an elided line: the caret must be just past the shown text (before any ' ...' suffix there is none)
        if not (got is None or shown.endswith(err['line'][-10:])):
            ctx.witness('caret-under-same-char', inp, {'char': want}, {'char': got, 'shown': shown, 'caret_pos': pos})
            return False
        if got is not None:
            ctx.witness('caret-under-same-char', inp, {'char': want}, {'char': got, 'shown': shown, 'caret_pos': pos})
            return False
        return True
    if want != got:
        ctx.witness('caret-under-same-char', inp, {'char': want}, {'char': got, 'shown': shown, 'caret_pos': pos})
        return False
    return True


def load_corpus():
    path = os.path.join(fw.VERIF, 'harness', 'corpus', 'C06.jsonl')
    out = []
    if os.path.exists(path):
        with open(path, encoding='utf-8') as fh:
            for raw in fh:
                raw = raw.strip()
                if raw and not raw.startswith('//'):
                    out.append(json.loads(raw)['text'])
    return out


def line_without_effect(parser, text, model, only=None):
    """Index of a (single physical) logical line whose deletion leaves the parsed model unchanged, else None."""
    phys = re.split(r'\r?\n', text)
    ll = logical_lines(text)
    if ll is None or len(ll) > 60:
        return None
    base = json.dumps(model, sort_keys=True)
    for pix, line in ll:
        if phys[pix] != line or (only is not None and pix != only):
            continue
        what, res = parse_outcome(parser, '\n'.join(phys[:pix] + phys[pix + 1:]))
        if what == 'ok' and json.dumps(res, sort_keys=True) == base:
            return pix
    return None


def gen_texts(ctx):
    """(kind, text) cases: corpus, token soup, mutated valid programs, deleted closers, dangling continuation, lone backslash,
    long lines, deep nesting."""
    rng = ctx.rng('texts')
    for text in load_corpus():
        yield 'corpus', text
    n = ctx.scale(300, 6000)
    for _ in range(n):
        lines = []
        for _ in range(rng.randint(1, 6)):
            lines.append(' '.join(rng.choice(TOKENS) for _ in range(rng.randint(1, 8))))
        yield 'soup', '\n'.join(lines)
    for _ in range(n):
        gen = progen.Gen(rng, max_depth=rng.choice([2, 3, 4]))
        lines = progen.render(gen.program())
        kind = rng.choice(['delete-token', 'insert-token', 'swap-token', 'delete-closer', 'dangling', 'valid', 'delete-line', 'dup-line'])
        ix = rng.randrange(len(lines))
        toks = lines[ix].split(' ')
        if kind == 'delete-token' and toks:
            del toks[rng.randrange(len(toks))]
            lines[ix] = ' '.join(toks)
        elif kind == 'insert-token':
            toks.insert(rng.randrange(len(toks) + 1), rng.choice(TOKENS))
            lines[ix] = ' '.join(toks)
        elif kind == 'swap-token' and len(toks) > 1:
            i = rng.randrange(len(toks) - 1)
            toks[i], toks[i + 1] = toks[i + 1], toks[i]
            lines[ix] = ' '.join(toks)
        elif kind == 'delete-closer':
            closers = [i for i, ln in enumerate(lines) if ln.strip() in CLOSERS]
            if closers:
                del lines[rng.choice(closers)]
        elif kind == 'dangling':
            lines[-1] = lines[-1] + ' \\' + rng.choice(['', ' ', '\t'])
        elif kind == 'delete-line':
            del lines[ix]
        elif kind == 'dup-line':
            lines.insert(ix, lines[ix])
        yield kind, '\n'.join(lines)
    # long lines with the fault at every column (elision of the message line)
    for length in ctx.scale([0, 1, 60, 119, 120, 121, 122, 180, 181, 241, 400], list(range(0, 130, 7)) + list(range(118, 126)) + [180, 181, 239, 240, 241, 300, 400]):
        step = ctx.scale(17, 3)
        for col in range(0, length + 1, step):
            pad_l, pad_r = col, max(0, length - col - 1)
            expr = ' + '.join(['a'] * 1)
            yield 'long', 'x = ' + 'b' * pad_l + ' ' + expr + ' ) ' + 'c' * pad_r
            yield 'long', 'if ' + 'b' * pad_l + ' ( :' if pad_r == 0 else 'if ' + 'b' * pad_l + ' ) ' + 'c' * pad_r + ':'
    # deep nesting
    for depth in ctx.scale([1, 10, 50], [1, 2, 5, 10, 25, 50]):
        opens = ['if a:'] * depth
        yield 'deep', '\n'.join(opens + ['x = 1'] + ['endif'] * (depth - 1))
        yield 'deep', '\n'.join(opens + ['x = 1'] + ['endif'] * depth)
        yield 'deep', 'x = ' + '(' * depth + '1' + ')' * (depth - 1)
    # the last logical line is a lone backslash (an empty continued line): must be 'Unterminated line continuation'
    for _ in range(ctx.scale(20, 200)):
        head = [rng.choice(['a = 1', 'fn(a)', 'if a:', 'endif', '# c', '', 'b = a + \\', 'lbl:']) for _ in range(rng.randint(0, 3))]
        lone = ''.join(rng.choice(' \t') for _ in range(rng.randint(0, 3))) + '\\' + ''.join(rng.choice(' \t') for _ in range(rng.randint(0, 3)))
        tail = [rng.choice(['', '# c', '   ', '\t#\\']) for _ in range(rng.randint(0, 3))]
        yield 'lone-backslash', '\n'.join(head + [lone] + tail)
    # backslash runs
    for k in range(1, ctx.scale(4, 9)):
        yield 'backslash', 'a = 1 + ' + '\\' * k + '\n  2'
        yield 'backslash', 'a = 1 + ' + '\\' * k


def streams(ctx):
    parser = fw.impl()['parser']
    rng = ctx.rng('meta')
    st = ctx.stream('texts', 'hand-picked corpus (every error source, every statement kind with an expression), token soup, single-token '
                             'mutations of generated programs, deleted closing keywords, dangling continuation, lone backslash as last line, '
                             'long lines with the fault at every column, nesting to 50, backslash runs; non-trivial = a parser error or '
                             'a model with >= 3 statements')
    cases = list(gen_texts(ctx))
    # correspondence with the Lean parser model (when the driver is built)
    resps = None
    if ctx.driver is not None:
        resps = ctx.driver.batch([{'op': 'parse', 'chunks': [text], 'start': 1} for _, text in cases])
    for ix, (kind, text) in enumerate(cases):
        what, res = parse_outcome(parser, text)
        tags = [kind, what + (':' + res['error'] if what == 'err' else '')]
        st.case(text, nontrivial=(what == 'err' or (what == 'ok' and len(res['statements']) >= 3)), tags=tags)
        if what == 'host':
            ctx.witness('only-parser-error-escapes', {'text': text}, 'BareScriptParserError or a model', res)
            continue
        if what == 'err':
            check_error(ctx, parser, text, res, 1, kind)
            position_metamorphic(ctx, parser, text, res, 1, kind, rng)
        else:
            # no open block / dangling continuation accepted, no logical line silently dropped
            ll = logical_lines(text)
            if ll is None:
                ctx.witness('dangling-continuation-rejected', {'text': text}, 'parser error', 'accepted')
            else:
                depth = 0
                for _, line in ll:
                    s = line.strip()
                    # `while :` / `for :` / `function :` are LABELS named like the keyword (a block header needs an expression
                    # resp. a name and parentheses)
                    if re.match(r'^(if\s+\S.*:|while\s+\S.*:|for\s+\S.*:|(async\s*)?function\s+[A-Za-z_]\w*\s*\(.*\)\s*:)$', s) and \
                            not re.match(r'^\w+\s*=', s):
                        depth += 1
                    elif s in CLOSERS:
                        depth -= 1
                if depth != 0:
                    ctx.witness('open-block-rejected', {'text': text}, 'parser error (unbalanced blocks)', 'accepted')
        # correspondence
        if resps is not None:
            model = resps[ix]
            if what == 'ok':
                impl = {'ok': progen.canon_script(res, with_fid=False)}
                model = {'ok': progen.round_script_numbers(model.get('ok'))} if 'ok' in model else model
            else:
                impl = {'error': res['error'], 'line': res['line'], 'column': res['column'], 'lineNumber': res['lineNumber']}
            ctx.compare('parse', text, impl, model)
        # metamorphic: prepending k harmless lines shifts the line number by k and changes nothing else
        if ix % 3 == 0:
            k = rng.randint(1, 4)
            pre = [rng.choice(['', '# c', '   ', 'zz = 1', "systemLog('m')", '#'])for _ in range(k)]
            what2, res2 = parse_outcome(parser, '\n'.join(pre + [text]))
            if what == 'err' and res['lineNumber'] is None:
                pass        # already reported by error-has-line-number
            elif what == 'err':
                want = dict(res, lineNumber=res['lineNumber'] + k)
                want.pop('message')
                got = dict(res2) if what2 == 'err' else {'accepted': True}
                got.pop('message', None)
                if got != want:
                    ctx.witness('prepend-shifts-line-number', {'text': text, 'prefix': pre}, want, got)
            elif what2 != 'ok':
                ctx.witness('prepend-keeps-acceptance', {'text': text, 'prefix': pre}, 'accepted', res2)
            # start_line_number offsets the reported number
            if what == 'err' and res['lineNumber'] is not None:
                start = rng.randint(2, 50)
                what3, res3 = parse_outcome(parser, text, start)
                if what3 != 'err' or res3['lineNumber'] != res['lineNumber'] + start - 1 or res3['column'] != res['column']:
                    ctx.witness('start-line-offsets', {'text': text, 'start': start}, res['lineNumber'] + start - 1, res3)
        # metamorphic: every logical line of an accepted text has an effect - deleting it gives an error or a different model
        if what == 'ok' and ix % 2 == 0:
            bad = line_without_effect(parser, text, res)
            if bad is not None:
                ctx.witness('every-line-has-an-effect', {'text': text, 'line': bad}, 'deleting the line is an error or changes the model',
                            'same model')
        # metamorphic: a marker statement inserted between two logical lines of a VALID program is never dropped
        if what == 'ok' and kind == 'valid' and ix % 2 == 0:
            lines = text.split('\n')
            pos = rng.randrange(len(lines) + 1)
            marked = lines[:pos] + ["systemLog('@@marker@@')"] + lines[pos:]
            what4, res4 = parse_outcome(parser, '\n'.join(marked))
            if what4 != 'ok' or '@@marker@@' not in repr(res4):
                ctx.witness('no-line-dropped', {'text': '\n'.join(marked)}, 'marker statement present in the model', res4 if what4 != 'ok' else 'dropped')


def search(ctx):
    pass


def replay(witness):
    parser = fw.impl()['parser']
    inp = witness['input']
    what, res = parse_outcome(parser, inp['text'], inp.get('start', 1))
    probe = fw.Ctx('C06', 'quick', 0)
    if what == 'host':
        return True
    if witness['oracle'] in ('trailing-blanks-keep-column', 'indent-shifts-column'):
        if what != 'err':
            return False
        for seed in range(8):
            position_metamorphic(probe, parser, inp['text'], res, inp.get('start', 1), 'replay', random.Random(seed))
        return any(w.get('oracle') == witness['oracle'] for w in probe.witnesses)
    if witness['oracle'] == 'every-line-has-an-effect':
        return what == 'ok' and line_without_effect(parser, inp['text'], res, only=inp.get('line')) is not None
    if what == 'err':
        check_error(probe, parser, inp['text'], res, inp.get('start', 1), 'replay')
    else:
        ll = logical_lines(inp['text'])
        if ll is None:
            return True
    return bool(probe.witnesses) or witness['oracle'] in ('prepend-shifts-line-number', 'no-line-dropped', 'open-block-rejected')
