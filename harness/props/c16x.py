"""C16 extension streams: ISO date / datetime TEXT at character level (BareModel/IsoText.lean: a small regex AST whose rendering is pinned
to value._R_DATE / _R_DATETIME, decidable language predicates, recogniser, field validation, formatter; theorems in BareProofs/C16Text.lean,
main: isoText_roundtrip, isoText_reject, isoText_parse_iff, iso_regex_sources_pinned) run by `drv_c16x` against the real value_parse_datetime /
value_string.  Imported by harness/props/C16.py.  Zones here are FIXED-OFFSET process zones set with TZ=XXX<sign>hh:mm + time.tzset() and restored
afterwards (DST zones are the business of the dt-iso stream and its per-zone worker).
"""

import contextlib
import datetime
import os
import time

import fw

THEOREMS = [
    'C16Text.rests_spec', 'C16Text.fullMatch_iff', 'C16Text.iso_regex_sources_pinned', 'C16Text.isoText_lang', 'C16Text.isoDate_lang',
    'C16Text.iso_langs_disjoint', 'C16Text.isoText_roundtrip', 'C16Text.isoText_roundtrip_chars', 'C16Text.formatText_injective',
    'C16Text.isoText_format_in_lang', 'C16Text.isoText_reparse', 'C16Text.isoText_reject', 'C16Text.isoText_accept', 'C16Text.isoText_parse_iff',
    'C16Text.validate_some_iff', 'C16Text.isoText_fraction_truncates', 'C16Text.isoText_date_form', 'C16Text.isoDate_reject', 'C16Text.formatDate_eq',
    'C16Text.iso_date_text_roundtrip', 'C16Text.scanDateTime_eq', 'C16Text.isoParse_factors', 'C16Text.isoFormat_factors', 'C16Text.toZone_roundtrip',
    'C16Text.iso_text_roundtrip_partial', 'C16Text.iso_text_to_text_partial', 'C16Text.iso_text_canonicalises_partial',
]
LEAN_TARGETS = ['BareProofs.C16Text']
EXTRA_TARGETS = ['drv_c16x']


def V():
    return fw.impl()['value']


@contextlib.contextmanager
def restore_zone():
    old = os.environ.get('TZ')
    try:
        yield
    finally:
        if old is None:
            os.environ.pop('TZ', None)
        else:
            os.environ['TZ'] = old
        time.tzset()


def set_tz(off_min):
    """fixed-offset process zone: POSIX TZ, sign reversed; |off| <= 1439"""
    a = abs(off_min)
    os.environ['TZ'] = 'XXX%s%02d:%02d' % ('-' if off_min >= 0 else '+', a // 60, a % 60)
    time.tzset()


def py_parse(text):
    """what the real code does up to (not including) .astimezone(): the two patterns, the constructor / fromisoformat"""
    val = V()
    rd = val._R_DATE.match(text)            # pylint: disable=protected-access
    rdt = val._R_DATETIME.match(text)       # pylint: disable=protected-access
    date = fields = raw = None
    if rd:
        y, mo, d = int(rd.group('year')), int(rd.group('month')), int(rd.group('day'))
        try:
            datetime.datetime(y, mo, d)
            date = [y, mo, d]
        except ValueError:
            pass
    if rdt:
        tail = text[19:]
        frac = ''
        if tail.startswith('.'):
            frac = tail[1:].split('Z')[0].split('+')[0].split('-')[0]
            tail = tail[1 + len(frac):]
        off = 0 if tail == 'Z' else (-1 if tail[0] == '-' else 1) * (int(tail[1:3]) * 60 + int(tail[4:6]))
        raw = [int(text[0:4]), int(text[5:7]), int(text[8:10]), int(text[11:13]), int(text[14:16]), int(text[17:19]),
               int((frac + '000000')[:6]) if frac else 0, off]
        try:
            a = datetime.datetime.fromisoformat(val._R_DATETIME_ZULU.sub('+00:00', text))      # pylint: disable=protected-access
            o = a.utcoffset()
            fields = [a.year, a.month, a.day, a.hour, a.minute, a.second, a.microsecond // 1000, (o.days * 86400 + o.seconds) // 60]
        except ValueError:
            pass
    return {'re_date': rd is not None, 're_datetime': rdt is not None, 'raw': raw, 'fields': fields, 'date': date}


def dt7(r):
    return None if r is None else [r.year, r.month, r.day, r.hour, r.minute, r.second, r.microsecond // 1000]


def parse_dt(text):
    try:
        return dt7(V().value_parse_datetime(text))
    except Exception as exc:  # pylint: disable=broad-except
        return 'exc:' + type(exc).__name__


HOSTILE = ['2024-01-01T00:00:00.1234567+05:30','2024-01-01T00:00:00.123456+05:30','2024-01-01T00:00:00.1+05:30','2024-01-01T00:00:00.12Z','2024-01-01T00:00:00Z','2024-01-01T00:00:00z','2024-01-01t00:00:00Z',
'2024-01-01T00:00Z','12024-01-01T00:00:00Z','0999-01-01T00:00:00Z','0999-01-01','0000-01-01','0000-01-01T00:00:00Z','２０２４-01-01','2024-01-0١T00:00:00Z','2024-01-01\n','2024-01-01T00:00:00Z\n',
'2024-01-01T00:00:00+24:00','2024-01-01T00:00:00-00:00','2024-01-01T00:00:00+23:59','2024-01-01T00:00:00-23:59','2024-01-01T00:00:00+00:60','2024-01-01T00:00:00+99:00','2024-01-01T24:00:00Z','2024-01-01T23:60:00Z','2024-01-01T23:59:60Z',
'2024-02-30','2024-02-29','2023-02-29T00:00:00Z','2024-13-01','2024-00-01','2024-01-00',' 2024-01-01','2024-01-01 ','2024-01-01T00:00:00.Z','2024-01-01T00:00:00,5Z','2024-01-01T00:00:00+0530','2024-01-01T00:00:00+05','2024-01-01T00:00:00',
'2024-01-01T00:00:00.999999Z','0001-01-01T00:00:00+05:30','9999-12-31T23:59:59-01:00','9999-12-31T23:59:59Z','0001-01-02T00:00:00Z','2024-01-01T00:00:00+05:30:00','2024-1-1','','2024-01-01T00:00:00−05:30','2024-01-01T00:00:00.000+05:30','2024-01-01T00:00:00.5+05:30x', '2024-01-01T00:00:00Z\x00',
'2024-01-01T00:00:00.000000Z','2024-01-01T00:00:00.0009Z','2024-01-01T00:00:00.001999+05:30','2024-01-01T00:00:00ZZ','2024-01-01T00:00:00+5:30','2024-01-01T00:00:00 +05:30','2024-01-01T00:00:00.1234+05:3０','\n2024-01-01','2024-01-01T00:00:00+05:3','2024-01-01T00:00:00.12345６Z',
'2024-01-01T00:00:00+05:59','2024-01-01T00:00:00+05:5a','2024-01-01T00:00:00.1.2Z','2024-01-01T00:00:00..1Z','2024-01-01T00:00:00.-1Z','2100-02-29','2000-02-29','1900-02-29','2024-04-31T00:00:00Z','2024-01-01T00:00:00±05:30','2024-01-01T00:00:00.1234٣Z','२०२४-०१-०१']


def gen_texts(rng, n):
    def dg(k): return ''.join(rng.choice('0123456789') for _ in range(k))
    def pick(good, bad, p=0.9): return good() if rng.random() < p else rng.choice(bad)
    def mutate(t):
        r = rng.random()
        if r < 0.75 or not t: return t
        i = rng.randrange(len(t)); junk = '0:-+.TZtz \n٣５x'
        if r < 0.82: return t[:i] + t[i + 1:]
        if r < 0.88: return t[:i] + rng.choice(junk) + t[i:]
        if r < 0.95: return t[:i] + rng.choice(junk) + t[i + 1:]
        return t + rng.choice(['\n', ' ', 'Z', '0', '\r'])
    out = []
    for _ in range(n):
        y = pick(lambda: '%04d' % rng.choice([rng.randint(1, 9999), rng.randint(1, 999), 2024, 1, 9999]), ['0000'], 0.97)
        mo = pick(lambda: '%02d' % rng.randint(1, 12), ['00', '13', '99'], 0.95)
        d = pick(lambda: '%02d' % rng.randint(1, 28), ['29', '30', '31', '00', '32'], 0.85)
        if rng.random() < 0.2: out.append(mutate(f'{y}-{mo}-{d}')); continue
        h = pick(lambda: '%02d' % rng.randint(0, 23), ['24', '99'], 0.95)
        mi = pick(lambda: '%02d' % rng.randint(0, 59), ['60'], 0.95)
        s = pick(lambda: '%02d' % rng.randint(0, 59), ['60'], 0.95)
        fr = rng.choice(['', '', '.' + dg(rng.randint(1, 6)), '.' + dg(3), '.' + dg(rng.randint(0, 8))])
        z = rng.choice(['Z', '+00:00', '-00:00', '%s%02d:%02d' % (rng.choice('+-'), rng.randint(0, 23), rng.randint(0, 59)),
                        '%s%02d:%02d' % (rng.choice('+-'), rng.randint(0, 23), rng.randint(0, 59)),
                        '%s%02d:%02d' % (rng.choice('+-'), rng.randint(0, 30), rng.randint(0, 70))])
        out.append(mutate(f'{y}-{mo}-{d}T{h}:{mi}:{s}{fr}{z}'))
    return out



def streams(ctx):
    drv = fw.Driver('drv_c16x')
    with restore_zone():
        _streams(ctx, drv)
    ctx.driver.requests += drv.requests


def _streams(ctx, drv):
    rng = ctx.rng('isotext')
    val = V()
    texts = HOSTILE + gen_texts(rng, ctx.scale(1200, 20000))
    st = ctx.stream('isotext-parse', 'IsoText recogniser (drv_c16x isotext_parse), zone-free: both anchored patterns as decidable language predicates, the '
                                     'positional raw record, the validated field record and the date form, on hostile and generated/mutated ISO-like texts, '
                                     'against _R_DATE / _R_DATETIME / datetime() / fromisoformat of the working tree; non-trivial = one of the patterns matches')
    for t, r in zip(texts, drv.batch([{'op': 'isotext_parse', 'text': t} for t in texts])):
        try:
            e = py_parse(t)
        except Exception as exc:  # pylint: disable=broad-except
            e = 'exc:' + type(exc).__name__
        st.case(t, nontrivial=isinstance(e, dict) and (e['re_date'] or e['re_datetime']),
                tags=['accepted' if isinstance(e, dict) and (e['fields'] or e['date']) else 'rejected'])
        ctx.compare('isotext-parse', {'text': t}, e, r)
    st2 = ctx.stream('isotext-zone', 'value_parse_datetime itself under fixed-offset process zones (8 offsets incl. +05:30, +05:45, -03:30, +-23:59) against the '
                                     'existing mirror isoParse AND its factored form parseChars ; toZone (drv_c16x isotext_zone); non-trivial = accepted text')
    zone_texts = texts if not ctx.quick else HOSTILE + texts[len(HOSTILE):len(HOSTILE) + 400]
    for off in [0, 330, -300, 345, -210, 1439, -1439, 765]:
        set_tz(off)
        for t, r in zip(zone_texts, drv.batch([{'op': 'isotext_zone', 'text': t, 'off': off * 60} for t in zone_texts])):
            e = parse_dt(t)
            st2.case([off, t], nontrivial=e is not None, tags=[f'off:{off}'])
            ctx.compare('isotext-zone', {'text': t, 'offset_min': off}, [e, e], [r['dt'], r['factored']])
    st3 = ctx.stream('isotext-format', 'value_string / date.isoformat under 14 fixed-offset process zones against the character-level formatter (drv_c16x '
                                       'isotext_format) + the property itself on the implementation: parse(format f) = f to the millisecond, date form likewise; '
                                       'non-trivial = millisecond or sub-millisecond part non-zero')
    for off in [0, 330, -300, 345, -210, 1439, -1439, 765, -1, 1, 60, -60, 599, -601]:
        set_tz(off)
        cases = []
        for _ in range(ctx.scale(60, 1000)):
            y = rng.choice([rng.randint(2, 9998), rng.randint(2, 999), rng.randint(1000, 3000)])
            f = [y, rng.randint(1, 12), rng.randint(1, 28), rng.randint(0, 23), rng.randint(0, 59), rng.randint(0, 59),
                 rng.choice([0, 0, rng.randint(0, 999), 1, 10, 100, 999]), off]
            cases.append((f, rng.choice([0, 0, 0, 1, 999, rng.randint(0, 999)])))
        for (f, sub), r in zip(cases, drv.batch([{'op': 'isotext_format', 'fields': f, 'sub': sub} for f, sub in cases])):
            try:
                e = val.value_string(datetime.datetime(f[0], f[1], f[2], f[3], f[4], f[5], f[6] * 1000 + sub))
            except Exception as exc:  # pylint: disable=broad-except
                e = 'exc:' + type(exc).__name__
            ed = datetime.date(f[0], f[1], f[2]).isoformat()
            st3.case([f, sub], nontrivial=f[6] != 0 or sub != 0, tags=[f'off:{off}'])
            ctx.compare('isotext-format', {'fields': f, 'sub': sub}, {'text': e, 'date': ed, 'back': f}, r)
            if parse_dt(e) != f[:7]:
                ctx.witness('isotext-roundtrip', {'fields': f, 'sub': sub, 'offset_min': off, 'text': e}, f[:7], parse_dt(e))
            if parse_dt(ed) != f[:3] + [0, 0, 0, 0]:
                ctx.witness('isotext-date-roundtrip', {'fields': f, 'offset_min': off, 'text': ed}, f[:3] + [0, 0, 0, 0], parse_dt(ed))
    r = drv.batch([{'op': 'isotext_source'}])[0]
    ctx.compare('isotext-parse', {'what': 'rendered pattern sources and flags'},
                {'date': val._R_DATE.pattern, 'datetime': val._R_DATETIME.pattern, 'flags': [val._R_DATE.flags, val._R_DATETIME.flags]},   # pylint: disable=protected-access
                dict(r, flags=[256, 256]))


def replay(witness):
    inp = witness['input']
    if witness['oracle'] not in ('isotext-roundtrip', 'isotext-date-roundtrip'):
        return None
    with restore_zone():
        set_tz(inp['offset_min'])
        f = inp['fields']
        if witness['oracle'] == 'isotext-roundtrip':
            e = V().value_string(datetime.datetime(f[0], f[1], f[2], f[3], f[4], f[5], f[6] * 1000 + inp['sub']))
            return parse_dt(e) != f[:7]
        return parse_dt(datetime.date(f[0], f[1], f[2]).isoformat()) != f[:3] + [0, 0, 0, 0]
