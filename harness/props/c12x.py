"""C12 extension streams: the host-level model LibH2 (21 more library functions, the operators unary - + - / %, the lowered for
loop; theorems in BareProofs/C12More.lean) run by `drv_c12x` against the real implementation - every case in the int, the float and a
mixed spelling.  Imported by harness/props/C12.py.

Wire format (Drv/C12X.lean): null | bool | {"i":n} host int | {"f":[num,den]} host float | {"s":..} | {"a":[..]} | {"o":[[k,v],..]} |
{"k":[kind,id]} (datetime: id = ms since 0001-01-01 local time; function).  Abstracted numbers come back as {"q":[num,den]}; abstract
host texts as tags inside strings (float text, fixed text, number clean-up, opaque text, value_json) that are expanded here with the
REAL value_string / value_json / R_NUMBER_CLEANUP of the working tree, so text production itself stays with C13/C14.
-0.0 is kept out of the stream (known observation in C12's LEVEL_NOTE: it prints "-0", the model has one zero).
"""

import copy
import datetime
import json
import re
from fractions import Fraction

import fw

EPOCH = datetime.datetime(1, 1, 1)
THEOREMS = [
    'C12More.libH2_refines_lib', 'C12More.libH2_refines_lib_exact', 'C12More.spelling_irrelevant2', 'C12More.spelling_irrelevant2_exact',
    'C12More.body2_refines', 'C12More.cmp_abs', 'C12More.datetimeNew_int_tuple',
    'C12More.opNeg_refines', 'C12More.opAdd_refines', 'C12More.opSub_refines', 'C12More.opDiv_refines', 'C12More.opMod_refines',
    'C12More.forLoop_visits', 'C12More.forLoop_spelling_irrelevant', 'C12More.forLoop_refines_partial',
    'C12More.jsonStringifyNoInt_not_refines', 'C12More.datetimeNewNoInt_not_refines', 'C12More.opAdd_unbounded_not_refines',
    'C12More.sane_E0', 'C12More.getTable', 'C12More.lenTable',
]
LEAN_TARGETS = ['BareProofs.C12More']
EXTRA_TARGETS = ['drv_c12x']


def enc(v):
    if v is None or isinstance(v, bool):
        return v
    if isinstance(v, int):
        return {'i': v}
    if isinstance(v, float):
        f = Fraction(v)
        return {'f': [f.numerator, f.denominator]}
    if isinstance(v, str):
        return {'s': v}
    if isinstance(v, list):
        return {'a': [enc(x) for x in v]}
    if isinstance(v, dict):
        return {'o': [[k, enc(x)] for k, x in v.items()]}
    if isinstance(v, datetime.datetime):
        return {'k': ['datetime', (v - EPOCH) // datetime.timedelta(milliseconds=1)]}
    if callable(v):
        return {'k': ['function', 0]}
    raise TypeError(v)


def canon(v):
    """implementation value -> comparable, JSON-able form (numbers by value)"""
    if v is None or isinstance(v, (bool, str)):
        return v
    if isinstance(v, (int, float)):
        f = Fraction(v)
        return ['q', f.numerator, f.denominator]
    if isinstance(v, list):
        return [canon(x) for x in v]
    if isinstance(v, dict):
        return {'obj': [[k, canon(x)] for k, x in sorted(v.items())]}
    if isinstance(v, datetime.datetime):
        return ['k', 'datetime', (v - EPOCH) // datetime.timedelta(milliseconds=1)]
    if callable(v):
        return ['k', 'function', 0]
    raise TypeError(v)


def dec_py(j):
    """response value -> python value (numbers as floats) for tag expansion"""
    if j is None or isinstance(j, bool):
        return j
    (k, x), = j.items()
    if k == 'q':
        return float(Fraction(x[0], x[1]))
    if k == 's':
        return x
    if k == 'a':
        return [dec_py(y) for y in x]
    if k == 'o':
        return {kk: dec_py(y) for kk, y in x}
    if k == 'k':
        return EPOCH + datetime.timedelta(milliseconds=x[1]) if x[0] == 'datetime' else (lambda a, o: None)
    raise ValueError(j)


R_F = re.compile(r'⟦F:(-?\d+)/(\d+)⟧')
R_X = re.compile(r'⟦X:(-?\d+)/(\d+):(-?\d+)⟧')
R_O = re.compile(r'⟦O:(\w+):(-?\d+)⟧')
R_C = re.compile(r'⟦C:(.*?)⟧', re.S)
R_J = re.compile(r'⟦J:(null|-?\d+):(.*?)⟧', re.S)


def expand(s):
    val = fw.impl()['value']
    s = R_J.sub(lambda m: val.value_json(dec_py(json.loads(m[2])), None if m[1] == 'null' else int(m[1])), s)
    s = R_F.sub(lambda m: val.value_string(float(Fraction(int(m[1]), int(m[2])))), s)
    s = R_X.sub(lambda m: f'{float(Fraction(int(m[1]), int(m[2]))):.{int(m[3])}f}', s)
    s = R_O.sub(lambda m: val.value_string(EPOCH + datetime.timedelta(milliseconds=int(m[2]))) if m[1] == 'datetime' else f'<{m[1]}>', s)
    s = R_C.sub(lambda m: val.R_NUMBER_CLEANUP.sub('', m[1]), s)
    return s


def dec(j):
    """response value -> comparable form"""
    if j is None or isinstance(j, bool):
        return j
    (k, x), = j.items()
    if k == 'q':
        f = Fraction(float(Fraction(x[0], x[1])))     # rnd = id in the driver: round once here
        return ['q', f.numerator, f.denominator]
    if k == 's':
        return expand(x)
    if k == 'a':
        return [dec(y) for y in x]
    if k == 'o':
        return {'obj': [[kk, dec(y)] for kk, y in sorted(x)]}
    if k == 'k':
        return ['k', x[0], x[1]]
    raise ValueError(j)


def spell(v, mode, rng=None):
    """respell every integral number: mode 'i' int, 'f' float, 'm' mixed at random"""
    if isinstance(v, bool) or v is None or isinstance(v, str):
        return v
    if isinstance(v, (int, float)):
        if float(v) != int(v):
            return v
        m = mode if mode != 'm' else rng.choice('if')
        return int(v) if m == 'i' else float(v)
    if isinstance(v, list):
        return [spell(x, mode, rng) for x in v]
    if isinstance(v, dict):
        return {k: spell(x, mode, rng) for k, x in v.items()}
    return v


def impl_call(name, args):
    lib = fw.impl()['library']
    val = fw.impl()['value']
    args = copy.deepcopy(args)
    keep = list(args)           # the argument objects (value_args_validate mutates the list, not the objects)
    try:
        r = lib.SCRIPT_FUNCTIONS[name](args, None)
    except val.ValueArgsError as e:
        r = e.return_value
    except Exception:           # pylint: disable=broad-except  # the call wrapper of runtime.py: null
        r = None
    return canon(r), [canon(a) for a in keep]


N = [0, 1, 2, 3, -1, -2, 7, 10, 12, 100, 1.5, -2.5, 0.25, 2.75, 1000000, 999999999999999]
V = [None, True, False, 'a', 'b', '', 0, 1, 2, -1, 1.5, [1, 2], [1, 2.5, 'x'], [], {'a': 1}, {'b': 2, 'a': [1, 2]}, [[1], [2, 3]],
     datetime.datetime(2020, 1, 2, 3, 4, 5, 6000)]
F = [0, 1, -1, 2, 12, 13, 24, 25, 28, 29, 31, 32, 59, 60, 61, 100, 365, 366, 999, 1000, 1001, -60, -1000, 5000, -5000, 86400, 1.5]


def call_cases(ctx, rng):
    out = []

    def add(name, *args):
        out.append((name, list(args)))
    fixed = []

    def addf(name, *args):
        fixed.append((name, list(args)))
    for v in V:
        for fn in ('arrayCopy', 'arrayLength', 'arrayPop', 'arrayShift', 'stringLength', 'stringNew', 'jsonStringify', 'mathAbs', 'mathCeil',
                   'mathFloor', 'mathSign'):
            addf(fn, v)
        addf('jsonStringify', v, 2)
        addf('jsonStringify', v, 4)
        addf('jsonStringify', v, None)
        addf('arrayJoin', v, ', ')
        addf('arrayJoin', V, v)
    addf('arrayCopy'); addf('arrayCopy', [1], 2); addf('arrayNew'); addf('arrayNew', 1, [2], 'x'); addf('arrayPush', [1]); addf('mathMax'); addf('mathMin')
    addf('arrayJoin', N, ','); addf('arrayJoin', V, ''); addf('stringLength', 'héllo'); addf('stringLength', 'a', 'b')
    addf('jsonStringify', {'a': 1}, 0); addf('jsonStringify', {'a': 1}, 1.5); addf('jsonStringify', {'a': 1}, -1); addf('jsonStringify', [1, [2, {'x': 3}]], 3)
    addf('jsonStringify', {'a': 1}, 'x'); addf('jsonStringify')
    addf('datetimeNew', 2020, 1, 1); addf('datetimeNew', 2020, 1); addf('datetimeNew', 99, 1, 1); addf('datetimeNew', 2020, 1, 10001)
    addf('datetimeNew', 9999, 12, 31, 23, 59, 59, 999); addf('datetimeNew', 9999, 12, 31, 24); addf('datetimeNew', 100, 1, 0); addf('datetimeNew', 2020, 'x', 1)
    addf('datetimeNew', 2020, 1, 1, 0, 0, 0, 0, 0)
    for x in N:
        for fn in ('stringNew', 'mathAbs', 'mathCeil', 'mathFloor', 'mathSign', 'mathRound', 'numberToFixed'):
            addf(fn, x)
    # sampled families (sizes by tier)
    pairs = [(v, w) for v in V for w in V]
    for v, w in rng.sample(pairs, ctx.scale(60, len(pairs))):
        add('arrayExtend', v, w); add('systemCompare', v, w); add('arrayPush', v, w); add('arrayPush', v, w, 1)
        add('mathMax', v, w); add('mathMin', v, w, 1)
    digs = [0, 1, 2, 3, 5, 1.5, -1, 22, 15]
    xd = [(x, d) for x in N for d in digs]
    for x, d in rng.sample(xd, ctx.scale(50, len(xd))):
        add('mathRound', x, d); add('numberToFixed', x, d); add('numberToFixed', x, d, True); add('numberToFixed', x, d, 0)
    xy = [(x, y) for x in N for y in N]
    for x, y in rng.sample(xy, ctx.scale(50, len(xy))):
        add('mathMax', x, y); add('mathMin', x, y); add('systemCompare', x, y); add('mathMax', [x], [y], x)
    for _ in range(ctx.scale(60, 600)):
        add('mathMax', *[rng.choice(N + V) for _ in range(rng.randint(0, 5))])
        add('mathMin', *[rng.choice(N + V) for _ in range(rng.randint(0, 5))])
        add('systemCompare', rng.choice(V), rng.choice(V))
    for _ in range(ctx.scale(150, 1500)):
        add('datetimeNew', rng.choice([100, 1900, 2000, 2020, 2023, 2024, 9999, 400]), rng.choice(F), rng.choice(F),
            *[rng.choice(F) for _ in range(rng.randint(0, 4))])
    return fixed + out


def stream_calls(ctx, drv):
    rng = ctx.rng('h2-calls')
    st = ctx.stream('h2-calls', 'LibH2 (drv_c12x op h2_call): 21 library functions outside the LibH subset (arrayCopy/Extend/Length/New/Pop/Push/Shift, '
                                'stringLength/New, systemCompare, jsonStringify indent, mathAbs/Ceil/Floor/Sign/Max/Min/Round, numberToFixed, arrayJoin, '
                                'datetimeNew) called directly with every case in the int, the float and a mixed spelling; host-level body AND abstract body '
                                'compared with the real function on result and post-call arguments; the three spellings must also agree with each other on the '
                                'implementation (spelling oracle); non-trivial = the argument list contains an integral number')
    reqs, meta = [], []
    for name, args in call_cases(ctx, rng):
        for mode in 'ifm':
            a = spell(args, mode, rng)
            reqs.append({'op': 'h2_call', 'fn': name, 'args': [enc(x) for x in a]})
            meta.append((name, a, mode))
    resps = drv.batch(reqs)
    first = {}
    for (name, a, mode), r in zip(meta, resps):
        ir, ia = impl_call(name, a)
        case = {'fn': name, 'args': canon(a), 'spelling': mode}
        has_int = any(isinstance(x, (int, float)) and not isinstance(x, bool) and float(x) == int(x) for x in _flat(a))
        st.case([name, canon(a), mode], nontrivial=has_int, tags=['fn:' + name, 'spelling:' + mode])
        if 'unmodelled' in r:
            ctx.compare('h2-calls', case, 'modelled', r)
            continue
        for layer in ('host', 'abstract'):
            mr, ma = dec(r[layer]['result']), [dec(x) for x in r[layer]['args']]
            ctx.compare('h2-calls', dict(case, layer=layer), [ir, ia], [mr, ma])
        # the property's own oracle: the spelling is irrelevant (value-level comparison)
        key = (name, json.dumps(canon(spell(a, 'f')), sort_keys=True))
        if key in first:
            if first[key][0] != [ir, ia]:
                ctx.witness('h2-spelling', {'fn': name, 'args_a': repr(first[key][1]), 'args_b': repr(a)}, first[key][0], [ir, ia])
        else:
            first[key] = ([ir, ia], a)


def _flat(v):
    if isinstance(v, list):
        for x in v:
            yield from _flat(x)
    elif isinstance(v, dict):
        for x in v.values():
            yield from _flat(x)
    else:
        yield v


OPS_N = [0, 1, 2, 3, -1, -2, 7, 10, 12, 100, 1.5, -2.5, 0.25, 2.75, -7, 5, 1000000, 999999999999999, -999999999999999]


def stream_ops(ctx, drv):
    rng = ctx.rng('h2-ops')
    st = ctx.stream('h2-ops', 'LibH2 operators (drv_c12x op h2_op): unary -, + - / % on number nodes in int / float / mixed spelling, evaluated by the '
                              'real evaluate_expression; value equality with host-level and abstract model, host type of the result (int iff the model '
                              'says int); non-trivial = an operand is integral')
    rt = fw.impl()['runtime']
    reqs, meta = [], []
    for op, sym in [('neg', '-'), ('add', '+'), ('sub', '-'), ('div', '/'), ('mod', '%')]:
        combos = [(a, b) for a in OPS_N for b in (OPS_N if op != 'neg' else [0])]
        if ctx.quick and len(combos) > 120:
            combos = rng.sample(combos, 120)
        for a, b in combos:
            for mode in 'ifm':
                x, y = spell(a, mode, rng), spell(b, mode, rng)
                reqs.append({'op': 'h2_op', 'operator': op, 'a': enc(x), 'b': enc(y)})
                meta.append((op, sym, x, y))
    resps = drv.batch(reqs)

    def val(j):
        if j is None:
            return None
        (k, q), = j.items()
        return float(Fraction(q, 1)) if k == 'i' else float(Fraction(q[0], q[1]))
    for (op, sym, x, y), r in zip(meta, resps):
        if op == 'neg':
            expr = {'unary': {'op': '-', 'expr': {'number': x}}}
        else:
            expr = {'binary': {'op': sym, 'left': {'number': x}, 'right': {'number': y}}}
        try:
            iv = rt.evaluate_expression(expr)
        except Exception as exc:  # pylint: disable=broad-except
            iv = 'exc:' + type(exc).__name__
        h, a = r['host'], r['abstract']
        st.case([op, repr(x), repr(y)], nontrivial=float(x) == int(x) or float(y) == int(y), tags=['op:' + op])
        impl_view = None if iv is None else (iv if isinstance(iv, str) else [float(iv), isinstance(iv, int) if op != 'div' else None])
        model_view = None if h is None or a is None else [val(h) if val(h) == val(a) else ['host', val(h), 'abstract', val(a)], ('i' in h) if op != 'div' else None]
        ctx.compare('h2-ops', {'op': op, 'a': repr(x), 'b': repr(y)}, impl_view, model_view)


def stream_for(ctx, drv):
    st = ctx.stream('h2-for', 'LibH2 lowered for loop (drv_c12x op h2_for): the parsed loop with its 0/1 number nodes patched to int or float, executed by '
                              'the real execute_script; (index, value) pairs visited, host-level and abstract model; non-trivial = array with >= 2 elements')
    par = fw.impl()['parser']
    rt = fw.impl()['runtime']
    script = par.parse_script('for v, i in vals:\n  arrayPush(seen, arrayNew(i, v))\nendfor\n')
    reqs, meta = [], []
    vals_list = [[], [1], [1, 2.5, 'x'], ['a', None, [1], {'k': 2}], list(range(7)), None, 'abc', 5, {'a': 1}]
    for vals in vals_list:
        for z in (0, 0.0):
            for o in (1, 1.0):
                reqs.append({'op': 'h2_for', 'zero': enc(z), 'one': enc(o), 'values': enc(vals)})
                meta.append((vals, z, o))
    resps = drv.batch(reqs)
    for (vals, z, o), r in zip(meta, resps):
        m = copy.deepcopy(script)

        def patch(node):
            if isinstance(node, dict):
                for k, v in list(node.items()):
                    if k == 'number' and v == 0 and not isinstance(v, bool):
                        node[k] = z
                    elif k == 'number' and v == 1 and not isinstance(v, bool):
                        node[k] = o
                    else:
                        patch(v)
            elif isinstance(node, list):
                for x in node:
                    patch(x)
        patch(m)
        seen = []
        try:
            rt.execute_script(m, {'globals': {'vals': copy.deepcopy(vals), 'seen': seen}, 'maxStatements': 1000})
            impl = [[canon(p[0]), canon(p[1])] for p in seen]
        except Exception as exc:  # pylint: disable=broad-except
            impl = 'exc:' + type(exc).__name__
        st.case([canon(vals), repr(z), repr(o)], nontrivial=isinstance(vals, list) and len(vals) >= 2, tags=[f'zero:{type(z).__name__}', f'one:{type(o).__name__}'])
        for layer in ('host', 'abstract'):
            mod = [[dec(p[0]), dec(p[1])] for p in r[layer]]
            ctx.compare('h2-for', {'values': canon(vals), 'zero': repr(z), 'one': repr(o), 'layer': layer}, impl, mod)
    st.exhaustive = True


def streams(ctx):
    drv = fw.Driver('drv_c12x')
    stream_calls(ctx, drv)
    stream_ops(ctx, drv)
    stream_for(ctx, drv)
    ctx.driver.requests += drv.requests
